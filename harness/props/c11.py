"""C11 - graph algorithms return what their graph-theoretic definitions say.

Sections
  sp         dijkstra / floyd / compact_neighb: model (code as written) vs implementation,
             proved-sound certificate checker verdict vs brute force, distances vs Floyd-Warshall
  floyd      floyd(seed): None / sorted / unsorted / repeated / strided / empty seed arrays, row i vs seed[i];
             model floyd_code and the proved-sound matrix certificate floyd_rows_check
  cc         cc / main_cc / is_connected on symmetric graphs
  voronoi    voronoi_labelling, all seed sets on small graphs
  msf        kruskal (model vs impl, forest / same components / minimum weight), mst(X)
  builders   knn, eps_nn, 3-d grid 6/18/26, cross_knn, cross_eps, subgraph_left/right
  structural subgraph, symmeterize, anti_symmeterize, cut_redundancies, remove_trivial_edges,
             normalize, concatenate_graphs, to_coo_matrix as weighted-adjacency-matrix semantics
All weights are small integers or dyadic rationals, so every float operation is exact.
"""
import itertools
import signal
from fractions import Fraction

import numpy as np

HDR = ("From Coq Require Import ZArith List Bool.\nFrom NV.C11 Require Import Model.\n"
       "Import ListNotations.\nOpen Scope Z_scope.\n")
HDRQ = ("From Coq Require Import QArith List Bool.\nFrom NV.C11 Require Import ModelQ.\n"
        "Import ListNotations.\nClose Scope Q_scope.\n")

INF = float("inf")


# ------------------------------------------------------------------ literals
def zl(xs):
    return "[" + ";".join(str(int(x)) if int(x) >= 0 else "(%d)" % int(x) for x in xs) + "]"


def zll(rows):
    return "[" + ";".join(zl(r) for r in rows) + "]"


def cE(edges):
    return "(mkE [" + ";".join("(%d,%d,%d)" % (u, v, w) for u, v, w in edges) + "])"


def cnat(n):
    return "%d%%nat" % int(n)


def cQE(edges):
    """[(u, v, w)] with exact rational weights -> list qedge literal"""
    out = []
    for u, v, w in edges:
        f = Fraction(w) if not isinstance(w, float) else Fraction(*w.as_integer_ratio())
        out.append("(%d%%nat,%d%%nat,(%d#%d)%%Q)" % (u, v, f.numerator, f.denominator))
    return "[" + ";".join(out) + "]"


def elist(g):
    if not g.E:
        return []
    return [(int(a), int(b), float(w)) for (a, b), w in zip(np.asarray(g.edges).reshape(-1, 2).tolist(), np.asarray(g.weights).ravel().tolist())]


def cnats(xs):
    return "(nats %s)" % zl(xs)


def cbools(bs):
    return "[" + ";".join("true" if b else "false" for b in bs) + "]"


def dvec(d):
    """float distances -> ints with -1 for inf (all weights are integers)."""
    out = []
    for x in np.asarray(d, float).ravel():
        if np.isinf(x):
            out.append(-1)
        else:
            assert float(x) == int(x), x
            out.append(int(x))
    return out


# ------------------------------------------------------------------ references (independent of nipy)
def fw(V, edges):
    """All-pairs shortest path lengths by Floyd-Warshall (minimum over parallel edges)."""
    D = np.full((V, V), INF)
    for u, v, w in edges:
        if w < D[u, v]:
            D[u, v] = w
    for i in range(V):
        D[i, i] = 0.0
    for k in range(V):
        D = np.minimum(D, D[:, k:k + 1] + D[k:k + 1, :])
    return D


def components(V, edges):
    """Canonical component labels (numbered by lowest vertex) with union-find."""
    p = list(range(V))

    def find(x):
        while p[x] != x:
            p[x] = p[p[x]]
            x = p[x]
        return x
    for u, v, _ in edges:
        a, b = find(u), find(v)
        if a != b:
            p[max(a, b)] = min(a, b)
    lab, nxt, seen = [], 0, {}
    for v in range(V):
        r = find(v)
        if r not in seen:
            seen[r] = nxt
            nxt += 1
        lab.append(seen[r])
    return lab


def msf_weight(V, edges):
    p = list(range(V))

    def find(x):
        while p[x] != x:
            p[x] = p[p[x]]
            x = p[x]
        return x
    tot, n = 0, 0
    for u, v, w in sorted(edges, key=lambda e: e[2]):
        a, b = find(u), find(v)
        if a != b:
            p[a] = b
            tot += w
            n += 1
    return tot, n


def has_parallel(edges):
    seen = {}
    for u, v, w in edges:
        if (u, v) in seen and seen[(u, v)] != w:
            return True
        seen.setdefault((u, v), w)
    return False


def mkgraph(WeightedGraph, V, edges):
    e = np.array([(u, v) for u, v, _ in edges], dtype=np.intp).reshape(-1, 2)
    w = np.array([float(x) for _, _, x in edges])
    return WeightedGraph(V, e, w)


def akey(V, edges):
    e = np.array([(u, v) for u, v, _ in edges], dtype=np.intp).reshape(-1, 2)
    return np.argsort(e[:, 0] * float(V) + e[:, 1])


class Timeout(Exception):
    pass


def with_alarm(seconds, fn):
    state = {"armed": True}

    def handler(signum, frame):
        if state["armed"]:
            raise Timeout()
    # repeating timer: nipy's cc() has a bare `except: pass` that can swallow a single exception
    old = signal.signal(signal.SIGALRM, handler)
    signal.setitimer(signal.ITIMER_REAL, seconds, 0.02)
    try:
        r = fn()
        state["armed"] = False
        return r
    finally:
        state["armed"] = False
        signal.setitimer(signal.ITIMER_REAL, 0, 0)
        signal.signal(signal.SIGALRM, old)


# ------------------------------------------------------------------ generators
def small_digraphs(ck, rng):
    """Every weighted digraph on <= 3 vertices (thorough: + every edge pattern on 4 vertices) with
    off-diagonal weights in {absent,0,1,2}; self-loops and one parallel edge (different weight) are
    added pseudo-randomly; edge order is shuffled."""
    out = []
    for V in (1, 2, 3):
        pairs = [(u, v) for u in range(V) for v in range(V) if u != v]
        for ws in itertools.product((None, 0, 1, 2), repeat=len(pairs)):
            edges = [(u, v, w) for (u, v), w in zip(pairs, ws) if w is not None]
            variants = [("plain", list(edges))]
            e2 = list(edges)
            for u in range(V):
                if rng.random() < 0.4:
                    e2.append((u, u, int(rng.integers(0, 3))))
            if edges and rng.random() < 0.6:
                u, v, w = edges[int(rng.integers(len(edges)))]
                e2.insert(int(rng.integers(len(e2) + 1)), (u, v, int((w + 1 + rng.integers(2)) % 3)))
            if e2 != edges and (V < 3 or ck.thorough() or rng.random() < 0.3):
                variants.append(("loops+parallel", e2))
            for kind, es in variants:
                es = [es[i] for i in rng.permutation(len(es))] if es else es
                out.append((V, es, "digraph-V%d-%s" % (V, kind)))
    # V = 2 with self-loops, fully exhaustive (4^4)
    pairs = [(0, 0), (0, 1), (1, 0), (1, 1)]
    for ws in itertools.product((None, 0, 1, 2), repeat=4):
        edges = [(u, v, w) for (u, v), w in zip(pairs, ws) if w is not None]
        out.append((2, edges, "digraph-V2-selfloops-exhaustive"))
    if ck.thorough():
        pairs = [(u, v) for u in range(4) for v in range(4) if u != v]
        for mask in range(1 << 12):
            for rep in range(3):
                edges = [(u, v, int(rng.integers(0, 3))) for i, (u, v) in enumerate(pairs) if mask >> i & 1]
                if rep == 2 and edges:
                    u, v, w = edges[int(rng.integers(len(edges)))]
                    edges.append((u, v, (w + 1) % 3))
                    edges.append((v, v, int(rng.integers(0, 3))))
                edges = [edges[i] for i in rng.permutation(len(edges))] if edges else edges
                out.append((4, edges, "digraph-V4-pattern"))
    return out


def random_digraph(rng, V, parallel=False):
    """Several components, zero weights, ties, self-loops; optional parallel edges."""
    ncomp = int(rng.integers(1, 5))
    comp = rng.integers(0, ncomp, size=V)
    E = int(rng.integers(V, 3 * V + 1))
    edges = []
    for _ in range(E):
        u = int(rng.integers(V))
        same = np.nonzero(comp == comp[u])[0]
        v = int(same[rng.integers(len(same))])
        edges.append((u, v, int(rng.integers(0, 4))))
    if not parallel:
        seen, e2 = set(), []
        for u, v, w in edges:
            if (u, v) not in seen:
                seen.add((u, v))
                e2.append((u, v, w))
        edges = e2
    return edges


def small_symmetric(ck, rng):
    """Every symmetric graph on <= 4 vertices (thorough: + every edge pattern on 5) with weights
    {absent,0,1,2}; some get a self-loop and a duplicate undirected edge; edge order shuffled."""
    out = []
    for V in (1, 2, 3, 4):
        pairs = [(u, v) for u in range(V) for v in range(u + 1, V)]
        for ws in itertools.product((None, 0, 1, 2), repeat=len(pairs)):
            und = [(u, v, w) for (u, v), w in zip(pairs, ws) if w is not None]
            kind = "plain"
            if und and rng.random() < 0.25:
                u, v, w = und[int(rng.integers(len(und)))]
                und.append((u, v, (w + 1) % 3))
                kind = "parallel"
            edges = []
            for u, v, w in und:
                edges += [(u, v, w), (v, u, w)]
            if rng.random() < 0.2:
                u = int(rng.integers(V))
                edges.append((u, u, int(rng.integers(0, 3))))
                kind += "+loop"
            edges = [edges[i] for i in rng.permutation(len(edges))] if edges else edges
            out.append((V, edges, "sym-V%d-%s" % (V, kind)))
    if ck.thorough():
        pairs = [(u, v) for u in range(5) for v in range(u + 1, 5)]
        for mask in range(1 << 10):
            for rep in range(2):
                edges = []
                for i, (u, v) in enumerate(pairs):
                    if mask >> i & 1:
                        w = int(rng.integers(0, 3))
                        edges += [(u, v, w), (v, u, w)]
                edges = [edges[i] for i in rng.permutation(len(edges))] if edges else edges
                out.append((5, edges, "sym-V5-pattern"))
    return out


def multigraphs(ck, rng, symmetric=False):
    """Multigraphs: paths, rings, trees, grids and random graphs whose edges are repeated - the whole edge
    list concatenated with itself (2x / 3x, order kept), or every edge doubled with the SAME or a DIFFERENT
    weight, or a random subset repeated; long diameters so that wasted work shows; shuffled and unshuffled."""
    out = []
    for i in range(ck.n(160, 1600)):
        V = int(rng.integers(3, 15))
        shape = int(rng.integers(5))
        if shape == 0:
            base = [(u, u + 1) for u in range(V - 1)]
        elif shape == 1:
            base = [(u, (u + 1) % V) for u in range(V)]
        elif shape == 2:
            base = [(int(rng.integers(v)), v) for v in range(1, V)]
        elif shape == 3:
            b = int(rng.integers(2, 4))
            a = max(2, V // b)
            V = a * b
            base = [(i_ * b + j, (i_ + 1) * b + j) for i_ in range(a - 1) for j in range(b)] + [(i_ * b + j, i_ * b + j + 1) for i_ in range(a) for j in range(b - 1)]
        else:
            base = [(int(rng.integers(V)), int(rng.integers(V))) for _ in range(int(rng.integers(V, 2 * V)))]
        wmode = int(rng.integers(3))
        und = [(u, v, 1 if wmode == 0 else int(rng.integers(0, 4))) for u, v in base]
        if symmetric or rng.random() < 0.4:
            edges = [e for (u, v, w) in und for e in (((u, v, w), (v, u, w)) if u != v else ((u, v, w),))]
        else:
            edges = list(und)
        mode = int(rng.integers(5))
        if mode == 0:
            edges = edges + edges
            kind = "concatenated-2x"
        elif mode == 1:
            edges = edges + edges + edges
            kind = "concatenated-3x"
        elif mode == 2:
            edges = [e for e in edges for _ in range(2)]
            kind = "every-edge-doubled-equal-weight"
        elif mode == 3:
            edges = [x for (u, v, w) in edges for x in ((u, v, w), (u, v, w + int(rng.integers(1, 3))))]
            kind = "every-edge-doubled-unequal-weight"
        else:
            edges = edges + [edges[int(j)] for j in rng.integers(0, len(edges), size=len(edges) // 2 + 1)]
            kind = "random-repeats"
        if rng.random() < 0.5:
            edges = [edges[j] for j in rng.permutation(len(edges))]
            kind += "-shuffled"
        out.append((V, edges, ("sym-" if symmetric else "digraph-") + "multigraph-" + kind))
    return out



def random_symmetric(rng, V):
    ncomp = int(rng.integers(1, 6))
    comp = rng.integers(0, ncomp, size=V)
    E = int(rng.integers(V // 2, 2 * V + 1))
    seen, edges = set(), []
    for _ in range(E):
        u = int(rng.integers(V))
        same = np.nonzero(comp == comp[u])[0]
        v = int(same[rng.integers(len(same))])
        if u == v or (u, v) in seen:
            continue
        seen.add((u, v))
        seen.add((v, u))
        w = int(rng.integers(0, 4))
        edges += [(u, v, w), (v, u, w)]
    return [edges[i] for i in rng.permutation(len(edges))] if edges else edges


# ------------------------------------------------------------------ section: shortest paths
def sec_sp(ck, G, T):
    WeightedGraph = G.WeightedGraph
    rng = ck.rng("sp")
    cases = small_digraphs(ck, rng)
    nbig = ck.n(24, 150)
    for i in range(nbig):
        V = int(rng.integers(5, 13)) if i % 3 else int(rng.integers(30, ck.n(101, 201)))
        par = (i % 4 == 1)
        cases.append((V, random_digraph(rng, V, par), "digraph-random-%s%s" % ("small" if V < 13 else "large", "-parallel" if par else "")))
    # dense graphs with many distinct weights: vertices are pushed several times with decreasing
    # distances, so the heap holds stale entries (exercises lazy deletion / the `active` test)
    for i in range(ck.n(80, 600)):
        V = int(rng.integers(4, 9))
        edges = [(u, v, int(rng.integers(0, 30))) for u in range(V) for v in range(V) if u != v and rng.random() < 0.85]
        if edges:
            edges = [edges[j] for j in rng.permutation(len(edges))]
            cases.append((V, edges, "digraph-dense-stale-heap"))
    cases += multigraphs(ck, rng)
    cases.sort(key=lambda c: (c[0] > 4, ))     # stable: small graphs first
    nmodel = 0
    for V, edges, bucket in cases:
        par = has_parallel(edges)
        ref = fw(V, edges)
        small = V <= 12
        if small:
            seedsets = [[s] for s in range(V)]
            if V >= 2:
                k = int(rng.integers(2, V + 1))
                seedsets.append([int(x) for x in rng.choice(V, size=k, replace=False)])
        else:
            seedsets = [[int(rng.integers(V))] for _ in range(3)]
            seedsets.append([int(x) for x in rng.choice(V, size=4, replace=False)])
        # duplicated seeds: the same vertex listed twice, alone and among others
        s0 = int(rng.integers(V))
        seedsets.append([s0, s0])
        if V >= 2:
            t0 = int(rng.integers(V))
            seedsets.append([s0, t0, s0, t0][:int(rng.integers(3, 5))])
        ck.count(("sp", V, tuple(edges)), nontrivial=len(edges) > 0, bucket=bucket)
        if not edges:
            # edgeless graph: distances are 0 at the seeds and inf elsewhere
            try:
                g = WeightedGraph(V)
                d = g.dijkstra(0)
                if dvec(d) != [0] + [-1] * (V - 1):
                    ck.fail("dijkstra/wrong-distance", "edgeless graph V=%d: dijkstra(0) = %s" % (V, d), {"V": V, "edges": []})
                T.newgraph(cE([]))
                T.add("dijkstra", "zl_eqb (und (dijkstra_model %s %s (nats []) (nats [0]))) %s" % (cnat(V), cE([]), zl(dvec(d))),
                      {"V": V, "edges": [], "impl": dvec(d)})
            except Exception as e:  # noqa
                ck.fail("dijkstra/no-edges-raises",
                        "WeightedGraph(%d) without edges: dijkstra(0) raised %s: %s (expected [0, inf, ...])" % (V, type(e).__name__, e),
                        {"V": V, "edges": [], "call": "WeightedGraph(V).dijkstra(0)"})
            continue
        g = mkgraph(WeightedGraph, V, edges)
        order = akey(V, edges)
        T.newgraph(cE(edges))
        try:
            idx, neighb, weight = g.compact_neighb()
        except Exception as e:  # noqa
            ck.fail("compact_neighb/raises", "compact_neighb raised %s" % e, {"V": V, "edges": edges})
            continue
        # compact_neighb oracle: CSR row u = out-edges of u as a multiset
        okc = len(idx) == V + 1 and idx[0] == 0 and idx[-1] == len(edges)
        if okc:
            for u in range(V):
                got = sorted(zip(neighb[idx[u]:idx[u + 1]].tolist(), weight[idx[u]:idx[u + 1]].tolist()))
                want = sorted((v, float(w)) for a, v, w in edges if a == u)
                if got != want:
                    okc = False
                    break
        if not okc:
            ck.fail("compact_neighb/rows-are-not-out-edges",
                    "compact_neighb: CSR rows differ from the out-edge lists (V=%d, E=%d)" % (V, len(edges)),
                    {"V": V, "edges": edges, "idx": idx.tolist(), "neighb": neighb.tolist(), "weight": weight.tolist()})
        T.add("compact", "zll_eqb (compact_flat %s %s %s) %s && order_ok %s %s %s" % (
            cnat(V), cE(edges), cnats(order), zll([idx.tolist(), neighb.tolist(), [int(x) for x in weight]]),
            cnat(V), cE(edges), cnats(order)),
            {"V": V, "edges": edges, "impl": [idx.tolist(), neighb.tolist(), weight.tolist()]},
            show="compact_flat %s %s %s" % (cnat(V), cE(edges), cnats(order)))
        rows, verdicts = [], []
        for seeds in seedsets:
            try:
                d = g.dijkstra(seeds[0] if len(seeds) == 1 and rng.random() < 0.5 else np.array(seeds))
            except Exception as e:  # noqa
                ck.fail("dijkstra/raises", "dijkstra raised %s: %s" % (type(e).__name__, e), {"V": V, "edges": edges, "seeds": seeds})
                rows = None
                break
            want = ref[seeds, :].min(0)
            ok = np.array_equal(np.asarray(d, float), want)
            if not ok:
                sig = "dijkstra/parallel-edges" if par else "dijkstra/wrong-distance"
                ck.fail(sig, "dijkstra(seed=%s) on V=%d edges=%s returned %s, true distances %s" % (
                    seeds, V, edges if len(edges) < 12 else "(%d edges)" % len(edges), dvec(d), dvec(want)),
                    {"V": V, "edges": edges, "seeds": seeds, "impl": dvec(d), "true": dvec(want)})
            rows.append(dvec(d))
            verdicts.append(bool(ok))
        if rows is None:
            continue
        if small and V <= 4:
            try:
                F = g.floyd()
                if dvec(F) != [x for r in rows[:V] for x in r]:
                    ck.fail("floyd/differs-from-dijkstra-rows", "floyd() differs from stacked dijkstra(s)", {"V": V, "edges": edges})
            except Exception as e:  # noqa
                ck.fail("floyd/raises", "floyd raised %s" % e, {"V": V, "edges": edges})
        sl = "[" + ";".join(cnats(s) for s in seedsets) + "]"
        T.add("dijkstra", "zll_eqb (map (fun s => und (dijkstra_model %s %s %s s)) %s) %s" % (
            cnat(V), cE(edges), cnats(order), sl, zll(rows)),
            {"V": V, "edges": edges, "seedsets": seedsets, "impl": rows},
            show="map (fun s => und (dijkstra_model %s %s %s s)) %s" % (cnat(V), cE(edges), cnats(order), sl))
        # checker verdict on the implementation's output must equal the brute-force verdict
        # (quick tier: every 2nd of the exhaustive 3-vertex graphs; all others always)
        if ck.thorough() or V != 3 or nmodel % 2 == 0 or not all(verdicts):
            T.add("sp_check", "list_eqb Bool.eqb (map (fun p => sp_check %s %s (fst p) (mkd (snd p))) (combine %s %s)) %s" % (
                cnat(V), cE(edges), sl, zll(rows), cbools(verdicts)),
                {"V": V, "edges": edges, "seedsets": seedsets, "impl": rows, "bruteforce_ok": verdicts})
        nmodel += 1
        if V == 3 and len(edges) == 4 and par:
            ck.sample({"V": V, "edges": edges, "dijkstra_rows": rows[:3], "true": [dvec(ref[s]) for s in range(V)]})
    ck.section("sp", graphs=len(cases), model_cases=nmodel)


# ------------------------------------------------------------------ section: floyd with seed arguments
def seed_arguments(rng, V):
    """Seed arguments for a method that takes an ARRAY of seeds whose order matters in the result:
    (class, seeds as a python list, the object handed to the method).  Classes: none, single, sorted-distinct,
    unsorted-distinct, all-reversed (negative-stride view), repeated (unsorted, with repeats), strided-view
    (every 2nd entry of a longer buffer), empty; containers: list, intp / int32 / int64 arrays, views."""
    def container(seeds):
        c = int(rng.integers(4))
        if c == 0:
            return list(seeds), "list"
        dt = [np.intp, np.int32, np.int64][c - 1]
        return np.array(seeds, dtype=dt), np.dtype(dt).name
    out = [("none", list(range(V)), None, "None")]
    s = int(rng.integers(V))
    out.append(("single", [s]) + container([s]))
    if V >= 2:
        k = int(rng.integers(2, V + 1))
        sub = [int(x) for x in rng.choice(V, size=k, replace=False)]
        out.append(("sorted-distinct", sorted(sub)) + container(sorted(sub)))
        k = int(rng.integers(2, V + 1))
        sub = [int(x) for x in rng.choice(V, size=k, replace=False)]
        if sub == sorted(sub):
            sub = sub[::-1]
        out.append(("unsorted-distinct", sub) + container(sub))
        out.append(("all-reversed", list(range(V))[::-1], np.arange(V)[::-1], "negative-stride-view"))
        k = int(rng.integers(3, V + 4))
        rep = [int(x) for x in rng.integers(0, V, size=k)]
        rep[int(rng.integers(1, k))] = rep[0]
        out.append(("repeated", rep) + container(rep))
        k = int(rng.integers(2, V + 1))
        buf = rng.integers(0, V, size=2 * k)
        buf[::2] = rng.permutation(V)[:k]
        out.append(("strided-view", [int(x) for x in buf[::2]], buf[::2], "every-2nd-entry-view"))
    out.append(("empty", [], np.zeros(0, np.intp), "intp"))
    return out


def sec_floyd(ck, G, T):
    """floyd(seed): row i must be the distance map of seed[i] - for seed=None and for every explicit seed array,
    in the caller's order (sorted or not, with or without repeats, any integer container / memory layout).
    Oracle: Floyd-Warshall rows.  Coq: floyd_code (the loop as written) == implementation, and the proved-sound
    floyd_rows_check on the implementation's matrix == brute-force verdict."""
    WeightedGraph = G.WeightedGraph
    rng = ck.rng("floyd")
    cases = [c for i, c in enumerate(small_digraphs(ck, rng)) if c[0] >= 2 and i % ck.n(40, 6) == 0]
    for i in range(ck.n(90, 900)):
        V = int(rng.integers(2, 10))
        cases.append((V, random_digraph(rng, V, i % 4 == 1), "floyd-digraph-random"))
    for i in range(ck.n(40, 400)):
        V = int(rng.integers(3, 10))
        cases.append((V, random_symmetric(rng, V), "floyd-symmetric-random"))
    cases += [(V, e, "floyd-" + b) for V, e, b in multigraphs(ck, rng)[:ck.n(30, 300)]]
    cases += [(V, [], "floyd-edgeless") for V in (1, 2, 3, 5)]
    for i in range(ck.n(6, 40)):
        V = int(rng.integers(25, 60))
        cases.append((V, random_digraph(rng, V), "floyd-digraph-large"))
    cases.sort(key=lambda c: c[0] > 4)
    ncall, per_class = 0, {}
    for V, edges, bucket in cases:
        ck.count(("floyd", V, tuple(edges)), nontrivial=len(edges) > 0, bucket=bucket)
        ref = fw(V, edges)
        g = mkgraph(WeightedGraph, V, edges) if edges else WeightedGraph(V)
        order = akey(V, edges) if edges else []
        T.newgraph(cE(edges))
        for cls, seeds, arg, cont in seed_arguments(rng, V):
            rp = {"V": V, "edges": edges, "seed_class": cls, "seed": None if arg is None else seeds, "seed_container": cont,
                  "call": "WeightedGraph(V, edges, weights).floyd(%s)" % ("" if arg is None else "seed")}
            keep = None if arg is None else (arg.copy() if hasattr(arg, "copy") else list(arg))
            try:
                F = g.floyd() if arg is None else g.floyd(arg)
            except Exception as e:  # noqa
                ck.fail("floyd/raises-seed-%s" % cls, "floyd(%s) raised %s: %s (V=%d, seeds %s as %s)" % (
                    cls, type(e).__name__, e, V, seeds, cont), rp)
                continue
            ncall += 1
            per_class[cls] = per_class.get(cls, 0) + 1
            if arg is not None and not np.array_equal(np.asarray(keep), np.asarray(arg)):
                ck.fail("purity/floyd-modifies-its-seed-array", "floyd changed the seed array %s -> %s" % (seeds, list(arg)), rp)
            if cls == "empty":
                rows = [] if F is None or np.size(F) == 0 else None
                if rows is None:
                    ck.fail("floyd/rows-for-an-empty-seed-array", "floyd(empty seed array) returned %r" % (F,), rp)
                    continue
                ok = True
            else:
                F2 = np.atleast_2d(np.asarray(F, float))
                want = ref[seeds, :]
                if F2.shape != want.shape:
                    ck.fail("floyd/wrong-shape-seed-%s" % cls, "floyd with %d seeds (%s) on V=%d returned shape %s, expected %s" % (
                        len(seeds), cls, V, F2.shape, want.shape), dict(rp, impl_shape=list(F2.shape)))
                    continue
                ok = bool(np.array_equal(F2, want))
                rows = [dvec(r) for r in F2]
                if not ok:
                    bad = [i for i in range(len(seeds)) if not np.array_equal(F2[i], want[i])]
                    perm = sorted(map(tuple, F2.tolist())) == sorted(map(tuple, want.tolist()))
                    ck.fail("floyd/rows-not-the-distance-maps-of-their-seeds-%s" % cls,
                            "floyd(seed=%s) on V=%d edges=%s: row %d is %s but the distances from seed %d are %s%s" % (
                                "None" if arg is None else seeds, V, edges if len(edges) < 12 else "(%d edges)" % len(edges), bad[0],
                                rows[bad[0]], seeds[bad[0]], dvec(want[bad[0]]),
                                " (the rows are the right distance maps in another order)" if perm else ""),
                            dict(rp, impl=rows, true=[dvec(r) for r in want], wrong_rows=bad, right_rows_in_wrong_order=perm))
            if V <= 9:
                sarg = "None" if arg is None else "(Some %s)" % cnats(seeds)
                T.add("floyd", "zll_eqb (floyd_flat %s %s %s %s) %s" % (cnat(V), cE(edges), cnats(order), sarg, zll(rows)),
                      dict(rp, impl=rows), show="floyd_flat %s %s %s %s" % (cnat(V), cE(edges), cnats(order), sarg))
                if cls != "empty":
                    T.add("floyd_check", "Bool.eqb (floyd_rows_check %s %s %s (map mkd %s)) %s" % (
                        cnat(V), cE(edges), cnats(seeds), zll(rows), "true" if ok else "false"),
                        dict(rp, impl=rows, bruteforce_ok=ok))
    ck.section("floyd", graphs=len(cases), calls=ncall, calls_per_seed_class=per_class)


# ------------------------------------------------------------------ sections: cc, voronoi, msf
def sec_sym(ck, G, T):
    WeightedGraph = G.WeightedGraph
    rng = ck.rng("sym")
    cases = small_symmetric(ck, rng)
    for i in range(ck.n(20, 120)):
        V = int(rng.integers(6, 15)) if i % 3 else int(rng.integers(30, ck.n(81, 161)))
        cases.append((V, random_symmetric(rng, V), "sym-random-%s" % ("small" if V < 15 else "large")))
    cases += multigraphs(ck, rng, symmetric=True)[:ck.n(100, 1000)]
    nv = 0
    for V, edges, bucket in cases:
        ck.count(("sym", V, tuple(edges)), nontrivial=len(edges) > 0, bucket=bucket)
        ref_lab = components(V, edges)
        k = max(ref_lab) + 1
        T.newgraph(cE(edges))
        g = mkgraph(WeightedGraph, V, edges) if edges else WeightedGraph(V)
        # ---- cc
        try:
            lab = [int(x) for x in g.cc()]
        except Exception as e:  # noqa
            ck.fail("cc/raises", "cc raised %s" % e, {"V": V, "edges": edges})
            continue
        okcc = lab == ref_lab
        if not okcc:
            part_ok = len(lab) == V and all((lab[u] == lab[v]) == (ref_lab[u] == ref_lab[v]) for u in range(V) for v in range(V))
            zero = any(w == 0 for _, _, w in edges)
            ck.fail("cc/labels-not-partition-by-reachability" + ("-zero-weight" if zero and not part_ok else "") if not part_ok
                    else "cc/labels-not-in-discovery-order",
                    "cc() on V=%d edges=%s returned %s, components are %s" % (V, edges if len(edges) < 14 else len(edges), lab, ref_lab),
                    {"V": V, "edges": edges, "impl": lab, "true": ref_lab})
        part_ok = len(lab) == V and all((lab[u] == lab[v]) == (ref_lab[u] == ref_lab[v]) for u in range(V) for v in range(V))
        T.add("cc", "zl_eqb (cc_model %s %s) %s" % (cnat(V), cE(edges), zl(lab)),
              {"V": V, "edges": edges, "impl": lab}, show="cc_model %s %s" % (cnat(V), cE(edges)))
        ck._c11_i = getattr(ck, '_c11_i', 0) + 1
        sparse_q = (not ck.thorough()) and V == 4 and (ck._c11_i % 3 != 0) and part_ok
        if sparse_q:
            pass
        elif V <= 12:
            T.add("cc_check", "Bool.eqb (cc_check %s %s %s) %s" % (cnat(V), cE(edges), zl(lab), "true" if part_ok else "false"),
                  {"V": V, "edges": edges, "impl": lab, "bruteforce_ok": part_ok})
        else:
            nl = max(lab) + 1 if lab else 0
            T.add("cc_check", "Bool.eqb (cc_check_fast %s %s %s %s) %s" % (cnat(V), cE(edges), zl(lab), cnat(nl), "true" if part_ok else "false"),
                  {"V": V, "edges": edges, "impl": lab, "bruteforce_ok": part_ok})
        try:
            ic = bool(g.is_connected())
            if ic != (k == 1):
                ck.fail("is_connected/wrong", "is_connected() = %s on a graph with %d components" % (ic, k), {"V": V, "edges": edges})
            if edges:
                mc = np.atleast_1d(g.main_cc()).tolist()
                sizes = [ref_lab.count(c) for c in range(k)]
                best = [v for v in range(V) if sizes[ref_lab[v]] == max(sizes)]
                first = [v for v in range(V) if ref_lab[v] == sizes.index(max(sizes))]
                if mc != first:
                    ck.fail("main_cc/not-a-largest-component" if not (set(mc) <= set(best) and len(mc) == max(sizes)) else "main_cc/tie-order",
                            "main_cc() = %s, largest component is %s" % (mc, first), {"V": V, "edges": edges, "impl": mc})
        except Exception as e:  # noqa
            ck.fail("main_cc/raises", "is_connected/main_cc raised %s" % e, {"V": V, "edges": edges})
        # ---- kruskal
        sec_kruskal_one(ck, G, T, V, edges, g, ref_lab, k)
        # ---- voronoi
        if not edges:
            try:
                g0 = WeightedGraph(V)
                l0 = [int(x) for x in g0.voronoi_labelling(np.array([0]))]
                if l0 != [0] + [-1] * (V - 1):
                    ck.fail("voronoi/wrong-label", "edgeless: %s" % l0, {"V": V, "edges": []})
            except Exception as e:  # noqa
                ck.fail("voronoi/no-edges-raises", "WeightedGraph(%d) without edges: voronoi_labelling([0]) raised %s: %s" % (V, type(e).__name__, e),
                        {"V": V, "edges": [], "call": "WeightedGraph(V).voronoi_labelling(np.array([0]))"})
            continue
        D = fw(V, edges)
        order = akey(V, edges)
        if V <= 3 or (ck.thorough() and V <= 4):
            seedsets = [list(c) for r in range(1, V + 1) for c in itertools.combinations(range(V), r)]
            if V >= 2:
                seedsets.append([int(x) for x in rng.permutation(V)])
        else:
            seedsets = []
            for _ in range(2):
                r = int(rng.integers(1, min(V, 6) + 1))
                seedsets.append([int(x) for x in rng.choice(V, size=r, replace=False)])
        s0 = int(rng.integers(V))
        seedsets.append([s0, int(rng.integers(V)), s0])      # a duplicated seed
        labs, verdicts, dmins = [], [], []
        for seeds in seedsets:
            try:
                vl = [int(x) for x in g.voronoi_labelling(np.array(seeds))]
            except Exception as e:  # noqa
                ck.fail("voronoi/raises", "voronoi_labelling raised %s" % e, {"V": V, "edges": edges, "seeds": seeds})
                labs = None
                break
            dmin = D[seeds, :].min(0)
            ok = len(vl) == V
            for v in range(V):
                if not ok:
                    break
                if np.isinf(dmin[v]):
                    ok = vl[v] == -1
                else:
                    ok = 0 <= vl[v] < len(seeds) and D[seeds[vl[v]], v] == dmin[v]
            if not ok:
                ck.fail("voronoi/not-a-nearest-seed", "voronoi_labelling(%s) on V=%d edges=%s returned %s; seed distances %s" % (
                    seeds, V, edges if len(edges) < 14 else len(edges), vl, dvec(dmin)),
                    {"V": V, "edges": edges, "seeds": seeds, "impl": vl, "nearest_dist": dvec(dmin)})
            labs.append(vl)
            verdicts.append(bool(ok))
            dmins.append(dvec(dmin))
            nv += 1
        if labs is None:
            continue
        sl = "[" + ";".join(cnats(s) for s in seedsets) + "]"
        T.add("voronoi", "zll_eqb (map (fun s => snd (voronoi_model %s %s %s s)) %s) %s" % (
            cnat(V), cE(edges), cnats(order), sl, zll(labs)),
            {"V": V, "edges": edges, "seedsets": seedsets, "impl": labs},
            show="map (fun s => snd (voronoi_model %s %s %s s)) %s" % (cnat(V), cE(edges), cnats(order), sl))
        if ck.thorough() or V != 4 or ck._c11_i % 3 == 1 or not all(verdicts):
            T.add("vor_check", "list_eqb Bool.eqb (map (fun p => vor_check %s %s (fst (fst p)) (mkd (snd (fst p))) (snd p)) (combine (combine %s %s) %s)) %s" % (
                cnat(V), cE(edges), sl, zll(dmins), zll(labs), cbools(verdicts)),
                {"V": V, "edges": edges, "seedsets": seedsets, "impl": labs, "bruteforce_ok": verdicts})
    ck.section("sym", graphs=len(cases), voronoi_calls=nv)


def sec_kruskal_one(ck, G, T, V, edges, g, ref_lab, k):
    try:
        K = g.kruskal()
    except Exception as e:  # noqa
        ck.fail("kruskal/raises", "kruskal raised %s: %s" % (type(e).__name__, e), {"V": V, "edges": edges})
        return
    ke = [(int(a), int(b), int(w)) for (a, b), w in zip(np.asarray(K.edges).reshape(-1, 2).tolist(), np.asarray(K.weights).tolist())] if K.E else []
    if edges:
        iw = np.argsort(np.array([float(w) for _, _, w in edges]))
        T.add("kruskal", "el_eqb (kruskal_model %s %s %s %s) %s" % (cnat(V), cE(edges), cnats(iw), cnat(k), cE(ke)),
              {"V": V, "edges": edges, "impl": ke}, show="kruskal_model %s %s %s %s" % (cnat(V), cE(edges), cnats(iw), cnat(k)))
    eset = {}
    for u, v, w in edges:
        eset.setdefault((u, v), set()).add(w)
    nfill = 2 * (V - k)
    body, pad = ke[:nfill], ke[nfill:]
    if pad and all(x == (0, 0, 0) for x in pad):
        ck.fail("kruskal/disconnected-padding-edges",
                "kruskal() on a graph with %d components (V=%d) returns %d edges: the last %d are unfilled (0,0) rows of weight 0 that are not edges of the graph" % (
                    k, V, len(ke), len(pad)), {"V": V, "edges": edges, "impl": ke})
    else:
        body = ke
    bad = forest_verdict(V, body, edges, lambda a, b, w: (a, b) in eset and w in eset[(a, b)])
    if bad:
        ck.fail("kruskal/not-a-minimum-spanning-forest", "kruskal() on V=%d edges=%s: %s; returned %s" % (
            V, edges if len(edges) < 14 else len(edges), bad, ke), {"V": V, "edges": edges, "impl": ke, "why": bad})
    if V <= 12 and edges and len(body) % 2 == 0:
        und = body[0::2]
        okf = bad is None or not any(x in bad for x in ("cycle", "undirected edges", "span", "odd", "reversal"))
        T.add("kruskal_forest_check", "Bool.eqb (forest_check %s %s && cc_check %s %s %s) %s" % (
            cnat(V), cE(und), cnat(V), cE(und), zl(ref_lab), "true" if okf else "false"),
            {"V": V, "edges": edges, "impl": ke, "bruteforce": bad})


# ------------------------------------------------------------------ section: builders
def dense(V, W, edges, weights):
    A = np.zeros((V, W))
    if np.size(edges):
        for (a, b), w in zip(np.asarray(edges).reshape(-1, 2).tolist(), np.asarray(weights).ravel().tolist()):
            A[int(a), int(b)] += w
    return A


def sqd(X, Y=None):
    Y = X if Y is None else Y
    return ((X[:, None, :].astype(np.int64) - Y[None, :, :].astype(np.int64)) ** 2).sum(2)


def point_clouds(ck, rng):
    out = []
    for n in (1, 2, 3):            # every 1-D cloud on {0,1,2}^n incl. duplicates
        for pts in itertools.product(range(3), repeat=n):
            out.append(np.array(pts, float).reshape(n, 1))
    for _ in range(ck.n(60, 600)):
        n = int(rng.integers(2, 9))
        dim = int(rng.integers(1, 5))
        hi = int(rng.integers(2, 6))
        out.append(rng.integers(0, hi, size=(n, dim)).astype(float))
    for _ in range(ck.n(6, 30)):   # distinct distances: points 2^i on a line, shuffled (no ties at all)
        n = int(rng.integers(3, 9))
        out.append(rng.permutation(2 ** np.arange(n)).astype(float).reshape(n, 1))
    return out


def sec_builders(ck, G, B, T):
    rng = ck.rng("builders")
    nk = 0
    T.newgraph(None)
    ck._c11_mst_hangs = 0
    for X in point_clouds(ck, rng):
        n = X.shape[0]
        D2 = sqd(X)
        dup = bool(((D2 == 0) & ~np.eye(n, dtype=bool)).any())
        for k in range(1, n + 3):
            ck.count(("knn", X.tobytes(), X.shape, k), nontrivial=n > 1, bucket="knn:k>=n-1" if k >= n - 1 else "knn:k<n-1")
            nk += 1
            try:
                g = G.knn(X.copy() if rng.random() < 0.8 or X.shape[1] > 1 else X.ravel().copy(), k)
            except IndexError as e:
                ck.fail("knn/k>=n-1" if k >= n - 1 else "knn/raises", "knn(X, %d) with n=%d raised IndexError: %s" % (k, n, e),
                        {"X": X.tolist(), "k": k})
                continue
            except Exception as e:  # noqa
                ck.fail("knn/raises", "knn(X, %d) with n=%d raised %s: %s" % (k, n, type(e).__name__, e), {"X": X.tolist(), "k": k})
                continue
            A = dense(n, n, g.edges, g.weights)
            kk = min(k, n - 1)
            srt = np.sort(D2, axis=1)                       # row i: squared distances from i, self first
            kth = srt[:, kk] if n > 1 else srt[:, 0]
            tie = dup or (kk + 1 < n and bool((srt[:, kk] == srt[:, kk + 1]).any()))
            P = A > 0
            bad = None
            if not np.array_equal(A, A.T) or P.diagonal().any():
                bad = "adjacency not symmetric or has a diagonal entry"
            elif not np.array_equal(A[P], np.maximum(np.sqrt(D2.astype(float)), 1e-16)[P]):   # coincident points: 1e-16 as in eps_nn
                bad = "weights are not the euclidean distances"
            else:
                within = D2 <= kth[:, None]                  # j among the k nearest of i (ties included)
                strict = (D2 < kth[:, None]) & ~np.eye(n, dtype=bool)
                if (P & ~(within | within.T)).any():
                    bad = "an edge joins points neither of which is among the other's k nearest"
                elif not tie and (strict | strict.T | (within & ~np.eye(n, dtype=bool)) | (within & ~np.eye(n, dtype=bool)).T != P).any():
                    bad = "edge set differs from the symmetrised k-nearest-neighbour relation"
            if bad:
                ck.fail("knn/wrong-edge-set", "knn(X, %d), X=%s: %s" % (k, X.tolist(), bad), {"X": X.tolist(), "k": k, "edges": np.asarray(g.edges).tolist()})
            elif n > 1 and (P.sum(1) < kk).any():
                ck.fail("knn/ties-fewer-than-k",
                        "knn(X, %d), X=%s: vertex %d has %d < k neighbours (distance ties at the k-th neighbour or duplicate points: "
                        "`dist < sorted_dist[k+1]` drops all tied candidates, zero distances are dropped as absent matrix entries)" % (
                            k, X.tolist(), int(np.argmin(P.sum(1))), int(P.sum(1).min())),
                        {"X": X.tolist(), "k": k, "edges": np.asarray(g.edges).tolist(), "tie_or_duplicate": tie})
            # model of the column-threshold rule on squared integer distances
            if n <= 6:
                Am = (A > 0).astype(int)
                T.add("knn", "zll_eqb (knn_model %s %s) %s" % (zll(D2.tolist()), cnat(k), zll(Am.tolist())),
                      {"X": X.tolist(), "k": k, "impl": Am.tolist()}, show="knn_model %s %s" % (zll(D2.tolist()), cnat(k)))
        # eps_nn on the value set of distances
        for eps in sorted(set(np.sqrt(D2.astype(float)).ravel().tolist() + [0.5, 1.5]))[:6]:
            if eps <= 0:
                continue
            ck.count(("eps", X.tobytes(), X.shape, eps), nontrivial=n > 1, bucket="eps_nn")
            try:
                g = G.eps_nn(X.copy(), eps)
            except Exception as e:  # noqa
                ck.fail("eps_nn/raises", "eps_nn raised %s" % e, {"X": X.tolist(), "eps": eps})
                continue
            A = dense(n, n, g.edges, g.weights)
            Dm = np.sqrt(D2.astype(float))
            want = np.where((Dm < eps) & ~np.eye(n, dtype=bool), np.maximum(Dm, 1e-16), 0.0)
            if not np.array_equal(A, want):
                ck.fail("eps_nn/wrong-edge-set", "eps_nn(X, %r), X=%s: adjacency differs from {i!=j, d(i,j) < eps}" % (eps, X.tolist()),
                        {"X": X.tolist(), "eps": eps, "edges": np.asarray(g.edges).tolist()})
        # mst(X): spanning tree whose multiset of edge lengths is that of a minimum spanning tree
        if 2 <= n <= 7 and (D2.any() or ck._c11_mst_hangs < 2):
            ck.count(("mst", X.tobytes(), X.shape), bucket="mst")
            try:
                m = with_alarm(1, lambda: G.mst(X.copy()))
            except Timeout:
                ck._c11_mst_hangs += 1
                ck.fail("mst/identical-points-never-terminates" if not D2.any() else "mst/never-terminates",
                        "mst(X) did not return within 2 s for X=%s" % X.tolist(), {"X": X.tolist()})
                m = None
            except Exception as e:  # noqa
                ck.fail("mst/raises", "mst raised %s: %s" % (type(e).__name__, e), {"X": X.tolist()})
                m = None
            if m is not None:
                me = np.asarray(m.edges).reshape(-1, 2).tolist()
                und = [(a, b, int(D2[a, b])) for a, b in me[0::2]]
                full = [(a, b, int(D2[a, b])) for a in range(n) for b in range(a + 1, n)]
                want, _ = msf_weight(n, full)
                bad = None
                if len(me) != 2 * (n - 1) or any(me[2 * i + 1] != me[2 * i][::-1] for i in range(len(me) // 2)):
                    bad = "not n-1 edges in both orientations"
                elif max(components(n, und)) != 0:
                    bad = "not spanning"
                elif sorted(w for _, _, w in und) != sorted(kruskal_multiset(n, full)):
                    bad = "edge lengths are not those of a minimum spanning tree"
                elif not np.array_equal(np.asarray(m.weights), np.sqrt(np.array([D2[a, b] for a, b in me], float))):
                    bad = "weights are not the euclidean lengths"
                if bad:
                    ck.fail("mst/not-a-minimum-spanning-tree", "mst(X), X=%s: %s; edges %s" % (X.tolist(), bad, me), {"X": X.tolist(), "impl": me})
    # ---- 3-d grid neighbourhoods
    ng = 0
    for i in range(ck.n(120, 1200)):
        box = rng.integers(1, 4, size=3)
        allp = np.array(list(itertools.product(range(box[0]), range(box[1]), range(box[2]))))
        m = int(rng.integers(1, len(allp) + 1))
        xyz = allp[rng.choice(len(allp), size=m, replace=False)] + rng.integers(-3, 4, size=3)
        if i % 7 == 0:
            xyz = xyz * np.array([1, 1, 1]) + np.array([0, 0, 50])   # large offsets
        for k in (6, 18, 26):
            ck.count(("grid", xyz.tobytes(), k), nontrivial=m > 1, bucket="grid-%d" % k)
            ng += 1
            try:
                g = G.wgraph_from_3d_grid(xyz.copy(), k)
            except Exception as e:  # noqa
                ck.fail("grid/raises", "wgraph_from_3d_grid raised %s: %s" % (type(e).__name__, e), {"xyz": xyz.tolist(), "k": k})
                continue
            d = xyz[None, :, :] - xyz[:, None, :]
            l1 = np.abs(d).sum(2)
            li = np.abs(d).max(2)
            lim = {6: 1, 18: 2, 26: 3}[k]
            want = sorted((a, b, float(np.sqrt(l1[a, b]))) for a in range(m) for b in range(m) if li[a, b] == 1 and l1[a, b] <= lim)
            got = sorted((int(a), int(b), float(w)) for (a, b), w in zip(np.asarray(g.edges).reshape(-1, 2).tolist(), np.asarray(g.weights).tolist())) if g.E else []
            if got != want:
                ck.fail("grid/wrong-edge-set", "wgraph_from_3d_grid(xyz, %d): edge set differs from the %d-neighbourhood; xyz=%s" % (k, k, xyz.tolist()),
                        {"xyz": xyz.tolist(), "k": k, "impl": got[:40], "expected": want[:40]})
        if m <= 5 and i < 60:
            lx = (xyz - xyz.min(0)).tolist()
            mm = int(3 * (xyz - xyz.min(0)).max(0).sum() + 2)
            T.add("grid_hash", "grid_hash_ok %d %s" % (mm, zll(lx)), {"lxyz": lx, "m": mm})
    # ---- bipartite builders
    nb = 0
    for _ in range(ck.n(80, 800)):
        n1, n2 = int(rng.integers(1, 6)), int(rng.integers(1, 6))
        dim = int(rng.integers(1, 4))
        X = rng.integers(0, 4, size=(n1, dim)).astype(float)
        Y = rng.integers(0, 4, size=(n2, dim)).astype(float)
        D2 = sqd(X, Y)
        for k in range(1, n2 + 2):
            nb += 1
            ck.count(("cknn", X.tobytes(), Y.tobytes(), k), bucket="cross_knn")
            try:
                b = B.cross_knn(X.copy(), Y.copy(), k)
            except Exception as e:  # noqa
                ck.fail("cross_knn/raises", "cross_knn raised %s: %s" % (type(e).__name__, e), {"X": X.tolist(), "Y": Y.tolist(), "k": k})
                continue
            kk = min(k, n2 - 1)   # documented cap (code): at most n_Y - 1 neighbours
            A = dense(n1, n2, b.edges, b.weights)
            P = A > 0
            srt = np.sort(D2, axis=1)
            bad = None
            if (b.V, b.W) != (n1, n2):
                bad = "V, W"
            elif kk > 0 and ((P.sum(1) != kk).any() or (P & (D2 > srt[:, kk - 1][:, None])).any()):
                bad = "row does not hold k nearest points of Y"
            elif kk == 0 and P.any():
                bad = "edges with k capped to 0"
            elif not np.array_equal(A[P], np.maximum(D2.astype(float), 1e-15)[P]):
                bad = "weights are not the squared distances"
            if bad:
                ck.fail("cross_knn/wrong-edge-set", "cross_knn(X,Y,%d): %s" % (k, bad), {"X": X.tolist(), "Y": Y.tolist(), "k": k, "edges": np.asarray(b.edges).tolist()})
        for eps in (0.5, 1.0, 2.0, 4.5):
            nb += 1
            ck.count(("ceps", X.tobytes(), Y.tobytes(), eps), bucket="cross_eps")
            try:
                b = B.cross_eps(X.copy(), Y.copy(), eps)
            except Exception as e:  # noqa
                ck.fail("cross_eps/raises", "cross_eps raised %s: %s" % (type(e).__name__, e), {"X": X.tolist(), "Y": Y.tolist(), "eps": eps})
                continue
            A = dense(n1, n2, b.edges, b.weights)
            want = np.where(D2 < eps, np.maximum(D2.astype(float), 1e-15), 0.0)
            if not np.array_equal(A, want):
                ck.fail("cross_eps/wrong-edge-set", "cross_eps(X,Y,%r): adjacency differs from {squared distance < eps}" % eps,
                        {"X": X.tolist(), "Y": Y.tolist(), "eps": eps})
        # subgraph_left / subgraph_right on a random bipartite graph
        E = int(rng.integers(1, 8))
        ed = np.stack([rng.integers(0, n1, size=E), rng.integers(0, n2, size=E)], 1)
        w = rng.integers(1, 5, size=E).astype(float)
        bg = B.BipartiteGraph(n1, n2, ed, w)
        A = dense(n1, n2, ed, w)
        for side, n in (("left", n1), ("right", n2)):
            valid0 = vertex_selection(rng, n)
            nonbool = valid0.dtype != bool
            valid = valid0 > 0
            if nonbool:
                # a non-boolean selection (0/1 integers, labels, floats): same sub-matrix as the mask valid > 0
                try:
                    sgn = (bg.subgraph_left if side == "left" else bg.subgraph_right)(valid0)
                    if valid.any():
                        wantn = A[valid, :] if side == "left" else A[:, valid]
                        gotn = dense(sgn.V, sgn.W, sgn.edges, sgn.weights) if sgn is not None and sgn.E else (np.zeros((sgn.V, sgn.W)) if sgn is not None else None)
                        if gotn is None or gotn.shape != wantn.shape or not np.array_equal(gotn, wantn):
                            ck.fail("bipartite/subgraph_%s-nonboolean-mask" % side,
                                    "subgraph_%s(valid=%s) on V=%d W=%d edges=%s: result is not the sub-matrix of the entries valid > 0 (the mask is used as an integer index)" % (
                                        side, valid0.tolist(), n1, n2, ed.tolist()),
                                    {"V": n1, "W": n2, "edges": ed.tolist(), "weights": w.tolist(), "valid": valid0.tolist()})
                except Exception as e:  # noqa
                    ck.fail("bipartite/subgraph_%s-nonboolean-mask" % side, "subgraph_%s(valid=%s) raised %s: %s" % (side, valid0.tolist(), type(e).__name__, e),
                            {"V": n1, "W": n2, "edges": ed.tolist(), "valid": valid0.tolist()})
            nb += 1
            ck.count(("bsub", side, ed.tobytes(), valid.tobytes()), bucket="bipartite-subgraph")
            try:
                sg = (bg.subgraph_left if side == "left" else bg.subgraph_right)(valid)
            except ValueError as e:
                ck.fail("bipartite/subgraph_%s-mask-size" % side, "subgraph_%s rejected a correctly sized mask (V=%d, W=%d): %s" % (side, n1, n2, e),
                        {"V": n1, "W": n2, "edges": ed.tolist(), "valid": valid.tolist()})
                continue
            except Exception as e:  # noqa
                ck.fail("bipartite/subgraph_%s-raises" % side, "subgraph_%s raised %s: %s" % (side, type(e).__name__, e),
                        {"V": n1, "W": n2, "edges": ed.tolist(), "valid": valid.tolist()})
                continue
            if not valid.any():
                if sg is not None:
                    ck.fail("bipartite/subgraph-empty-mask", "empty mask must give None", {"V": n1, "W": n2})
                continue
            want = A[valid, :] if side == "left" else A[:, valid]
            got = dense(sg.V, sg.W, sg.edges, sg.weights) if sg.E else np.zeros((sg.V, sg.W))
            if got.shape != want.shape or not np.array_equal(got, want):
                ck.fail("bipartite/subgraph_%s-wrong" % side, "subgraph_%s(valid): adjacency is not the sub-matrix" % side,
                        {"V": n1, "W": n2, "edges": ed.tolist(), "weights": w.tolist(), "valid": valid.tolist()})
            # a wrongly sized mask must be refused
            if n1 != n2:
                try:
                    (bg.subgraph_left if side == "left" else bg.subgraph_right)(np.ones(n2 if side == "left" else n1, bool))
                    ck.fail("bipartite/subgraph_%s-mask-size" % side, "subgraph_%s accepted a mask of the other side's size" % side,
                            {"V": n1, "W": n2, "edges": ed.tolist()})
                except ValueError:
                    pass
                except Exception:  # noqa
                    pass
    ck.section("builders", knn_calls=nk, grid_calls=ng, bipartite_calls=nb)


def kruskal_multiset(V, edges):
    p = list(range(V))

    def find(x):
        while p[x] != x:
            p[x] = p[p[x]]
            x = p[x]
        return x
    out = []
    for u, v, w in sorted(edges, key=lambda e: e[2]):
        a, b = find(u), find(v)
        if a != b:
            p[a] = b
            out.append(w)
    return out


# ------------------------------------------------------------------ section: structural operations
def vertex_selection(rng, n):
    """A selection array in one of the forms callers use: boolean mask, 0/1 integers, positive integers > 1,
    +1/-1 indicator, label array with -1 = unlabelled, floats (0/1, fractions, negative values)."""
    keep = rng.random(n) < 0.6
    kind = int(rng.integers(7))
    if kind == 0:
        return keep
    if kind == 1:
        return keep.astype(int)
    if kind == 2:
        return keep.astype(int) * rng.integers(1, 5, size=n)
    if kind == 3:
        return np.where(keep, 1, -1)
    if kind == 4:
        return np.where(keep, rng.integers(1, 4, size=n), rng.integers(-1, 1, size=n))
    if kind == 5:
        return keep.astype(float)
    return np.where(keep, rng.choice([0.5, 1.0, 2.5], size=n), rng.choice([0.0, -0.5, -1.0], size=n))



def sec_structural(ck, G, T):
    WeightedGraph = G.WeightedGraph
    rng = ck.rng("structural")
    cases = []
    for V in (1, 2):
        pairs = [(u, v) for u in range(V) for v in range(V)]
        for ws in itertools.product((None, 0, 1, 2), repeat=len(pairs)):
            cases.append((V, [(u, v, w) for (u, v), w in zip(pairs, ws) if w is not None]))
    for _ in range(ck.n(250, 3000)):
        V = int(rng.integers(2, 7))
        E = int(rng.integers(1, 3 * V))
        lo = 0 if rng.random() < 0.3 else 1
        edges = [(int(rng.integers(V)), int(rng.integers(V)), int(rng.integers(lo, 5))) for _ in range(E)]
        if rng.random() < 0.5:      # no duplicate pairs
            seen, e2 = set(), []
            for u, v, w in edges:
                if (u, v) not in seen:
                    seen.add((u, v))
                    e2.append((u, v, w))
            edges = e2
        if rng.random() < 0.3:
            edges = sorted(edges)
        cases.append((V, edges))
    for V, edges in cases:
        if not edges:
            continue
        zero = any(w == 0 for _, _, w in edges)
        pairs = [(u, v) for u, v, _ in edges]
        uniq_sorted = pairs == sorted(set(pairs)) and len(set(pairs)) == len(pairs)
        ck.count(("struct", V, tuple(edges)), bucket="structural" + ("-zero-weight" if zero else ""))
        A = dense(V, V, pairs, [w for _, _, w in edges])
        rp = {"V": V, "edges": edges}

        def fresh():
            return mkgraph(WeightedGraph, V, edges)

        def adj(g):
            return dense(g.V, g.V, g.edges, g.weights) if g.E else np.zeros((g.V, g.V))
        qparts = []
        # to_coo_matrix
        try:
            if not np.array_equal(fresh().to_coo_matrix().toarray(), A):
                ck.fail("to_coo_matrix/wrong", "to_coo_matrix().toarray() is not the weighted adjacency matrix", rp)
        except Exception as e:  # noqa
            ck.fail("to_coo_matrix/raises", str(e), rp)
        # cut_redundancies
        try:
            c = fresh().cut_redundancies()
            cp = [tuple(x) for x in np.asarray(c.edges).reshape(-1, 2).tolist()] if c.E else []
            if not np.array_equal(adj(c), A) or len(set(cp)) != len(cp):
                ck.fail("cut_redundancies/wrong", "cut_redundancies: adjacency changed or an edge is still repeated", rp)
            if True:
                qparts.append("qel_eqb (cut_redundancies_model %s %s) %s" % (cnat(V), cQE(edges), cQE(sorted(elist(c)))))
        except Exception as e:  # noqa
            ck.fail("cut_redundancies/zero-weight-raises" if zero else "cut_redundancies/raises",
                    "cut_redundancies() raised %s: %s on edges %s (x.nonzero() drops stored zeros, x.data keeps them)" % (type(e).__name__, e, edges), rp)
        # symmeterize / anti_symmeterize
        try:
            g = fresh()
            g.symmeterize()
            if not np.array_equal(adj(g), (A + A.T) / 2):
                ck.fail("symmeterize/not-(A+At)/2", "symmeterize: adjacency %s, expected (A+A^T)/2 = %s" % (adj(g).tolist(), ((A + A.T) / 2).tolist()), rp)
            qparts.append("qel_eqb (symmeterize_model %s %s) %s" % (cnat(V), cQE(edges), cQE(sorted(elist(g)))))
            g = fresh()
            g.anti_symmeterize()
            qparts.append("qel_eqb (anti_symmeterize_model %s %s) %s" % (cnat(V), cQE(edges), cQE(sorted(elist(g)))))
            if not np.array_equal(adj(g), (A - A.T) / 2):
                ck.fail("anti_symmeterize/not-(A-At)/2", "anti_symmeterize: adjacency %s, expected %s" % (adj(g).tolist(), ((A - A.T) / 2).tolist()), rp)
        except Exception as e:  # noqa
            ck.fail("symmeterize/raises", "%s: %s" % (type(e).__name__, e), rp)
        # remove_trivial_edges
        try:
            g = fresh()
            ne = g.remove_trivial_edges()
            want = [(u, v, w) for u, v, w in edges if u != v]
            got = [(int(a), int(b), int(w)) for (a, b), w in zip(np.asarray(g.edges).reshape(-1, 2).tolist(), np.asarray(g.weights).tolist())]
            qparts.append("qel_eqb (remove_trivial_model %s) %s" % (cQE(edges), cQE(elist(g))))
            if got != want or int(ne) != len(want) or int(g.E) != len(want):
                ck.fail("remove_trivial_edges/wrong", "remove_trivial_edges: got %s expected %s" % (got, want), rp)
        except Exception as e:  # noqa
            ck.fail("remove_trivial_edges/raises", "%s: %s" % (type(e).__name__, e), rp)
        # remove_edges: "Removes all the edges for which valid==0"
        ev = vertex_selection(rng, len(edges))
        if (ev != 0).any():
            try:
                g = fresh()
                g.remove_edges(ev)
                want = [(u, v, float(w)) for (u, v, w), k_ in zip(edges, (ev != 0).tolist()) if k_]
                got = [(int(a), int(b), float(x)) for (a, b), x in zip(np.asarray(g.edges).reshape(-1, 2).tolist(), np.asarray(g.weights, float).ravel().tolist())]
                if got != want:
                    ck.fail("remove_edges/wrong-edges", "remove_edges(%s): kept %s, expected %s" % (ev.tolist(), got, want), dict(rp, valid=ev.tolist()))
                elif int(g.E) != len(want):
                    boolean = ev.dtype == bool or set(np.unique(ev).tolist()) <= {0, 1}
                    ck.fail("remove_edges/E-is-not-the-number-of-kept-edges" + ("" if boolean else "-nonboolean-valid"),
                            "remove_edges(valid=%s) on %d edges keeps %d edges but sets E = %d (E = valid.sum())" % (ev.tolist(), len(edges), len(want), int(g.E)),
                            dict(rp, valid=ev.tolist()))
            except Exception as e:  # noqa
                ck.fail("remove_edges/raises", "%s: %s" % (type(e).__name__, e), dict(rp, valid=ev.tolist()))
        # subgraph
        valid = vertex_selection(rng, V)
        try:
            sg = fresh().subgraph(valid)
            keep = valid > 0      # "Creates a subgraph with the vertices for which valid>0", p = sum(valid>0)
            if not keep.any():
                if sg is not None:
                    ck.fail("subgraph/empty-mask", "subgraph(all zero) must be None", rp)
            else:
                want = A[np.ix_(keep, keep)]
                if sg is not None:
                    qparts.append("qel_eqb (subgraph_model %s %s) %s" % (cbools(keep.tolist()), cQE(edges), cQE(elist(sg))))
                if sg is None or sg.V != keep.sum() or not np.array_equal(adj(sg), want):
                    ck.fail("subgraph/not-the-induced-submatrix", "subgraph(%s): adjacency is not A[valid][:, valid]" % valid.tolist(),
                            dict(rp, valid=valid.tolist()))
        except Exception as e:  # noqa
            ck.fail("subgraph/raises", "%s: %s" % (type(e).__name__, e), dict(rp, valid=valid.tolist()))
        # concatenate_graphs
        try:
            V2 = int(rng.integers(1, 4))
            e2 = [(int(rng.integers(V2)), int(rng.integers(V2)), int(rng.integers(1, 4))) for _ in range(int(rng.integers(1, 4)))]
            g2 = mkgraph(WeightedGraph, V2, e2)
            cg = G.concatenate_graphs(fresh(), g2)
            want = np.zeros((V + V2, V + V2))
            want[:V, :V] = A
            want[V:, V:] = adj(g2)
            qparts.append("qel_eqb (concatenate_model %s %s %s) %s" % (cnat(V), cQE(edges), cQE(e2), cQE(elist(cg))))
            if cg.V != V + V2 or not np.array_equal(adj(cg), want):
                ck.fail("concatenate_graphs/not-block-diagonal", "concatenate_graphs: adjacency is not blockdiag(A1, A2)", dict(rp, edges2=e2))
        except Exception as e:  # noqa
            ck.fail("concatenate_graphs/raises", "%s: %s" % (type(e).__name__, e), rp)
        if qparts and V <= 6:
            T.add("structural", " && ".join("(%s)" % q for q in qparts), dict(rp, valid=valid.tolist()), hdr=HDRQ)
        # normalize (positive weights only: a zero row sum is documented as "nothing is performed")
        if zero:
            continue
        for c in (0, 1, 2):
            g = fresh()
            try:
                g.normalize(c)
            except Exception as e:  # noqa
                ck.fail("normalize/c%d-raises" % c, "normalize(%d) raised %s: %s on V=%d edges=%s" % (c, type(e).__name__, e, V, edges), dict(rp, c=c))
                continue
            rs, cs = A.sum(1), A.sum(0)
            with np.errstate(divide="ignore", invalid="ignore"):
                if c == 0:
                    want = np.where(rs[:, None] > 0, A / rs[:, None], 0)
                elif c == 1:
                    want = np.where(cs[None, :] > 0, A / cs[None, :], 0)
                else:
                    want = np.where((rs[:, None] > 0) & (cs[None, :] > 0), A / np.sqrt(rs[:, None] * cs[None, :]), 0)
            want = np.nan_to_num(want)
            if c == 2:
                # documented intent of the code: diag(1/sqrt(column sums)) * A * diag(1/sqrt(row sums)), i.e. edge (a, b)
                # becomes w_ab / (sqrt(colsum[a]) * sqrt(rowsum[b])), edge by edge, edge list unchanged; a symmetric
                # graph stays symmetric.  A zero denominator (only possible on non-symmetric graphs) gives inf by the formula.
                ea = np.asarray(g.edges).reshape(-1, 2)
                w0 = np.array([w for _, _, w in edges], float)
                with np.errstate(divide="ignore", invalid="ignore"):
                    exp = w0 / (np.sqrt(cs[[u for u, _, _ in edges]]) * np.sqrt(rs[[v for _, v, _ in edges]]))
                gw = np.asarray(g.weights, float).ravel()
                fin = np.isfinite(exp)
                ok2 = ea.tolist() == [[u, v] for u, v, _ in edges] and gw.shape == exp.shape and \
                    np.array_equal(np.isfinite(gw), fin) and np.allclose(gw[fin], exp[fin], rtol=1e-12, atol=0)
                if ok2 and np.array_equal(A, A.T) and fin.all() and not np.allclose(adj(g), adj(g).T, rtol=1e-12, atol=0):
                    ok2 = False
                if not ok2:
                    ck.fail("normalize/c2-wrong-values", "normalize(2) on V=%d edges=%s: edges %s carry weights %s; expected w_ab / (sqrt(colsum[a]) * sqrt(rowsum[b])) = %s on the unchanged edge list" % (
                        V, edges, ea.tolist(), gw.tolist(), exp.tolist()), dict(rp, c=c))
                elif V <= 6 and fin.all():
                    sq = [(int(a), int(b), Fraction(*float(x).as_integer_ratio()) ** 2) for (a, b), x in zip(ea.tolist(), gw.tolist())]
                    T.add("normalize", "qel_close49 %s (normalize2_sq_model %s)" % (cQE(sq), cQE(edges)), dict(rp, c=c, impl=elist(g)), hdr=HDRQ)
                continue
            ok = np.size(g.weights) == np.shape(g.edges)[0] and np.allclose(adj(g), want, atol=1e-12)
            if c < 2 and V <= 6 and np.size(g.weights) == np.shape(g.edges)[0]:
                # exact model vs floats: each weight must be within half an ulp (2^-53 relative) of the rational quotient
                T.add("normalize", "qel_close %s (normalize%d_model %s)" % (cQE(elist(g)), c, cQE(edges)), dict(rp, c=c, impl=elist(g)), hdr=HDRQ)
            if not ok:
                wantw = sorted(want[want > 0].ravel().tolist())
                gotw = sorted(np.asarray(g.weights).ravel().tolist())
                perm = len(wantw) == len(gotw) and np.allclose(wantw, gotw, atol=1e-12)
                sig = "normalize/c%d-weights-misordered" % c if (perm or not uniq_sorted and len(set(pairs)) != len(pairs)) else "normalize/c%d-wrong-values" % c
                ck.fail(sig, "normalize(%d) on V=%d edges=%s: edges %s carry weights %s; expected adjacency %s (new weights are taken from a "
                        "rebuilt matrix in ITS storage order and assigned to the unchanged edge list)" % (
                            c, V, edges, np.asarray(g.edges).tolist(), np.asarray(g.weights).tolist(), want.tolist()), dict(rp, c=c))
    ck.section("structural", graphs=len(cases))


# ------------------------------------------------------------------ section: spanning trees under ties
def forest_verdict(V, rows, graph_und, weight_ok):
    """Full spanning-forest definition on a returned edge list `rows` = [(a, b, w)] (w exact integer key):
    rows come in reversed pairs; exactly V - c undirected edges; acyclic (union-find); spans every
    component of the reference graph `graph_und` = [(u, v, w)]; total weight minimal; weights valid."""
    if len(rows) % 2:
        return "odd number of directed edges"
    for i in range(0, len(rows), 2):
        a, b, w = rows[i]
        if rows[i + 1] != (b, a, w):
            return "row %d is not followed by its reversal (each tree edge must be stored in both orientations)" % i
    und = rows[0::2]
    ref_lab = components(V, graph_und)
    c = max(ref_lab) + 1
    if len(und) != V - c:
        return "%d undirected edges, a spanning forest of %d vertices in %d component(s) has %d" % (len(und), V, c, V - c)
    p = list(range(V))

    def find(x):
        while p[x] != x:
            p[x] = p[p[x]]
            x = p[x]
        return x
    for a, b, w in und:
        ra, rb = find(a), find(b)
        if ra == rb:
            return "edge (%d,%d) closes a cycle" % (a, b)
        p[ra] = rb
    if components(V, und) != ref_lab:
        return "does not span the components of the graph"
    bad = [(a, b, w) for a, b, w in und if not weight_ok(a, b, w)]
    if bad:
        return "edge %s is not an edge of the graph with that weight" % (bad[0],)
    want, _ = msf_weight(V, graph_und)
    tot = sum(w for _, _, w in und)
    if tot != want:
        return "total weight %s is not the minimum %s" % (tot, want)
    return None


def tie_clouds(ck, rng):
    """Point clouds with many equal distances: (name, base points, how many orders / 'all')."""
    P = itertools.product
    out = []

    def lat(*dims):
        return np.array(list(P(*[range(d) for d in dims])), float)
    bases = [("lattice-2x2", lat(2, 2)), ("lattice-2x3", lat(2, 3)), ("lattice-3x3", lat(3, 3)), ("lattice-3x4", lat(3, 4)),
             ("lattice-4x4", lat(4, 4)), ("lattice-2x2x2", lat(2, 2, 2)), ("lattice-2x2x3", lat(2, 2, 3)), ("lattice-3x3x3", lat(3, 3, 3))]
    for k in range(2, 9):
        bases.append(("line-%d" % k, lat(k)))
    for a, b in ((3, 3), (3, 4), (4, 4), (5, 5), (3, 6)):
        L = lat(a, b)
        bases.append(("ring-%dx%d" % (a, b), L[(L[:, 0] == 0) | (L[:, 0] == a - 1) | (L[:, 1] == 0) | (L[:, 1] == b - 1)]))
    L = lat(3, 3, 3)
    bases.append(("shell-3x3x3", L[(np.abs(L - 1).max(1) == 1)]))
    for d in (3, 4, 5):
        I = np.eye(d)
        bases.append(("simplex-%d" % d, I))                       # all distances equal
        bases.append(("cross-polytope-%d" % d, np.vstack((I, -I))))  # two distance values
        bases.append(("simplex+origin-%d" % d, np.vstack((I, np.zeros((1, d))))))
    bases.append(("two-squares", np.array([[0, 0], [1, 0], [0, 1], [1, 1], [3, 0], [4, 0], [3, 1], [4, 1]], float)))
    bases.append(("dup-lattice-2x2", np.vstack((lat(2, 2), lat(2, 2)[:2]))))
    bases.append(("dup-lattice-3x3", np.vstack((lat(3, 3), lat(3, 3)[[0, 4, 4]]))))
    bases.append(("dup-line", np.array([[0], [0], [1], [1], [2], [2]], float)))
    nord = ck.n(60, 600)
    for name, B in bases:
        n = len(B)
        if n <= 5 or (ck.thorough() and n <= 7):
            orders = [list(p) for p in itertools.permutations(range(n))]
        else:
            orders = [list(range(n))] + [[int(x) for x in rng.permutation(n)] for _ in range(nord)]
        for o in orders:
            out.append((name, B[o]))
    # the configuration reported for the cyclic-proposal failure (border of the 3x3 lattice in this order)
    out.append(("ring-3x3-reported-order", np.array([[0, 1], [2, 0], [0, 0], [1, 2], [2, 2], [2, 1], [0, 2], [1, 0]], float)))
    # random lattice clouds, 5-15 points, coordinates 0..4, 2-3 dimensions, duplicates allowed
    for _ in range(ck.n(1500, 20000)):
        n = int(rng.integers(5, 16))
        dim = int(rng.integers(2, 4))
        out.append(("random-lattice-cloud", rng.integers(0, int(rng.integers(2, 6)), size=(n, dim)).astype(float)))
    return out


def tie_graphs(ck, rng):
    """Symmetric graphs with tied weights for kruskal: grid graphs / complete graphs / cycles with
    one or two weight values, several components, shuffled edge order."""
    out = []
    for _ in range(ck.n(150, 1500)):
        kind = int(rng.integers(4))
        if kind == 0:
            a, b = int(rng.integers(2, 5)), int(rng.integers(2, 5))
            idx = lambda i, j: i * b + j
            und = [(idx(i, j), idx(i + 1, j)) for i in range(a - 1) for j in range(b)] + [(idx(i, j), idx(i, j + 1)) for i in range(a) for j in range(b - 1)]
            V = a * b
        elif kind == 1:
            V = int(rng.integers(3, 8))
            und = [(u, v) for u in range(V) for v in range(u + 1, V)]
        elif kind == 2:
            V = int(rng.integers(3, 10))
            und = [(u, (u + 1) % V) for u in range(V)]
        else:
            V1, V2 = int(rng.integers(2, 5)), int(rng.integers(2, 5))
            und = [(u, v) for u in range(V1) for v in range(u + 1, V1)] + [(V1 + u, V1 + v) for u in range(V2) for v in range(u + 1, V2)]
            V = V1 + V2 + int(rng.integers(0, 2))
        vals = [1] if rng.random() < 0.4 else ([1, 2] if rng.random() < 0.7 else [0, 1])
        edges = []
        for u, v in und:
            w = int(vals[rng.integers(len(vals))])
            edges += [(u, v, w), (v, u, w)]
        edges = [edges[i] for i in rng.permutation(len(edges))]
        out.append((V, edges, "sym-tied-weights"))
    return out


def sec_spanning(ck, G, T):
    rng = ck.rng("spanning")
    nm = 0
    seen_fail = 0
    for name, X in tie_clouds(ck, rng):
        n = len(X)
        D2 = sqd(X)
        ck.count(("mst", X.tobytes(), X.shape), nontrivial=n > 1, bucket="mst:" + name.split("-")[0])
        nm += 1
        try:
            m = with_alarm(2, lambda: G.mst(X.copy()))
        except Timeout:
            ck.fail("mst/identical-points-never-terminates" if not D2.any() else "mst/never-terminates",
                    "mst(X) did not return within 2 s for X=%s" % X.tolist(), {"X": X.tolist()})
            continue
        except Exception as e:  # noqa
            ck.fail("mst/raises", "mst raised %s: %s" % (type(e).__name__, e), {"X": X.tolist()})
            continue
        me = np.asarray(m.edges).reshape(-1, 2).tolist() if m.E else []
        rows = [(int(a), int(b), int(D2[a, b])) for a, b in me]
        full = [(a, b, int(D2[a, b])) for a in range(n) for b in range(a + 1, n)]
        # minimum total EUCLIDEAN weight: the multiset of edge lengths of all minimum spanning trees is the
        # same, so compare multisets of squared lengths exactly (sum of sqrt compared only through that)
        bad = forest_verdict(n, rows, full, lambda a, b, w: w == int(D2[a, b]))
        if bad is None and sorted(w for _, _, w in rows[0::2]) != sorted(kruskal_multiset(n, full)):
            bad = "edge lengths are not those of a minimum spanning tree"
        if bad is None and not np.array_equal(np.asarray(m.weights, float), np.sqrt(np.array([D2[a, b] for a, b in me], float))):
            bad = "weights are not the euclidean lengths of the edges"
        if bad:
            tied = len(set(D2[np.triu_indices(n, 1)].tolist())) < n * (n - 1) // 2
            ck.fail("mst/not-a-minimum-spanning-tree" + ("-tied-distances" if tied else ""),
                    "mst(X), X=%s (%s): %s; returned edges %s" % (X.tolist(), name, bad, me), {"X": X.tolist(), "impl": me, "why": bad, "cloud": name})
            seen_fail += 1
        # proved-sound checkers in Coq: acyclic (forest_check) and spanning (cc_check with one label)
        if n <= 16 and (nm % ck.n(6, 2) == 0 or bad):
            und = [(a, b, w) for a, b, w in rows[0::2]]
            ok_forest = bad is None or not any(k in bad for k in ("cycle", "undirected edges", "span", "odd", "reversal"))
            T.newgraph(None)
            T.add("mst_forest_check", "Bool.eqb (forest_check %s %s && cc_check %s %s %s) %s" % (
                cnat(n), cE(und), cnat(n), cE(und), zl([0] * n), "true" if ok_forest else "false"),
                {"X": X.tolist(), "impl": me, "bruteforce": bad})
    # kruskal on tie-heavy symmetric graphs
    WeightedGraph = G.WeightedGraph
    nk = 0
    for V, edges, bucket in tie_graphs(ck, rng):
        ck.count(("kr", V, tuple(edges)), bucket=bucket)
        nk += 1
        g = mkgraph(WeightedGraph, V, edges)
        ref_lab = components(V, edges)
        T.newgraph(cE(edges))
        sec_kruskal_one(ck, G, T, V, edges, g, ref_lab, max(ref_lab) + 1)
    ck.section("spanning", mst_calls=nm, kruskal_tied_graphs=nk)


# ------------------------------------------------------------------ section: coordinate dtypes
DTYPES = [("float64", np.float64), ("float32", np.float32), ("int", np.int64), ("int", np.int32)]


def same_weights(a, b, kind):
    a, b = np.asarray(a, float), np.asarray(b, float)
    if a.shape != b.shape:
        return False
    if kind == "float32":          # single-precision input: single-precision rounding of sqrt is legitimate
        return bool(np.allclose(a, b, rtol=2e-6, atol=1e-12))
    return bool(np.array_equal(a, b))


def sec_dtypes(ck, G, B, T):
    """The same point cloud stored as float64 / float32 / int64 / int32 must give the same graphs
    (integer lattice coordinates are the natural source of ties and duplicates)."""
    from nipy.algorithms.utils.fast_distance import euclidean_distance
    rng = ck.rng("dtypes")
    clouds = []
    for n in (2, 3):
        for pts in itertools.product(range(3), repeat=n):
            clouds.append(np.array(pts).reshape(n, 1))
    for pts in itertools.product(itertools.product(range(2), repeat=2), repeat=3):
        clouds.append(np.array(pts))
    for _ in range(ck.n(80, 800)):
        n = int(rng.integers(2, 10))
        dim = int(rng.integers(1, 4))
        clouds.append(rng.integers(-3, 6, size=(n, dim)))
    L = np.array(list(itertools.product(range(3), range(3))))
    clouds += [L, L[::-1], L[rng.permutation(9)], np.array(list(itertools.product(range(2), range(2), range(2))))]
    nc = 0
    for Xi in clouds:
        n = len(Xi)
        D2 = sqd(Xi)
        Dm = np.sqrt(D2.astype(float))
        Yi = Xi[rng.permutation(n)[:max(1, n // 2)]] + rng.integers(0, 2)
        D2xy = sqd(Xi, Yi)
        ref = {}
        for kind, dt in DTYPES:
            X, Y = Xi.astype(dt), Yi.astype(dt)
            nc += 1
            ck.count(("dtype", kind, str(dt), Xi.tobytes(), Xi.shape), nontrivial=n > 1, bucket="dtype:" + np.dtype(dt).name)
            rp = {"X": Xi.tolist(), "dtype": np.dtype(dt).name}
            # euclidean_distance itself
            try:
                ED = euclidean_distance(X.copy())
                EDxy = euclidean_distance(X.copy(), Y.copy())
                if not same_weights(ED, Dm, kind) or not same_weights(EDxy, np.sqrt(D2xy.astype(float)), kind):
                    ck.fail("euclidean_distance/wrong-for-%s-input" % kind,
                            "euclidean_distance(X) with X of dtype %s, X=%s: got %s, distances are %s" % (
                                np.dtype(dt).name, Xi.tolist(), np.asarray(ED).tolist(), Dm.tolist()), rp)
            except Exception as e:  # noqa
                ck.fail("euclidean_distance/raises-for-%s-input" % kind, "%s: %s" % (type(e).__name__, e), rp)
            # builders: identical graphs whatever the storage type of the coordinates
            calls = [("knn-%d" % k, (lambda k=k: G.knn(X.copy(), k))) for k in sorted({1, 2, max(1, n - 2)})]
            for eps in (1.2, 1.5, 2.3):
                calls.append(("eps_nn-%s" % eps, (lambda eps=eps: G.eps_nn(X.copy(), eps))))
            calls.append(("cross_knn-1", lambda: B.cross_knn(X.copy(), Y.copy(), 1)))
            calls.append(("cross_eps-2.5", lambda: B.cross_eps(X.copy(), Y.copy(), 2.5)))
            for name, fn in calls:
                fam = name.split("-")[0]
                try:
                    g = fn()
                except Exception as e:  # noqa
                    ck.fail("%s/raises-for-%s-coordinates" % (fam, kind), "%s with %s coordinates raised %s: %s" % (name, np.dtype(dt).name, type(e).__name__, e),
                            dict(rp, call=name))
                    continue
                W = getattr(g, "W", g.V)
                A = dense(g.V, W, g.edges, g.weights) if g.E else np.zeros((g.V, W))
                if kind == "float64":
                    ref[name] = A
                    # float64 result against the definition (distances from exact integer arithmetic)
                    if fam == "eps_nn":
                        eps = float(name.split("-")[1])
                        want = np.where((Dm < eps) & ~np.eye(n, dtype=bool), np.maximum(Dm, 1e-16), 0.0)
                        if not np.array_equal(A, want):
                            ck.fail("eps_nn/wrong-edge-set", "eps_nn(X, %r), X=%s: adjacency differs from {i!=j, d(i,j) < eps}" % (eps, Xi.tolist()), dict(rp, call=name))
                    continue
                A0 = ref.get(name)
                if A0 is None:
                    continue
                if A.shape != A0.shape or not np.array_equal(A > 0, A0 > 0) or not same_weights(A, A0, kind):
                    ck.fail("%s/result-depends-on-coordinate-dtype-%s" % (fam, kind),
                            "%s on X=%s stored as %s differs from the same cloud stored as float64: adjacency %s vs %s" % (
                                name, Xi.tolist(), np.dtype(dt).name, A.tolist(), A0.tolist()), dict(rp, call=name))
            # mst and set_euclidian
            if n >= 2 and D2.any():
                try:
                    m = with_alarm(2, lambda: G.mst(X.copy()))
                    me = np.asarray(m.edges).reshape(-1, 2).tolist() if m.E else []
                    rows = [(int(a), int(b), int(D2[a, b])) for a, b in me]
                    full = [(a, b, int(D2[a, b])) for a in range(n) for b in range(a + 1, n)]
                    bad = forest_verdict(n, rows, full, lambda a, b, w: w == int(D2[a, b]))
                    if bad is None and not same_weights(m.weights, np.sqrt(np.array([D2[a, b] for a, b in me], float)), kind):
                        bad = "weights are not the euclidean lengths of the edges"
                    if bad:
                        ck.fail("mst/wrong-for-%s-coordinates" % kind, "mst(X), X=%s as %s: %s" % (Xi.tolist(), np.dtype(dt).name, bad), dict(rp, impl=me))
                    g = G.WeightedGraph(n, np.array(me, dtype=np.intp).reshape(-1, 2), np.ones(len(me)))
                    g.set_euclidian(X.copy())
                    if not same_weights(g.weights, np.sqrt(np.array([D2[a, b] for a, b in me], float)), kind):
                        ck.fail("set_euclidian/wrong-for-%s-coordinates" % kind, "set_euclidian(X) with X=%s as %s gives %s" % (
                            Xi.tolist(), np.dtype(dt).name, np.asarray(g.weights).tolist()), dict(rp, edges=me))
                except Timeout:
                    ck.fail("mst/never-terminates", "mst(X) did not return for X=%s as %s" % (Xi.tolist(), np.dtype(dt).name), rp)
                except Exception as e:  # noqa
                    ck.fail("mst/raises-for-%s-coordinates" % kind, "%s: %s" % (type(e).__name__, e), rp)
    ck.section("dtypes", clouds=len(clouds), calls=nc)


# ------------------------------------------------------------------ section: operation sequences on one graph object
def graph_state(g):
    if not g.E:
        return []
    return [(int(a), int(b), float(w)) for (a, b), w in zip(np.asarray(g.edges).reshape(-1, 2).tolist(), np.asarray(g.weights, float).ravel().tolist())]


def same_result(a, b):
    if isinstance(a, tuple):
        return isinstance(b, tuple) and len(a) == len(b) and all(same_result(x, y) for x, y in zip(a, b))
    a, b = np.asarray(a, float), np.asarray(b, float)
    return a.shape == b.shape and bool(np.array_equal(a, b, equal_nan=True))


def sec_sequences(ck, G, T):
    """Random programs on ONE WeightedGraph object: query / re-weight / mutate / query again.  After every
    step each query is also evaluated on a graph freshly built from the object's current (V, edges, weights)
    and must agree exactly; with integer weights it is also compared with the references and the Coq model."""
    WeightedGraph = G.WeightedGraph
    rng = ck.rng("sequences")
    nseq, nsteps = 0, 0
    for it in range(ck.n(260, 2600)):
        V = int(rng.integers(2, 8))
        sym = rng.random() < 0.6
        if sym:
            und = [(u, v, int(rng.integers(0, 5))) for u in range(V) for v in range(u + 1, V) if rng.random() < 0.5]
            edges = [e for (u, v, w) in und for e in ((u, v, w), (v, u, w))]
        else:
            edges = [(u, v, int(rng.integers(0, 5))) for u in range(V) for v in range(V) if rng.random() < 0.4]
        if not edges:
            edges = [(0, V - 1, 1), (V - 1, 0, 1)]
        edges = [edges[i] for i in rng.permutation(len(edges))]
        g = mkgraph(WeightedGraph, V, edges)
        hist = [{"op": "WeightedGraph", "V": V, "edges": edges}]
        nseq += 1
        last_mut = "construction"
        ck.count(("seq", V, tuple(edges), it), bucket="sequence")

        def queries():
            s0 = int(rng.integers(V))
            seeds = [int(x) for x in rng.choice(V, size=int(rng.integers(1, min(V, 3) + 1)), replace=False)]
            qs = [("dijkstra", {"seed": s0}, lambda h: h.dijkstra(s0)),
                  ("dijkstra", {"seed": seeds}, lambda h: h.dijkstra(np.array(seeds))),
                  ("voronoi_labelling", {"seed": seeds}, lambda h: h.voronoi_labelling(np.array(seeds))),
                  ("compact_neighb", {}, lambda h: tuple(h.compact_neighb())),
                  ("floyd", {}, lambda h: h.floyd()),
                  ("cc", {}, lambda h: h.cc()),
                  ("to_coo_matrix", {}, lambda h: h.to_coo_matrix().toarray())]
            if sym:
                qs.append(("kruskal", {}, lambda h: (lambda K: (np.asarray(K.edges).reshape(-1, 2), np.asarray(K.weights)))(h.kruskal())))
            k = int(rng.integers(1, 4))
            return [qs[i] for i in rng.choice(len(qs), size=k, replace=False)]

        def mutate():
            kind = ["set_euclidian", "set_euclidian-int", "set_gaussian", "normalize", "weights-assigned", "set_weights",
                    "symmeterize", "remove_trivial_edges", "remove_edges", "edges-permuted"][int(rng.integers(10))]
            if kind.startswith("set_euclidian"):
                X = rng.integers(0, 7, size=(V, 1))
                X = X.astype(np.int64) if kind.endswith("int") else X.astype(float)
                g.set_euclidian(X)
                return kind, {"X": X.ravel().tolist()}
            if kind == "set_gaussian":
                X = rng.integers(0, 4, size=(V, 2)).astype(float)
                g.set_gaussian(X, 2.0)
                return kind, {"X": X.tolist(), "sigma": 2.0}
            if kind == "normalize":
                if g.E == 0 or (np.asarray(g.weights) <= 0).any():
                    g.weights = np.asarray(g.weights, float) + 1.0
                    return "weights-assigned", {"weights": "weights + 1"}
                c = int(rng.integers(0, 2))
                g.normalize(c)
                return kind, {"c": c}
            if kind == "weights-assigned":
                w = rng.integers(0, 6, size=g.E).astype(float)
                g.weights = w
                return kind, {"weights": w.tolist()}
            if kind == "set_weights":
                w = rng.integers(0, 6, size=g.E).astype(float)
                g.set_weights(w)
                return kind, {"weights": w.tolist()}
            if kind == "symmeterize":
                g.symmeterize()
                return kind, {}
            if kind == "remove_trivial_edges":
                g.remove_trivial_edges()
                return kind, {}
            if kind == "remove_edges":
                if g.E <= 1:
                    return "none", {}
                valid = (rng.random(g.E) < 0.8).astype(int)
                valid[int(rng.integers(g.E))] = 1
                g.remove_edges(valid)
                return kind, {"valid": valid.tolist()}
            if g.E:
                o = rng.permutation(g.E)
                g.edges[:] = g.edges[o]          # in place: same array object, new content
                g.weights = np.asarray(g.weights)[o]
                return kind, {"order": o.tolist()}
            return "none", {}

        for step in range(int(rng.integers(3, 8))):
            nsteps += 1
            if step % 2 == 1:
                try:
                    last_mut, arg = mutate()
                    hist.append(dict(op=last_mut, **arg))
                except Exception as e:  # noqa
                    ck.fail("sequence/mutator-raises", "%s: %s after %s" % (type(e).__name__, e, hist), {"history": hist})
                    break
                if g.E == 0:
                    break
                continue
            state = graph_state(g)
            intw = all(w >= 0 and w == int(w) for _, _, w in state)
            for qname, qarg, q in queries():
                hist.append(dict(op=qname, **qarg))
                fresh = WeightedGraph(g.V, np.array([(a, b) for a, b, _ in state], dtype=np.intp).reshape(-1, 2), np.array([w for _, _, w in state]))
                try:
                    r1 = q(g)
                    r2 = q(fresh)
                except Exception as e:  # noqa
                    ck.fail("sequence/%s-raises-after-%s" % (qname, last_mut), "%s: %s; history %s" % (type(e).__name__, e, hist), {"history": hist})
                    continue
                if not same_result(r1, r2):
                    ck.fail("sequence/%s-after-%s-differs-from-fresh-graph" % (qname, last_mut),
                            "%s(%s) on a graph object after the steps %s returns %s; a graph freshly built from its current edges/weights %s returns %s" % (
                                qname, qarg, [h["op"] for h in hist], np.asarray(r1[-1] if isinstance(r1, tuple) else r1).tolist(), state,
                                np.asarray(r2[-1] if isinstance(r2, tuple) else r2).tolist()),
                            {"history": hist, "state": state})
                if intw and qname == "dijkstra":
                    ie = [(a, b, int(w)) for a, b, w in state]
                    sd = qarg["seed"] if isinstance(qarg["seed"], list) else [qarg["seed"]]
                    want = fw(g.V, ie)[sd, :].min(0)
                    if not np.array_equal(np.asarray(r1, float), want):
                        ck.fail("sequence/dijkstra-after-%s-wrong-distance" % last_mut,
                                "dijkstra(%s) after %s: %s, true distances %s (edges %s)" % (sd, [h["op"] for h in hist], dvec(r1), dvec(want), ie),
                                {"history": hist, "state": state})
                    T.newgraph(cE(ie))
                    T.add("sequence_dijkstra", "zl_eqb (und (dijkstra_model %s %s %s %s)) %s" % (
                        cnat(g.V), cE(ie), cnats(akey(g.V, ie)), cnats(sd), zl(dvec(r1))),
                        {"history": hist, "state": state, "impl": dvec(r1)})
    ck.section("sequences", programs=nseq, steps=nsteps)


# ------------------------------------------------------------------ section: weight dtypes and aliasing (purity)
WDTYPES = [("float64", np.float64), ("float32", np.float32), ("int", np.int64), ("int", np.int32), ("bool", np.bool_)]
# sparse-matrix arithmetic on boolean data is a different algebra (or / xor): boolean weights are only
# taken through the operations that do not add weights
NO_BOOL = {"symmeterize", "anti_symmeterize", "cut_redundancies"}


def graph_ops(G, V, rng):
    """(name, callable(g) -> (returned value, graph holding the result or None))"""
    seeds = [int(x) for x in rng.choice(V, size=int(rng.integers(1, min(V, 3) + 1)), replace=False)]
    valid = (rng.random(V) < 0.7)
    valid[int(rng.integers(V))] = True
    X1 = rng.integers(0, 6, size=(V, 1)).astype(float)
    X2 = rng.integers(0, 4, size=(V, 2)).astype(float)

    def m(f):           # mutator: result is the object itself
        def run(g):
            r = f(g)
            return (r if not hasattr(r, "edges") else None), g
        return run

    def q(f):           # query: result is a value
        return lambda g: (f(g), None)

    def n(f):           # returns a new graph
        return lambda g: (None, f(g))
    ops = [("dijkstra", q(lambda g: g.dijkstra(np.array(seeds)))), ("floyd", q(lambda g: g.floyd())),
           ("voronoi_labelling", q(lambda g: g.voronoi_labelling(np.array(seeds)))), ("cc", q(lambda g: g.cc())),
           ("compact_neighb", q(lambda g: tuple(g.compact_neighb()))), ("to_coo_matrix", q(lambda g: g.to_coo_matrix().toarray())),
           ("is_connected", q(lambda g: int(g.is_connected()))), ("main_cc", q(lambda g: g.main_cc())),
           ("normalize-0", m(lambda g: g.normalize(0))), ("normalize-1", m(lambda g: g.normalize(1))), ("normalize-2", m(lambda g: g.normalize(2))),
           ("symmeterize", m(lambda g: g.symmeterize())), ("anti_symmeterize", m(lambda g: g.anti_symmeterize())),
           ("remove_trivial_edges", m(lambda g: g.remove_trivial_edges())),
           ("set_euclidian", m(lambda g: g.set_euclidian(X1.copy()))), ("set_gaussian", m(lambda g: g.set_gaussian(X2.copy(), 2.0))),
           ("remove_edges", m(lambda g: g.remove_edges((np.arange(g.E) % 3 != 1).astype(int)))),
           ("cut_redundancies", n(lambda g: g.cut_redundancies())), ("subgraph", n(lambda g: g.subgraph(valid.astype(int)))),
           ("copy", n(lambda g: g.copy())), ("kruskal", n(lambda g: g.kruskal()))]
    return ops


def sec_purity(ck, G, T):
    """(1) Every operation on graphs whose weights are stored as float64 / float32 / int64 / int32 / bool
    must give the result of the float64 graph.  (2) No operation may modify an array it was built from:
    the caller's edge and weight arrays, a sibling graph built from the same arrays, the scipy matrix handed
    to wgraph_from_coo_matrix, the dense array handed to wgraph_from_adjacency."""
    from scipy.sparse import coo_matrix
    WeightedGraph = G.WeightedGraph
    rng = ck.rng("purity")
    ncase, nops = 0, 0
    for it in range(ck.n(60, 500)):
        V = int(rng.integers(2, 7))
        sym = rng.random() < 0.6
        if sym:
            und = [(u, v, int(rng.integers(1, 5))) for u in range(V) for v in range(u + 1, V) if rng.random() < 0.6]
            edges = [e for (u, v, w) in und for e in ((u, v, w), (v, u, w))]
        else:
            edges = [(u, v, int(rng.integers(1, 5))) for u in range(V) for v in range(V) if rng.random() < 0.45]
        if len(edges) < 2:
            edges = [(0, V - 1, 1), (V - 1, 0, 1)]
        edges = [edges[i] for i in rng.permutation(len(edges))]
        ops = graph_ops(G, V, rng)
        ncase += 1
        ck.count(("purity", V, tuple(edges)), bucket="weight-dtypes+aliasing")
        refs = {}
        for kind, dt in WDTYPES:
            wvals = [w for _, _, w in edges] if kind != "bool" else [1] * len(edges)
            for name, op in ops:
                fam = name.split("-")[0]
                if kind == "bool" and fam in NO_BOOL:
                    continue
                if fam == "kruskal" and not sym:
                    continue
                nops += 1
                # the caller's arrays, a sibling graph and a scipy matrix all share the weight buffer
                e0 = np.array([(u, v) for u, v, _ in edges], dtype=np.intp)
                w0 = np.array(wvals, dtype=dt)
                via = ["constructor", "set_weights", "wgraph_from_coo_matrix"][int(rng.integers(3))]
                sp = None
                if via == "wgraph_from_coo_matrix" and len(set((u, v) for u, v, _ in edges)) == len(edges):
                    sp = coo_matrix((w0, (e0[:, 0].copy(), e0[:, 1].copy())), shape=(V, V))
                    w0 = sp.data
                    g = G.wgraph_from_coo_matrix(sp)
                    e0 = np.asarray(g.edges)
                elif via == "set_weights":
                    g = WeightedGraph(V, e0, np.ones(len(edges)))
                    g.set_weights(w0)
                else:
                    via = "constructor"
                    g = WeightedGraph(V, e0, w0)
                sib = WeightedGraph(V, e0, w0)
                snap = (e0.copy(), w0.copy())
                rp = {"V": V, "edges": edges, "weight_dtype": np.dtype(dt).name, "built_via": via, "op": name}
                try:
                    val, res = op(g)
                except Exception as e:  # noqa
                    ck.fail("%s/raises-for-%s-weights" % (name, kind),
                            "%s on a graph whose weights have dtype %s raised %s: %s (V=%d, edges=%s)" % (
                                name, np.dtype(dt).name, type(e).__name__, e, V, edges), rp)
                    continue
                # purity
                if not (np.array_equal(e0, snap[0]) and np.array_equal(w0, snap[1]) and w0.dtype == snap[1].dtype):
                    ck.fail("purity/%s-modifies-the-arrays-the-graph-was-built-from" % fam,
                            "%s changed an array it was built from (via %s): weights %s -> %s, edges changed: %s" % (
                                name, via, snap[1].tolist(), np.asarray(w0).tolist(), not np.array_equal(e0, snap[0])), rp)
                elif not (np.array_equal(np.asarray(sib.edges), snap[0]) and np.array_equal(np.asarray(sib.weights), snap[1])):
                    ck.fail("purity/%s-modifies-a-sibling-graph" % fam, "%s on one graph changed another graph built from the same arrays" % name, rp)
                elif sp is not None and not np.array_equal(sp.toarray(), coo_matrix((snap[1], (snap[0][:, 0], snap[0][:, 1])), shape=(V, V)).toarray()):
                    ck.fail("purity/%s-modifies-the-scipy-matrix" % fam, "%s changed the matrix handed to wgraph_from_coo_matrix" % name, rp)
                if res is not None and res is not g and res.E and g.E:
                    # a returned graph must not share its weights with self: rescale it and look at self
                    before = np.asarray(g.weights).copy()
                    try:
                        res.weights *= 0
                    except Exception:  # noqa
                        pass
                    if not np.array_equal(np.asarray(g.weights), before):
                        ck.fail("purity/%s-result-shares-weights-with-self" % fam, "the graph returned by %s shares its weight buffer with the original" % name, rp)
                    val, res = op(WeightedGraph(V, snap[0].copy(), snap[1].copy()))
                # dtype independence
                state = (val, graph_state(res) if res is not None else None, (res.V if res is not None else None))
                if kind == "float64":
                    refs[name] = state
                    continue
                if kind == "bool" or name not in refs:
                    continue    # boolean graphs have different weights (all 1): only raising / purity is checked
                r0 = refs[name]
                okv = True
                if state[0] is not None or r0[0] is not None:
                    a, b = state[0], r0[0]
                    if isinstance(a, tuple):
                        okv = isinstance(b, tuple) and all(same_weights(x, y, kind) for x, y in zip(a, b))
                    else:
                        okv = same_weights(a, b, kind)
                oks = True
                if state[1] is not None or r0[1] is not None:
                    s1, s0 = state[1] or [], r0[1] or []
                    oks = [(a, b) for a, b, _ in s1] == [(a, b) for a, b, _ in s0] and same_weights([w for _, _, w in s1], [w for _, _, w in s0], kind) \
                        and state[2] == r0[2]
                if not (okv and oks):
                    ck.fail("%s/result-depends-on-weight-dtype-%s" % (name, kind),
                            "%s on V=%d edges=%s with weights stored as %s gives %s / %s; with float64 weights %s / %s" % (
                                name, V, edges, np.dtype(dt).name, np.asarray(state[0]).tolist() if state[0] is not None and not isinstance(state[0], tuple) else state[0],
                                state[1], np.asarray(r0[0]).tolist() if r0[0] is not None and not isinstance(r0[0], tuple) else r0[0], r0[1]), rp)
        # dense input of wgraph_from_adjacency and the point clouds of the builders stay untouched
        A = dense(V, V, [(u, v) for u, v, _ in edges], [w for _, _, w in edges])
        A0 = A.copy()
        ga = G.wgraph_from_adjacency(A)
        ga.normalize(int(rng.integers(0, 2))) if ga.E else None
        if not np.array_equal(A, A0):
            ck.fail("purity/wgraph_from_adjacency-input-modified", "the array handed to wgraph_from_adjacency changed", {"V": V, "edges": edges})
        X = rng.integers(0, 4, size=(V + 1, 2)).astype(float)
        X0 = X.copy()
        for nm, fn in (("knn", lambda: G.knn(X, 2)), ("eps_nn", lambda: G.eps_nn(X, 1.5)), ("mst", lambda: with_alarm(2, lambda: G.mst(X)))):
            try:
                fn()
            except Exception:  # noqa   (reported by the builder sections)
                pass
            if not np.array_equal(X, X0):
                ck.fail("purity/%s-modifies-its-point-cloud" % nm, "%s changed the coordinate array it was given" % nm, {"X": X0.tolist()})
                X = X0.copy()
    ck.section("purity", graphs=ncase, operations=nops)

# ------------------------------------------------------------------ term collection
class Terms:
    def __init__(self):
        self.items = []
        self.qitems = []      # terms over the rational-weight models (header HDRQ)
        self.gid = 0
        self.glit = None
        self.groups = []      # group id of each entry of self.items

    def newgraph(self, lit):
        """terms added until the next call are about one graph whose edge literal is `lit`"""
        self.gid += 1
        self.glit = lit

    def add(self, kind, term, replay, show=None, hdr=None):
        if hdr is not None:
            self.qitems.append((kind, term, replay, show))
        else:
            self.items.append((kind, term, replay, show))
            self.groups.append((self.gid, self.glit))

    @staticmethod
    def heavy(item):
        return len(item[1]) > 3000

    def eval_items(self, ck):
        """Light terms of one graph are merged into one conjunction that binds the edge list once
        (`let E_ := ... in t1 && t2 ...`); members of a failing conjunction are re-evaluated one by one."""
        n = len(self.items)
        res = [None] * n
        merged, heavy = {}, []
        for i, it in enumerate(self.items):
            gid, lit = self.groups[i]
            if self.heavy(it):
                heavy.append(i)
            elif lit is None:
                merged[("single", i)] = [i]
            else:
                merged.setdefault(gid, []).append(i)
        glist = list(merged.values())
        terms = []
        for idxs in glist:
            lit = self.groups[idxs[0]][1]
            if lit is None:
                terms.append(self.items[idxs[0]][1])
                continue
            terms.append("let E_ := %s in %s" % (lit, " && ".join("(%s)" % self.items[i][1].replace(lit, "E_") for i in idxs)))
        import time as _t
        _t0 = _t.time()
        r1 = ck.coq_bools(HDR, terms, shard=400, name="light")
        _t1 = _t.time()
        redo = []
        for ok, idxs in zip(r1, glist):
            if ok:
                for i in idxs:
                    res[i] = True
            else:
                redo += idxs
        singles = heavy + redo
        light_redo = [i for i in redo]
        r2 = ck.coq_bools(HDR, [self.items[i][1] for i in light_redo], shard=200, name="redo")
        for i, ok in zip(light_redo, r2):
            res[i] = ok
        r3 = ck.coq_bools(HDR, [self.items[i][1] for i in heavy], shard=6, name="heavy")
        for i, ok in zip(heavy, r3):
            res[i] = ok
        ck.section("timing", coq_light_s=round(_t1 - _t0, 1), coq_heavy_s=round(_t.time() - _t1, 1), light_groups=len(terms), heavy_terms=len(heavy))
        return res

    def run(self, ck):
        if ck.build is None or not ck.build.ok:
            ck.note("Coq build broken: model-vs-implementation comparison skipped (%d terms)" % len(self.items))
            return
        # cheap terms first within each shard is irrelevant; keep generation order (small to large)
        # large graphs are evaluated in small shards of their own so that they spread over the worker processes
        res = self.eval_items(ck)
        res += ck.coq_bools(HDRQ, [t for _, t, _, _ in self.qitems], shard=300, name="q")
        self.items = self.items + self.qitems
        ck.cov["traces_validated_against_impl"] += len(res)
        by = {}
        for ok, (kind, term, replay, show) in zip(res, self.items):
            by.setdefault(kind, [0, 0])
            by[kind][0] += 1
            if ok:
                continue
            by[kind][1] += 1
            if by[kind][1] > 1:
                ck.fail("%s/model-vs-impl" % kind, "", {})
                continue
            mv = None
            if show:
                try:
                    mv = ck.coq_show(HDR, show)
                except Exception as e:  # noqa
                    mv = "coq_show failed: %s" % e
            rp = dict(replay)
            rp["model"] = mv
            rp["coq_term"] = term[:4000]
            if kind.endswith("_check"):
                what = "%s: the proved-sound certificate checker and the brute-force reference disagree on the implementation's output" % kind
            else:
                what = "%s: Coq model (code as written) and implementation disagree: impl %s, model %s" % (kind, str(replay.get("impl"))[:300], str(mv)[:300])
            ck.fail("%s/model-vs-impl" % kind, what, rp)
        ck.section("correspondence", **{k: v[0] for k, v in by.items()})


def run(ck):
    ck.cov["rule"] = ("sp: every weighted digraph on <=3 vertices (thorough: + every edge pattern on 4) with weights {0,1,2}, "
                      "self-loops, one parallel edge, shuffled edge order, all single seeds + a seed set; random digraphs up to "
                      "100 (200) vertices with several components, zero weights and ties.  sym: every symmetric graph on <=4 "
                      "(thorough: patterns on 5) vertices: cc, kruskal, voronoi over all seed sets (V<=3; V<=4 thorough).  "
                      "floyd: each graph with seed=None and explicit seed arrays (single, sorted, unsorted, reversed view, repeated, strided view, empty; list/intp/int32/int64).  "
                      "distinct by (section, V, edge list); non-trivial when the graph has an edge")
    import time
    ta = time.time()
    ck.coq_build()
    tb = time.time()
    ck.overlay(["nipy.algorithms.graph._graph"])     # the only compiled module the graph package needs
    import nipy.algorithms.graph.graph as G
    T = Terms()
    t0 = time.time()
    ck.section("timing", coq_build_s=round(tb - ta, 1), overlay_import_s=round(t0 - tb, 1))
    sec_sp(ck, G, T)
    sec_floyd(ck, G, T)
    t1 = time.time()
    sec_sym(ck, G, T)
    t2 = time.time()
    import nipy.algorithms.graph.bipartite_graph as B
    sec_builders(ck, G, B, T)
    sec_structural(ck, G, T)
    sec_spanning(ck, G, T)
    sec_dtypes(ck, G, B, T)
    sec_sequences(ck, G, T)
    sec_purity(ck, G, T)
    t3 = time.time()
    T.run(ck)
    ck.section("timing", sp_s=round(t1 - t0, 1), sym_s=round(t2 - t1, 1), builders_structural_s=round(t3 - t2, 1), coq_eval_s=round(time.time() - t3, 1))
