"""C19 - array-level analyses respect axis conventions and decompositions.

Sections:
  slicetiming   translated fragment (Generated/SliceTiming.v) + theorems for all n;
                correspondence of the translated model with the running code;
                documented-order oracle evaluated on the implementation.
  timediff      time_slice_diffs: Coq model (TsdModel.v) vs implementation on exact data; definition and
                axis-equivariance oracles on the implementation; time_slice_diffs_image axis names.
  masks         compute_mask threshold search, intersect_masks rule, largest_cc, threshold_connect_components
                (MaskModel.v) vs implementation; affine-invariance / semantics oracles; series_from_mask order.
  generators    slice_generator / parcels / data_generator / slice_parcels (GenModel.v) vs implementation.
  pca_oracles   PCA properties evaluated on the implementation (1e-10).
"""
from fractions import Fraction

import numpy as np

import itertools

from ..kit import cnat, cnatl, cstr, cz, czl, cq, cql, cbool, clist, frac

HDR = ("From Coq Require Import String.\nFrom Coq Require Import List Arith.\n"
       "From NV.Lib Require Import SlotAlg.\nFrom NV.Generated Require Import SliceTiming.\n"
       "From NV.C19 Require Import Model.\n")


# documented acquisition orders (independent re-statement of the docstrings; mirrors Model.doc_table)
def _eo(n):
    return list(range(0, n, 2)) + list(range(1, n, 2))


def _oe(n):
    return list(range(1, n, 2)) + list(range(0, n, 2))


def _half(n):
    c = (n + 1) // 2
    return [k // 2 if k % 2 == 0 else c + k // 2 for k in range(n)]


DOC = {
    "st_01234": lambda n: list(range(n)),
    "st_43210": lambda n: [n - 1 - k for k in range(n)],
    "st_02413": _eo,
    "st_13024": _oe,
    "st_42031": lambda n: [n - 1 - v for v in _eo(n)],
    "st_odd0_even1": lambda n: _oe(n) if n % 2 == 0 else _eo(n),
    "st_03142": _half,
    "st_41302": lambda n: [n - 1 - v for v in _half(n)],
}
ALIASES = {"ascending": "st_01234", "descending": "st_43210", "asc_alt_2": "st_02413",
           "asc_alt_2_1": "st_13024", "desc_alt_2": "st_42031", "asc_alt_siemens": "st_odd0_even1",
           "asc_alt_half": "st_03142", "desc_alt_half": "st_41302"}


def slicetiming(ck):
    from nipy.algorithms.slicetiming import timefuncs as tf
    reg = tf.SLICETIME_FUNCTIONS
    # registry oracle: documented names all present, and resolve to the documented schedule
    expected = {}
    for long in DOC:
        expected[long] = long
        expected[long[3:]] = long
    expected.update(ALIASES)
    for k, tgt in expected.items():
        if k not in reg:
            ck.fail("slicetiming/registry-missing", "schedule name %r is not registered" % k,
                    {"name": k})
    nmax = ck.n(128, 256)
    TRs = [1.0, 2.0, 2.5] if not ck.thorough() else [1.0, 2.0, 2.5, 0.72, 3.0]
    terms = []
    meta = []
    for name in sorted(reg):
        tgt = expected.get(name)
        for n in range(1, nmax + 1):
            slots = None
            for TR in TRs:
                try:
                    t = np.asarray(reg[name](n, TR), dtype=float)
                except Exception as e:  # noqa
                    ck.fail("slicetiming/raises", "%s(%d, %r) raised %s" % (name, n, TR, e),
                            {"name": name, "n": n, "TR": TR})
                    t = None
                    break
                ck.count(("st", name, n, TR), nontrivial=n > 1, bucket="st:n<=8" if n <= 8 else "st:n>8")
                if t.shape != (n,):
                    ck.fail("slicetiming/shape", "%s(%d,%r) has shape %s" % (name, n, TR, t.shape),
                            {"name": name, "n": n, "TR": TR})
                    t = None
                    break
                s = np.rint(t * n / TR).astype(int)
                if np.max(np.abs(t - s * TR / n)) > 1e-9 * TR:
                    ck.fail("slicetiming/not-on-slot-grid",
                            "%s(%d,%r) returns times that are not slot*TR/n: %s" % (name, n, TR, t.tolist()),
                            {"name": name, "n": n, "TR": TR, "times": t.tolist()})
                if slots is None:
                    slots = s.tolist()
                elif slots != s.tolist():
                    ck.fail("slicetiming/TR-dependent-order", "%s(%d,.) slot order depends on TR" % (name, n),
                            {"name": name, "n": n})
            if t is None or slots is None:
                continue
            # property oracle on the implementation: one distinct slot per slice, documented order
            if sorted(slots) != list(range(n)):
                ck.fail("slicetiming/not-a-permutation",
                        "%s(%d, TR): slots %s are not a permutation of 0..n-1" % (name, n, slots),
                        {"name": name, "n": n, "slots": slots})
            elif tgt is not None:
                acq = DOC[tgt](n)
                if [slots[a] for a in acq] != list(range(n)):
                    ck.fail("slicetiming/documented-order",
                            "%s(%d, TR): slots %s do not follow the documented acquisition order %s" % (name, n, slots, acq),
                            {"name": name, "n": n, "slots": slots, "documented_acquisition_order": acq})
            if name in DOC:
                terms.append("olist_eqb (model_slots src_table %s %s) %s" % (cstr(name), cnat(n), cnatl(slots)))
                meta.append((name, n, slots))
            if n == 5 and name in ("st_02413", "asc_alt_half"):
                ck.sample({"call": "%s(5, 1.0)" % name, "slots": slots})
    # correspondence: translated model (Generated/SliceTiming.v) evaluated by vm_compute vs the running code
    if ck.build is not None and ck.build.ok:
        res = ck.coq_bools(HDR, terms)
        ck.cov["traces_validated_against_impl"] += len(res)
        for ok, (name, n, slots) in zip(res, meta):
            if not ok:
                mv = ck.coq_show(HDR, "model_slots src_table %s %s" % (cstr(name), cnat(n)))
                ck.fail("slicetiming/model-vs-impl",
                        "translated model and implementation disagree for %s(%d): impl slots %s, model %s" % (name, n, slots, mv),
                        {"name": name, "n": n, "impl_slots": slots, "model": mv})
                break
    ck.section("slicetiming", names=len(reg), n_max=nmax, TRs=TRs, model_cases=len(terms))


# ============================================================ time_slice_diffs
HDR_TSD = ("From Coq Require Import List ZArith QArith.\nFrom NV.Lib Require Import C19Index Harness.\n"
           "From NV.C19 Require Import TsdModel.\n")
TSD_KEYS = ("volume_mean_diff2", "slice_mean_diff2", "volume_means", "diff2_mean_vol", "slice_diff2_max_vol")


def _tsd_shapes(ck):
    """2..5 dims, extents 1..4 (quick: the 4-d/5-d families are thinned deterministically)."""
    out = []
    for nd in (2, 3, 4, 5):
        alls = list(itertools.product(range(1, 5), repeat=nd))
        if ck.thorough() or nd <= 3:
            out += alls
        else:
            rng = ck.rng("tsd-shapes-%d" % nd)
            keep = rng.choice(len(alls), size=60 if nd == 4 else 40, replace=False)
            out += [alls[i] for i in sorted(keep)]
    return out


def _tsd_reference(arr, ta, sa):
    """Definition in terms of successive-volume squared differences, written with direct NumPy
    indexing on the ORIGINAL axis order (no rollaxis): independent of the implementation."""
    n = arr.ndim
    T, S = arr.shape[ta], arr.shape[sa]
    sav = sa if sa < ta else sa - 1                  # position of the slice axis inside a volume
    vols = [np.take(arr, t, axis=ta) for t in range(T)]
    means = np.array([v.mean() for v in vols])
    d2 = [(vols[t + 1] - vols[t]) ** 2 for t in range(T - 1)]
    other = tuple(k for k in range(n - 1) if k != sav)
    sl = np.array([[np.take(d, s, axis=sav).mean() for s in range(S)] for d in d2]).reshape(T - 1, S)
    vold = np.array([d.mean() for d in d2])
    vshape = vols[0].shape
    if T > 1:
        dmv = sum(d2) / (T - 1)
    else:
        dmv = np.full(vshape, np.nan)
    smv = np.zeros(vshape)
    for s in range(S):
        if T > 1:
            col = sl[:, s]
            tstar = int(np.argmax(col))              # first maximum
            idx = [slice(None)] * (n - 1)
            idx[sav] = s
            smv[tuple(idx)] = d2[tstar][tuple(idx)]
    return {"volume_mean_diff2": vold, "slice_mean_diff2": sl, "volume_means": means,
            "diff2_mean_vol": dmv, "slice_diff2_max_vol": smv}


def _same(a, b):
    a = np.asarray(a, dtype=float)
    b = np.asarray(b, dtype=float)
    return a.shape == b.shape and bool(np.all((a == b) | (np.isnan(a) & np.isnan(b))))


def _qmat(m):
    return clist([cql([frac(x) for x in row]) for row in m])


def timediff(ck):
    from nipy.algorithms.diagnostics.timediff import time_slice_diffs, time_slice_diffs_image
    rng = ck.rng("tsd-data")
    shapes = _tsd_shapes(ck)
    n_model = ck.n(260, 2600)
    cases = []          # candidates for the Coq correspondence
    n_calls = 0
    for shape in shapes:
        nd = len(shape)
        # multiples of 81 = 3^4: every mean (count = product of extents in 1..4) is exact in binary floating point
        arr = (81 * rng.integers(-8, 9, size=shape)).astype(float)
        for ta in range(nd):
            for sa in range(nd):
                variants = [(ta, sa), (ta - nd, sa), (ta, sa - nd), (ta - nd, sa - nd)]
                if ta == sa:
                    for tv, sv in variants:
                        n_calls += 1
                        ck.count(("tsd-same", shape, tv, sv), nontrivial=False, bucket="tsd:same-axis")
                        try:
                            time_slice_diffs(arr, tv, sv)
                            ck.fail("tsd/same-axis-accepted", "time_slice_diffs(shape %s, time_axis=%d, slice_axis=%d) did not raise ValueError"
                                    % (shape, tv, sv), {"shape": shape, "time_axis": tv, "slice_axis": sv})
                        except ValueError:
                            pass
                    if len(shape) <= 3 and max(shape) <= 2:
                        cases.append(("raise", shape, None, ta - nd, sa, None))
                    continue
                default_sa = (nd - 2) if ta == nd - 1 else (nd - 1)
                if sa == default_sa:
                    variants += [(ta, None), (ta - nd, None)]
                ref = _tsd_reference(arr, ta, sa)
                sav = sa if sa < ta else sa - 1
                # default-position call on the axis-moved array (explicit transpose, contiguous copy)
                axes = [ta, sa] + [k for k in range(nd) if k not in (ta, sa)]
                moved = np.ascontiguousarray(arr.transpose(axes))
                try:
                    r0 = time_slice_diffs(moved, 0, 1)
                except Exception as e:  # noqa
                    ck.fail("tsd/raises", "time_slice_diffs(shape %s, 0, 1) raised %s" % (moved.shape, e),
                            {"shape": list(moved.shape), "time_axis": 0, "slice_axis": 1, "data": moved.ravel().tolist()})
                    continue
                for tv, sv in variants:
                    n_calls += 1
                    neg = "neg" if (tv < 0 or (sv is not None and sv < 0)) else "pos"
                    kind = "none" if sv is None else neg
                    nontriv = shape[ta] > 1 and int(np.prod(shape)) > shape[ta]
                    ck.count(("tsd", shape, tv, sv), nontrivial=nontriv, bucket="tsd:%dd:%s" % (nd, kind))
                    rep = {"shape": list(shape), "time_axis": tv, "slice_axis": sv, "data": arr.ravel().tolist()}
                    try:
                        r = time_slice_diffs(arr, tv, sv) if sv is not None else time_slice_diffs(arr, tv)
                    except Exception as e:  # noqa
                        ck.fail("tsd/raises/%s" % kind, "time_slice_diffs(shape %s, %s, %s) raised %s: %s"
                                % (shape, tv, sv, type(e).__name__, e), rep)
                        continue
                    # (a) definition oracle: direct indexing on the original axis order
                    for key in TSD_KEYS:
                        if not _same(r[key], ref[key]):
                            ck.fail("tsd/definition/%s/%s" % (key, kind),
                                    "time_slice_diffs(shape %s, time_axis=%s, slice_axis=%s)[%r] differs from its definition "
                                    "(successive-volume squared differences indexed on the original axes): got %s, expected %s"
                                    % (shape, tv, sv, key, np.asarray(r[key]).tolist(), ref[key].tolist()), rep)
                    # (b) axis equivariance on the implementation itself
                    for key in TSD_KEYS[:3]:
                        if not _same(r[key], r0[key]):
                            ck.fail("tsd/equivariance/%s/%s" % (key, kind),
                                    "time_slice_diffs(shape %s, %s, %s)[%r] differs from the default-position call on the axis-moved array"
                                    % (shape, tv, sv, key), rep)
                    for key in TSD_KEYS[3:]:
                        back = np.moveaxis(r0[key], 0, sav)
                        if not _same(r[key], back):
                            ck.fail("tsd/equivariance/%s/%s" % (key, kind),
                                    "time_slice_diffs(shape %s, %s, %s)[%r] differs from the default-position result transposed back "
                                    "(shape %s vs %s)" % (shape, tv, sv, key, np.asarray(r[key]).shape, back.shape), rep)
                    cases.append(("ok", shape, arr, tv, sv, r))
                    if shape == (2, 3, 2) and (tv, sv) == (-3, 2):
                        ck.sample({"call": "time_slice_diffs(arr(2,3,2), time_axis=-3, slice_axis=2)",
                                   "data": arr.ravel().tolist(),
                                   "slice_mean_diff2": np.asarray(r["slice_mean_diff2"]).tolist(),
                                   "slice_diff2_max_vol": np.asarray(r["slice_diff2_max_vol"]).ravel().tolist()})
    # ---- correspondence with the Coq model (exact, vm_compute)
    n_cmp = 0
    if ck.build is not None and ck.build.ok:
        pick = ck.rng("tsd-pick")
        oks = [c for c in cases if c[0] == "ok"]
        # favour small arrays (fast) but keep every ndim and every axis-variant kind
        oks.sort(key=lambda c: (int(np.prod(c[1])), c[1], c[3], -1 if c[4] is None else c[4]))
        small = [c for c in oks if int(np.prod(c[1])) <= 96]
        big = [c for c in oks if int(np.prod(c[1])) > 96]
        chosen = []
        if small:
            idx = pick.choice(len(small), size=min(len(small), n_model), replace=False)
            chosen += [small[i] for i in sorted(idx)]
        if big:
            idx = pick.choice(len(big), size=min(len(big), max(20, n_model // 10)), replace=False)
            chosen += [big[i] for i in sorted(idx)]
        chosen += [c for c in cases if c[0] == "raise"][:40]
        terms, meta = [], []
        for kind, shape, arr, tv, sv, r in chosen:
            sa_t = "None" if sv is None else "(Some %s)" % cz(sv)
            if kind == "raise":
                terms.append("tsd_raises %s %s %s" % (cnatl(shape), cz(tv), sa_t))
                meta.append((kind, shape, None, tv, sv, None))
                continue
            dmv = np.asarray(r["diff2_mean_vol"], dtype=float)
            isnan = bool(np.isnan(dmv).all()) if dmv.size else False
            if np.isnan(dmv).any() and not isnan:
                ck.fail("tsd/nan-in-output", "diff2_mean_vol has some NaN entries for shape %s" % (shape,),
                        {"shape": list(shape), "time_axis": tv, "slice_axis": sv, "data": arr.ravel().tolist()})
                continue
            e_dmv = "[]" if isnan else cql([frac(x) for x in dmv.ravel()])
            terms.append("tsd_check %s %s %s %s %s %s %s %s %s %s %s" % (
                cnatl(shape), czl([int(x) for x in arr.ravel()]), cz(tv), sa_t,
                cql([frac(x) for x in r["volume_mean_diff2"]]), _qmat(r["slice_mean_diff2"]),
                cql([frac(x) for x in r["volume_means"]]), cnatl(dmv.shape), e_dmv,
                cql([frac(x) for x in np.asarray(r["slice_diff2_max_vol"], dtype=float).ravel()]), cbool(isnan)))
            meta.append((kind, shape, arr, tv, sv, r))
        res = ck.coq_bools(HDR_TSD, terms, shard=60, name="tsd")
        n_cmp = len(res)
        ck.cov["traces_validated_against_impl"] += n_cmp
        for ok, (kind, shape, arr, tv, sv, r) in zip(res, meta):
            if not ok:
                rep = {"shape": list(shape), "time_axis": tv, "slice_axis": sv,
                       "data": None if arr is None else arr.ravel().tolist()}
                if kind == "ok":
                    sa_t = "None" if sv is None else "(Some %s)" % cz(sv)
                    rep["model_slice_mean_diff2"] = ck.coq_show(
                        HDR_TSD, "match tsd (of_flat 0%%Z %s %s) %s %s with Ok o => Some (slice_mean_diff2 o, to_flat (slice_diff2_max_vol o), shp (diff2_mean_vol o)) | _ => None end"
                        % (cnatl(shape), czl([int(x) for x in arr.ravel()]), cz(tv), sa_t))
                    rep["impl"] = {k: np.asarray(r[k]).tolist() for k in TSD_KEYS}
                ck.fail("tsd/model-vs-impl/%s" % ("raise" if kind == "raise" else "none" if sv is None else "neg" if (tv < 0 or sv < 0) else "pos"),
                        "Coq model of time_slice_diffs and the implementation disagree for shape %s, time_axis=%s, slice_axis=%s"
                        % (shape, tv, sv), rep)
                break
    # ---- image wrapper: axis names resolve to the same array call
    n_img = _timediff_image(ck, time_slice_diffs, time_slice_diffs_image)
    ck.section("time_slice_diffs", shapes=len(shapes), impl_calls=n_calls, model_cases=n_cmp, image_cases=n_img,
               data="81 * integers in [-8, 8] (all means exact in binary floating point)")


def _perm_image(arr, in_names, out_names, in2out, scales):
    """Image whose array axis k is called in_names[k] and drives world axis in2out[k] (named out_names[in2out[k]]):
    affine[in2out[k], k] = scales[k], translations 10, 11, ...  Returns (img, affine)."""
    from nipy.core.api import Image, AffineTransform
    nd = arr.ndim
    aff = np.zeros((nd + 1, nd + 1))
    for k in range(nd):
        aff[in2out[k], k] = scales[k]
    aff[:nd, nd] = [10.0 + k for k in range(nd)]
    aff[nd, nd] = 1.0
    return Image(arr, AffineTransform.from_params(list(in_names), list(out_names), aff)), aff


def _tsd_image_configs(ck, nd, rng):
    """(input names, output names, in2out) families: matching order; time name shared by input and output; every kind of
    disagreement between array (input) order and world (output) order - permuted input names, permuted affine, both."""
    ident = list(range(nd))
    base_in = list("ijkl"[:nd])
    base_out = list("xyz"[:nd - 1]) + ["t"]
    cfgs = [("same", base_in, base_out, ident),
            ("same", list("ijk"[:nd - 1]) + ["t"], base_out, ident)]          # 't' names input and output axis nd-1
    perms = list(itertools.permutations(range(nd)))[1:]
    n_perm = len(perms) if (nd <= 3 or ck.thorough()) else 7
    chosen = [perms[i] for i in sorted(rng.choice(len(perms), size=min(n_perm, len(perms)), replace=False))]
    # always include the rolls of the last axis to the front / first axis to the back (what rollimg produces)
    for roll in ([nd - 1] + ident[:-1], ident[1:] + [0]):
        if tuple(roll) not in chosen and roll != ident:
            chosen.append(tuple(roll))
    for j, pm in enumerate(chosen):
        pm = list(pm)
        # array axis k carries the name base_in[pm[k]] and drives world axis pm[k]: the image rollimg / reordered_domain gives
        cfgs.append(("permuted-input", [base_in[q] for q in pm], base_out, pm))
        if j % 2 == 0:
            # shared name 't' for the time axis: input axis named 't' wherever it sits in the array
            nm = [("t" if q == nd - 1 else "ijk"[q]) for q in pm]
            cfgs.append(("permuted-input", nm, base_out, pm))
        if j % 3 == 0:
            # world axes renamed in another order as well (names of outputs permuted relative to the inputs)
            q2 = list(chosen[(j + 1) % len(chosen)])
            outn = [None] * nd
            for k in range(nd):
                outn[q2[k]] = base_out[k]
            cfgs.append(("permuted-output", base_in, outn, q2))
    return cfgs


def _timediff_image(ck, tsd_arr, tsd_img):
    """time_slice_diffs_image on images whose array (input) axis order agrees or DISAGREES with the world (output) axis order
    (permuted affines, permuted input names, rollimg / reordered results, a name shared by an input and its output axis):
    every way of naming the time / slice axis (input index, negative index, input name, output name) must give the numbers of
    the array call on the ARRAY positions of those axes, and of the independent definition; the volume images carry the input
    names and the coordmap with the time axis (input and matching output) removed."""
    from nipy.core.api import rollimg
    rng = ck.rng("tsd-img")
    n = 0
    shapes = [(3, 4), (3, 2, 4), (2, 2, 3, 2), (2, 3, 2, 3)]
    res_cases, wrap_cases = [], []
    for shape in shapes:
        nd = len(shape)
        images = []
        for order, in_names, out_names, in2out in _tsd_image_configs(ck, nd, rng):
            arr = (81 * rng.integers(-8, 9, size=shape)).astype(float)
            scales = [2.0, 3.0, 4.0, 5.0][:nd]
            img, aff = _perm_image(arr, in_names, out_names, in2out, scales)
            images.append((order, "built", img, arr, list(in_names), list(out_names), list(in2out), aff))
        # images obtained by moving axes of an existing image (the object a user gets from rollimg)
        order0, _, img0, arr0, in0, out0, i2o0, aff0 = images[0]
        for ax in range(nd):
            for start in (0, nd):
                pos = start if start < nd else nd - 1
                if pos == ax:
                    continue
                try:
                    rimg = rollimg(img0, in0[ax], start if start < nd else -1) if start < nd else rollimg(img0, ax, nd)
                except Exception:  # noqa
                    continue
                pm = [k for k in range(nd) if k != ax]
                pm.insert(pos, ax)
                got_names = list(rimg.coordmap.function_domain.coord_names)
                if got_names != [in0[q] for q in pm]:
                    continue      # rollimg semantics are C18's subject; only use it when it did what is assumed here
                raff = aff0[:, pm + [nd]]
                images.append(("rolled", "rollimg", rimg, np.asarray(rimg.get_fdata()), got_names, out0, [i2o0[q] for q in pm], raff))
        # images with a name carried by an input axis and a NON-corresponding output axis (ambiguous by contract)
        for sh in range(1, nd):
            in_amb = list("ijkl"[:nd])
            out_amb = list("xyzt"[:nd])
            out_amb[(0 + sh) % nd] = in_amb[0]
            arr = (81 * rng.integers(-8, 9, size=shape)).astype(float)
            img, aff = _perm_image(arr, in_amb, out_amb, list(range(nd)), [2.0, 3.0, 4.0, 5.0][:nd])
            _tsd_image_resolution(ck, img, in_amb, out_amb, list(range(nd)), "ambiguous-name", res_cases)
            n += 1
            ck.count(("tsd-img-amb", shape, sh), bucket="tsd:image:ambiguous-name")
            other = 1 if nd > 1 else 0
            try:
                tsd_img(img, in_amb[0], other)
                ck.fail("tsd-image/ambiguous-name-accepted",
                        "time_slice_diffs_image accepted time_axis=%r, which names input axis 0 and the non-corresponding "
                        "output axis %d (input %s, output %s)" % (in_amb[0], sh % nd, in_amb, out_amb),
                        {"shape": list(shape), "input_names": in_amb, "output_names": out_amb, "affine": aff.tolist(),
                         "time_axis": in_amb[0], "slice_axis": other})
            except Exception:  # noqa
                pass
        for order, how, img, arr, in_names, out_names, in2out, aff in images:
            out_of = [out_names[in2out[k]] for k in range(nd)]         # world name driven by array axis k
            _tsd_image_resolution(ck, img, in_names, out_names, in2out, order, res_cases)
            for ta in range(nd):
                for sa in range(nd):
                    if ta == sa:
                        continue
                    try:
                        ref = tsd_arr(arr, ta, sa)
                    except Exception:  # noqa  (already reported by the array-level oracles)
                        continue
                    dfn = _tsd_reference(arr, ta, sa)
                    specs = [(ta, sa), (in_names[ta], in_names[sa]), (out_of[ta], sa), (ta - nd, in_names[sa]),
                             (in_names[ta], out_of[sa]), (ta, sa - nd), (out_of[ta], out_of[sa])]
                    seen = set()
                    for tspec, sspec in specs:
                        if (tspec, sspec) in seen:
                            continue
                        seen.add((tspec, sspec))
                        # a name used for an input AND a non-corresponding output axis is ambiguous (AxisError by contract)
                        amb = any(isinstance(sp, str) and sp in in_names and sp in out_names
                                  and out_names.index(sp) != in2out[in_names.index(sp)] for sp in (tspec, sspec))
                        if amb:
                            continue
                        n += 1
                        kinds = "+".join("idx" if isinstance(sp, int) else "in-name" if sp in in_names else "out-name"
                                         for sp in (tspec, sspec))
                        ck.count(("tsd-img", shape, tuple(in_names), tuple(out_names), tuple(in2out), how, tspec, sspec),
                                 bucket="tsd:image:%s" % order)
                        rep = {"shape": list(arr.shape), "input_names": in_names, "output_names": out_names,
                               "in2out": in2out, "affine": aff.tolist(), "made_by": how,
                               "time_axis": tspec, "slice_axis": sspec, "array_time_axis": ta, "array_slice_axis": sa,
                               "data": arr.ravel().tolist()}
                        try:
                            r = tsd_img(img, tspec, sspec)
                        except Exception as e:  # noqa
                            ck.fail("tsd-image/raises/io-order=%s" % order,
                                    "time_slice_diffs_image(time_axis=%r, slice_axis=%r) on an image with input axes %s, output "
                                    "axes %s, in2out %s raised %s: %s" % (tspec, sspec, in_names, out_names, in2out,
                                                                          type(e).__name__, e), rep)
                            continue
                        for key in TSD_KEYS:
                            got = r[key].get_fdata() if hasattr(r[key], "get_fdata") else r[key]
                            if not _same(got, ref[key]):
                                ck.fail("tsd-image/differs-from-array-call/%s/io-order=%s" % (key, order),
                                        "time_slice_diffs_image(time_axis=%r, slice_axis=%r)[%r] (%s) on an image with input axes "
                                        "%s, output axes %s, in2out %s differs from time_slice_diffs(arr, %d, %d) on the array "
                                        "positions of those axes: shape %s vs %s"
                                        % (tspec, sspec, key, kinds, in_names, out_names, in2out, ta, sa,
                                           np.asarray(got).shape, np.asarray(ref[key]).shape), rep)
                            if not _same(got, dfn[key]):
                                ck.fail("tsd-image/definition/%s/io-order=%s" % (key, order),
                                        "time_slice_diffs_image(time_axis=%r, slice_axis=%r)[%r] is not the successive-volume "
                                        "squared difference statistic over the named axes (array axes %d, %d)"
                                        % (tspec, sspec, key, ta, sa), rep)
                        if all(hasattr(r[key], "coordmap") for key in TSD_KEYS[3:]):
                            wrap_cases.append((in_names, out_names, in2out, tuple(arr.shape), arr, tspec, sspec, r,
                                               list(r["diff2_mean_vol"].coordmap.function_domain.coord_names),
                                               list(r["diff2_mean_vol"].coordmap.function_range.coord_names), order))
                        exp_names = tuple(nm for k, nm in enumerate(in_names) if k != ta)
                        exp_out = tuple(nm for k, nm in enumerate(out_names) if k != in2out[ta])
                        keep_r = [k for k in range(nd + 1) if k != in2out[ta]]
                        keep_c = [k for k in range(nd + 1) if k != ta]
                        exp_aff = aff[np.ix_(keep_r, keep_c)]
                        for key in TSD_KEYS[3:]:
                            if not hasattr(r[key], "coordmap"):
                                ck.fail("tsd-image/volume-not-image", "volume output %r is not an image" % key, rep)
                                continue
                            cmv = r[key].coordmap
                            got = tuple(cmv.function_domain.coord_names)
                            if got != exp_names:
                                ck.fail("tsd-image/volume-axis-names/io-order=%s" % order,
                                        "volume output %r has axes %s, expected %s (time axis %r dropped)"
                                        % (key, got, exp_names, tspec), rep)
                            gout = tuple(cmv.function_range.coord_names)
                            if gout != exp_out or np.asarray(cmv.affine).shape != exp_aff.shape \
                                    or not np.array_equal(np.asarray(cmv.affine), exp_aff):
                                ck.fail("tsd-image/volume-coordmap/io-order=%s" % order,
                                        "volume output %r: output axes %s / affine %s, expected the image's coordmap with input "
                                        "axis %d and output axis %d removed (%s / %s)"
                                        % (key, gout, np.asarray(cmv.affine).tolist(), ta, in2out[ta], exp_out,
                                           exp_aff.tolist()), rep)
    _tsd_image_model(ck, res_cases, wrap_cases)
    return n


HDR_IMG = ("From Coq Require Import String.\nFrom Coq Require Import List ZArith QArith.\n"
           "From NV.Lib Require Import C19Index Harness.\nFrom NV.C19 Require Import TsdModel ImgAxisModel.\n")


def _c_axid(sp):
    return "(AxInt %s)" % cz(sp) if isinstance(sp, int) else "(AxName %s)" % cstr(sp)


def _c_cmap(in_names, out_names, in2out):
    return "(mk_cmap %s %s %s)" % (clist([cstr(x) for x in in_names]), clist([cstr(x) for x in out_names]),
                                   clist(["(Some %s)" % cnat(x) for x in in2out]))


def _tsd_image_resolution(ck, img, in_names, out_names, in2out, order, res_cases):
    """io_axis_indices of the running code on every kind of axis id (indices incl. negative and out of range, every input
    and output name, an unknown name): oracle = the pair (array position, world position) known from the construction;
    the observed outcome is recorded for the comparison with the Coq model."""
    from nipy.core.reference.coordinate_map import io_axis_indices, AxisError
    nd = len(in_names)
    ids = list(range(-nd - 1, nd + 1)) + list(dict.fromkeys(list(in_names) + list(out_names))) + ["q"]
    for sp in ids:
        try:
            got = io_axis_indices(img.coordmap, sp)
            out = ("ok", got[0], got[1])
        except AxisError as e:
            out = ("mismatch" if "correspond" in str(e) else "noname",)
        except KeyError:
            out = ("keyerror",)
        except Exception as e:  # noqa
            out = ("other:" + type(e).__name__,)
        ck.count(("io-axis", tuple(in_names), tuple(out_names), tuple(in2out), sp), nontrivial=True,
                 bucket="io_axis_indices:%s" % order)
        rep = {"input_names": in_names, "output_names": out_names, "in2out": in2out, "axis_id": sp, "got": list(out)}
        # direct oracle (independent of Coq): the documented meaning of the id
        if isinstance(sp, int):
            k = sp if sp >= 0 else nd + sp
            exp = ("ok", k, in2out[k]) if 0 <= k < nd else None      # out of range: any exception is fine
        elif sp in in_names:
            k = in_names.index(sp)
            exp = ("mismatch",) if (sp in out_names and out_names.index(sp) != in2out[k]) else ("ok", k, in2out[k])
        elif sp in out_names:
            j = out_names.index(sp)
            exp = ("ok", in2out.index(j), j)
        else:
            exp = ("noname",)
        if exp is not None and tuple(out) != exp:
            ck.fail("io_axis_indices/%s/io-order=%s" % ("index" if isinstance(sp, int) else "input-name" if sp in in_names
                                                        else "output-name" if sp in out_names else "unknown-name", order),
                    "io_axis_indices(coordmap(%s -> %s, in2out %s), %r) gave %s, expected %s (input = array position, "
                    "output = world position)" % (in_names, out_names, in2out, sp, out, exp), rep)
        if exp is None and out[0] == "ok":
            ck.fail("io_axis_indices/index-out-of-range-accepted/io-order=%s" % order,
                    "io_axis_indices accepted the integer axis %d for %d input axes: %s" % (sp, nd, out), rep)
        res_cases.append((in_names, out_names, in2out, sp, out, order))


def _tsd_image_model(ck, res_cases, wrap_cases):
    """Exact comparison of the Gallina model (ImgAxisModel.v) with the outcomes recorded above."""
    if ck.build is None or not ck.build.ok:
        return
    terms, meta = [], []
    for in_names, out_names, in2out, sp, out, order in res_cases:
        if out[0] == "ok":
            e = "(AxOk %s %s)" % tuple("None" if v is None else "(Some %s)" % cnat(int(v)) for v in out[1:])
        else:
            e = {"mismatch": "AxMismatch", "noname": "AxNoName", "keyerror": "AxKeyError"}.get(out[0])
            if e is None:
                ck.fail("io_axis_indices/unexpected-exception", "io_axis_indices raised %s" % out[0],
                        {"input_names": in_names, "output_names": out_names, "in2out": in2out, "axis_id": sp})
                continue
        terms.append("ax_res_eqb (io_axis_indices %s %s) %s" % (_c_cmap(in_names, out_names, in2out), _c_axid(sp), e))
        meta.append(("res", in_names, out_names, in2out, sp, out, order))
    pick = ck.rng("tsd-img-pick")
    n_w = ck.n(90, 600)
    wc = [w for w in wrap_cases if int(np.prod(w[3])) <= 48]
    idx = sorted(pick.choice(len(wc), size=min(n_w, len(wc)), replace=False)) if wc else []
    for i in idx:
        in_names, out_names, in2out, shape, arr, tspec, sspec, r, vin, vout, order = wc[i]
        dmv = np.asarray(r["diff2_mean_vol"].get_fdata(), dtype=float)
        smv = np.asarray(r["slice_diff2_max_vol"].get_fdata(), dtype=float)
        isnan = bool(np.isnan(dmv).all()) if dmv.size else False
        if np.isnan(dmv).any() and not isnan:
            continue
        e_dmv = "[]" if isnan else cql([frac(x) for x in dmv.ravel()])
        terms.append("tsd_image_check %s %s %s %s %s %s %s %s %s %s %s %s %s %s" % (
            _c_cmap(in_names, out_names, in2out), cnatl(shape), czl([int(x) for x in arr.ravel()]),
            _c_axid(tspec), _c_axid(sspec),
            cql([frac(x) for x in r["volume_mean_diff2"]]), _qmat(r["slice_mean_diff2"]),
            cql([frac(x) for x in r["volume_means"]]), cnatl(dmv.shape), e_dmv,
            cql([frac(x) for x in smv.ravel()]), cbool(isnan),
            clist([cstr(x) for x in vin]), clist([cstr(x) for x in vout])))
        meta.append(("wrap", in_names, out_names, in2out, (tspec, sspec), None, order))
    res = ck.coq_bools(HDR_IMG, terms, shard=400, name="tsdimg")
    ck.cov["traces_validated_against_impl"] += len(res)
    seen = set()
    for ok, (kind, in_names, out_names, in2out, sp, out, order) in zip(res, meta):
        if ok:
            continue
        sig = "tsd-image/model-vs-impl/%s/io-order=%s" % ("io_axis_indices" if kind == "res" else "wrapper", order)
        if sig in seen:
            continue
        seen.add(sig)
        rep = {"input_names": in_names, "output_names": out_names, "in2out": in2out, "axis_id": sp,
               "impl": None if out is None else list(out)}
        if kind == "res":
            rep["model"] = ck.coq_show(HDR_IMG, "io_axis_indices %s %s" % (_c_cmap(in_names, out_names, in2out), _c_axid(sp)))
        ck.fail(sig, "Coq model of %s and the implementation disagree for input axes %s, output axes %s, in2out %s, axis id %r"
                % ("io_axis_indices" if kind == "res" else "time_slice_diffs_image", in_names, out_names, in2out, sp), rep)
    ck.section("time_slice_diffs_image", io_axis_indices_model_cases=sum(1 for m in meta if m[0] == "res"),
               wrapper_model_cases=sum(1 for m in meta if m[0] == "wrap"), wrapper_impl_calls=len(wrap_cases))


# ============================================================ labs/mask.py
HDR_MASK = ("From Coq Require Import List ZArith QArith.\nFrom NV.Lib Require Import Harness.\n"
            "From NV.C19 Require Import MaskModel MaskSpec.\n")


def _components(mask):
    """Independent 6-connectivity labelling (BFS in row-major scan order): list of sorted voxel lists."""
    mask = np.asarray(mask) != 0
    seen = np.zeros(mask.shape, bool)
    comps = []
    for idx in np.ndindex(mask.shape):
        if mask[idx] and not seen[idx]:
            comp, stack = [], [idx]
            seen[idx] = True
            while stack:
                p = stack.pop()
                comp.append(p)
                for ax in range(mask.ndim):
                    for d in (-1, 1):
                        q = list(p)
                        q[ax] += d
                        q = tuple(q)
                        if 0 <= q[ax] < mask.shape[ax] and mask[q] and not seen[q]:
                            seen[q] = True
                            stack.append(q)
            comps.append(sorted(comp))
    return comps


def _ref_threshold(vals, m, M, exclude_zeros):
    """Stated semantics, exact arithmetic: sorted values, window floor(m n)..floor(M n), first largest gap, mid-point."""
    from math import floor
    s = sorted(Fraction(*float(v).as_integer_ratio()) for v in vals)
    if exclude_zeros:
        s = [v for v in s if v != 0]
    n = len(s)
    li, ls = floor(Fraction(*float(m).as_integer_ratio()) * n), floor(Fraction(*float(M).as_integer_ratio()) * n)
    if li < 0 or ls >= n or ls <= li:
        return None
    gaps = [s[k + 1] - s[k] for k in range(li, ls)]
    ia = gaps.index(max(gaps))
    return (s[li + ia] + s[li + ia + 1]) / 2


def _obools(x):
    return "None" if x is None else "(Some %s)" % clist([cbool(bool(b)) for b in x])


def masks(ck):
    import math
    from scipy import ndimage
    from nipy.labs import mask as nm
    rng = ck.rng("mask")
    # ---------------- compute_mask threshold search
    shapes = [(2, 2, 2), (3, 3, 2), (2, 3, 4), (4, 3, 3), (1, 5, 3), (4, 4, 4)]
    windows = [(0.25, 0.875), (0.125, 0.75), (0.2, 0.9), (0.0, 0.5), (0.5, 0.5), (0.375, 0.9375), (0.3, 0.7)]
    ncm = ck.n(140, 1200)
    terms, meta = [], []
    n_aff = 0
    for ci in range(ncm):
        shape = shapes[ci % len(shapes)]
        m, M = windows[(ci // len(shapes)) % len(windows)]
        kind = ci % 4
        if kind == 0:
            vol = rng.integers(0, 6, size=shape).astype(float)              # many ties, zeros
        elif kind == 1:
            vol = rng.integers(-20, 40, size=shape).astype(float)
        elif kind == 2:
            vol = rng.integers(-64, 64, size=shape) / 8.0                   # dyadic
        else:
            vol = np.where(rng.random(shape) < 0.5, rng.integers(0, 4, size=shape), rng.integers(30, 40, size=shape)).astype(float)
        ez = bool((ci // 3) % 2)
        ref = vol if ci % 5 else rng.integers(-20, 40, size=shape).astype(float)
        nvals = int((vol != 0).sum()) if ez else vol.size
        exact_floor = (math.floor(m * nvals) == math.floor(Fraction(*m.as_integer_ratio()) * nvals)
                       and math.floor(M * nvals) == math.floor(Fraction(*M.as_integer_ratio()) * nvals))
        rep = {"shape": list(shape), "m": m, "M": M, "exclude_zeros": ez, "mean_volume": vol.ravel().tolist(),
               "reference_volume": ref.ravel().tolist()}
        try:
            got = nm.compute_mask(vol, ref, m, M, cc=False, opening=0, exclude_zeros=ez)
            got = np.asarray(got).ravel()
            exc = None
        except ValueError as e:
            got, exc = None, "ValueError"
        except Exception as e:  # noqa
            got, exc = None, type(e).__name__
        ck.count(("compute_mask", ci), nontrivial=got is not None and 0 < int(got.sum()) < got.size,
                 bucket="mask:threshold:" + ("raises" if got is None else "ez" if ez else "plain"))
        # property oracle on the implementation: stated threshold semantics
        thr = _ref_threshold(vol.ravel(), m, M, ez) if exact_floor else "skip"
        if thr != "skip":
            if thr is None:
                if got is not None and not (M >= 1 or m < 0):
                    ck.fail("compute_mask/empty-window-accepted", "compute_mask returned a mask although the window [floor(m n), floor(M n)) is empty "
                            "(m=%r, M=%r, n=%d)" % (m, M, nvals), rep)
            else:
                want = np.array([Fraction(*float(v).as_integer_ratio()) >= thr for v in ref.ravel()])
                if got is None:
                    ck.fail("compute_mask/raises", "compute_mask raised %s (m=%r, M=%r, n=%d values)" % (exc, m, M, nvals), rep)
                elif not np.array_equal(got, want):
                    ck.fail("compute_mask/threshold-semantics/%s" % ("exclude_zeros" if ez else "plain"),
                            "compute_mask(m=%r, M=%r, exclude_zeros=%r) on %d values: mask differs from (reference >= mid-point of the first "
                            "largest gap in the sorted window) with threshold %s: got %s, expected %s"
                            % (m, M, ez, nvals, thr, got.astype(int).tolist(), want.astype(int).tolist()), rep)
        if exact_floor and (got is not None or exc == "ValueError"):
            terms.append("obools_eqb (compute_mask_raw %s %s %s %s %s) %s" % (
                cql([frac(x) for x in vol.ravel()]), cql([frac(x) for x in ref.ravel()]), cq(m), cq(M), cbool(ez), _obools(got)))
            meta.append(rep)
        # invariance under positive affine intensity changes, on the full pipeline (cc / opening on)
        if got is not None and ci % 2 == 0:
            a = [0.5, 2.0, 4.0, 0.25, 3.0][ci % 5]
            b = 0.0 if ez else [-3.0, 0.0, 1.5, 16.0][ci % 4]
            for cc, opening in ((False, 0), (True, 0), (True, 1)):
                n_aff += 1
                ck.count(("compute_mask-affine", ci, cc, opening), bucket="mask:affine")
                try:
                    r1 = nm.compute_mask(vol, ref, m, M, cc=cc, opening=opening, exclude_zeros=ez)
                    r2 = nm.compute_mask(a * vol + b, a * ref + b, m, M, cc=cc, opening=opening, exclude_zeros=ez)
                except Exception as e:  # noqa
                    ck.fail("compute_mask/affine-invariance/raises", "compute_mask raised %s on the pair x / %r x + %r" % (e, a, b),
                            dict(rep, a=a, b=b, cc=cc, opening=opening))
                    continue
                if not np.array_equal(r1, r2):
                    ck.fail("compute_mask/affine-invariance", "compute_mask(%r * x + %r) selects different voxels than compute_mask(x) "
                            "(cc=%r, opening=%r, m=%r, M=%r)" % (a, b, cc, opening, m, M), dict(rep, a=a, b=b, cc=cc, opening=opening))
        if ci == 1:
            ck.sample({"call": "compute_mask(vol%s, m=%r, M=%r, cc=False, opening=0)" % (shape, m, M),
                       "vol": vol.ravel().tolist(), "mask": None if got is None else got.astype(int).tolist()})
    # ---------------- intersect_masks threshold rule
    nint = 0
    iterms, imeta = [], []
    for n in range(1, 6):
        for rep_i in range(ck.n(2, 8)):
            shape = [(2, 3, 2), (3, 3, 3), (2, 2, 4)][(n + rep_i) % 3]
            ms = [rng.random(shape) < 0.55 for _ in range(n)]
            count = np.sum([mm.astype(int) for mm in ms], axis=0)
            for j in range(0, 11):
                thr = j / 10.0
                nint += 1
                ck.count(("intersect", n, rep_i, j), bucket="mask:intersect")
                rep = {"n_masks": n, "threshold": thr, "shape": list(shape), "masks": [mm.astype(int).ravel().tolist() for mm in ms]}
                try:
                    got = nm.intersect_masks([mm.copy() for mm in ms], threshold=thr, cc=False)
                except Exception as e:  # noqa
                    ck.fail("intersect_masks/raises", "intersect_masks(%d masks, threshold=%r) raised %s" % (n, thr, e), rep)
                    continue
                want = (count == n) if j == 10 else (count * 10 > j * n)
                if j == 0:
                    want = count > 0
                if not np.array_equal(np.asarray(got), want):
                    ck.fail("intersect_masks/threshold-rule/%s" % ("intersection" if j == 10 else "union" if j == 0 else "level"),
                            "intersect_masks(%d masks, threshold=%r, cc=False): voxel counts %s gave %s, expected count > threshold*n -> %s"
                            % (n, thr, count.ravel().tolist(), np.asarray(got).astype(int).ravel().tolist(), want.astype(int).ravel().tolist()), rep)
                tn = min(thr, 1 - 1.e-7) * n          # the implementation's floating-point product, threaded into the model
                iterms.append("bools_eqb (intersect_sel %s (intersect_counts %s)) %s" % (
                    cq(tn), clist([czl(mm.astype(int).ravel()) for mm in ms]), clist([cbool(bool(b)) for b in np.asarray(got).ravel()])))
                imeta.append(rep)
                if j in (0, 5, 10):
                    gcc = nm.intersect_masks([mm.copy() for mm in ms], threshold=thr, cc=True)
                    comps = _components(want)
                    if comps:
                        big = max(len(c) for c in comps)
                        sel = sorted(tuple(int(x) for x in p) for p in np.argwhere(gcc))
                        if sel not in [c for c in comps if len(c) == big]:
                            ck.fail("intersect_masks/cc-not-largest-component", "intersect_masks(cc=True) is not a largest connected component "
                                    "of the thresholded intersection", rep)
                    elif np.any(gcc):
                        ck.fail("intersect_masks/cc-nonempty-from-empty", "intersect_masks(cc=True) non-empty although nothing passes", rep)
    for thr in (-0.1, 1.5):
        try:
            nm.intersect_masks([np.ones((2, 2, 2), bool)], threshold=thr, cc=False)
            ck.fail("intersect_masks/threshold-out-of-range-accepted", "threshold=%r accepted" % thr, {"threshold": thr})
        except ValueError:
            pass
    # ---------------- largest_cc / threshold_connect_components
    ncc = ck.n(120, 1000)
    cterms, cmeta = [], []
    for ci in range(ncc):
        shape = [(3, 3, 3), (2, 4, 3), (4, 4, 2), (1, 6, 2), (5, 3, 3)][ci % 5]
        dens = [0.3, 0.45, 0.6, 0.15][ci % 4]
        mk = rng.random(shape) < dens
        rep = {"shape": list(shape), "mask": mk.astype(int).ravel().tolist()}
        comps = _components(mk)
        ck.count(("largest_cc", ci), nontrivial=len(comps) > 1, bucket="mask:cc:%s" % ("0" if not comps else "1" if len(comps) == 1 else ">1"))
        try:
            got = nm.largest_cc(mk)
            exc = None
        except ValueError:
            got, exc = None, "ValueError"
        if not comps:
            if got is not None:
                ck.fail("largest_cc/empty-mask-accepted", "largest_cc of an all-False mask did not raise ValueError", rep)
        elif got is None:
            ck.fail("largest_cc/raises", "largest_cc raised ValueError on a non-empty mask", rep)
        else:
            big = max(len(c) for c in comps)
            first_big = [c for c in comps if len(c) == big][0]       # scan-order tie rule (labels are numbered in scan order)
            sel = sorted(tuple(int(x) for x in p) for p in np.argwhere(got))
            if sel != first_big:
                ck.fail("largest_cc/not-largest-component/%s" % ("tie" if sum(len(c) == big for c in comps) > 1 else "unique"),
                        "largest_cc selected %s; components (6-connectivity) have sizes %s, expected the first largest one %s"
                        % (sel, [len(c) for c in comps], first_big), rep)
            # scipy.ndimage.label reference
            lab, nb = ndimage.label(mk)
            sizes = np.bincount(lab.ravel())[1:]
            if not np.array_equal(got, lab == (1 + int(np.argmax(sizes)))):
                ck.fail("largest_cc/differs-from-ndimage-label-reference", "largest_cc differs from labels == argmax(component sizes)", rep)
        lab, nb = ndimage.label(mk)
        cterms.append("obools_eqb (largest_cc_sel %s %s %s) %s" % (
            clist([cbool(bool(b)) for b in mk.ravel()]), cnatl(lab.ravel()), cnat(nb), _obools(None if got is None else got.ravel())))
        cmeta.append(("largest_cc", rep))
        # threshold_connect_components
        vals = np.where(mk, rng.integers(1, 9, size=shape), 0).astype(float)
        thr = [1, 2, 3, 5, 2.5][ci % 5]
        out = nm.threshold_connect_components(vals, thr)
        want = vals.copy()
        for c in comps:
            if len(c) < thr:
                for p in c:
                    want[p] = 0
        rep2 = dict(rep, values=vals.ravel().tolist(), threshold=thr)
        ck.count(("tcc", ci), nontrivial=len(comps) > 1, bucket="mask:threshold_cc")
        if not np.array_equal(out, want):
            ck.fail("threshold_connect_components/semantics", "components of size < %r not (only) removed: got %s, expected %s"
                    % (thr, out.ravel().tolist(), want.ravel().tolist()), rep2)
        cterms.append("qlist_eqb (threshold_cc %s %s %s) %s" % (cql([frac(x) for x in vals.ravel()]), cnatl(lab.ravel()), cq(float(thr)),
                                                           cql([frac(x) for x in out.ravel()])))
        cmeta.append(("threshold_connect_components", rep2))
    # ---------------- series_from_mask extraction order
    nser, sterms = _series_from_mask(ck, nm, rng)
    for t, rep in sterms:
        cterms.append(t)
        cmeta.append(("series_from_mask", rep))
    # ---------------- correspondence with the Coq model
    n_cmp = 0
    if ck.build is not None and ck.build.ok:
        for name, tt, mm, sig in (("cm", terms, meta, "compute_mask/model-vs-impl"), ("im", iterms, imeta, "intersect_masks/model-vs-impl"),
                                  ("cc", cterms, cmeta, "components/model-vs-impl")):
            res = ck.coq_bools(HDR_MASK, tt, shard=120, name=name)
            n_cmp += len(res)
            ck.cov["traces_validated_against_impl"] += len(res)
            for ok, rep in zip(res, mm):
                if not ok:
                    extra = ""
                    if name == "cm":
                        extra = ck.coq_show(HDR_MASK, "mask_threshold %s %s %s %s" % (
                            cql([frac(x) for x in rep["mean_volume"]]), cq(rep["m"]), cq(rep["M"]), cbool(rep["exclude_zeros"])))
                    ck.fail(sig, "Coq model and implementation disagree (%s) %s" % (sig.split("/")[0], extra), rep if isinstance(rep, dict) else {"case": rep})
                    break
    ck.section("mask", compute_mask_cases=ncm, affine_pairs=n_aff, intersect_cases=nint, cc_cases=ncc, series_cases=nser, model_cases=n_cmp)


def _series_from_mask(ck, nm, rng):
    import nibabel as nib
    n = 0
    sterms = []
    d = ck.scratch / "series"
    d.mkdir(exist_ok=True)
    for k, shape in enumerate([(2, 3, 2), (3, 2, 4)]):
        T = 3 + k
        data = rng.integers(-50, 50, size=shape + (T,)).astype(np.float32)
        mk = rng.random(shape) < 0.5
        mk[0, 0, 0] = True
        f4 = str(d / ("s4_%d.nii" % k))
        nib.save(nib.Nifti1Image(data, np.eye(4)), f4)
        f3 = []
        for t in range(T):
            f = str(d / ("s3_%d_%d.nii" % (k, t)))
            nib.save(nib.Nifti1Image(data[..., t], np.eye(4)), f)
            f3.append(f)
        want = np.array([data[idx] for idx in np.ndindex(shape) if mk[idx]])     # row-major voxel order, (voxel, time)
        for kind, arg in (("4d-file", f4), ("3d-files", f3)):
            n += 1
            ck.count(("series", k, kind), bucket="mask:series")
            got, _hdr = nm.series_from_mask(arg, mk)
            rep = {"shape": list(shape), "T": T, "mask": mk.astype(int).ravel().tolist(), "data": data.ravel().tolist(), "input": kind}
            if got.shape != want.shape or not np.array_equal(got, want):
                ck.fail("series_from_mask/order/%s" % kind, "series_from_mask(%s) is not data[mask] in row-major voxel order with shape (voxel, time): "
                        "shape %s vs %s" % (kind, got.shape, want.shape), rep)
            if got.ndim == 2:
                # model: series_sel (flat mask) (per-voxel time courses in row-major voxel order)
                sterms.append(("list_eqb qlist_eqb (series_sel %s %s) %s" % (
                    clist([cbool(bool(b)) for b in mk.ravel()]),
                    clist([cql([frac(x) for x in row]) for row in data.reshape(-1, T)]),
                    clist([cql([frac(x) for x in row]) for row in np.asarray(got, dtype=float)])), rep))
    return n, sterms


# ============================================================ generators.py / pca.py (clauses 3, 4)
"""C19 clauses 3 (generators.py) and 4 (pca.py): `generators(ck)` and `pca_oracles(ck)`.
To be pasted into harness/props/c19.py (there: `from ..kit import ...`)."""



HDR_GEN = ("From Coq Require Import ZArith List Bool.\n"
           "From NV.C19 Require Import GenModel.\n")


# ---------------------------------------------------------------- clause 3: generators.py
def _gen_canon_index(idx, shape):
    """index tuple yielded by slice_generator -> list of ints, whole-axis slices mapped to -1"""
    out = []
    for pos, v in enumerate(idx):
        if isinstance(v, slice):
            if v == slice(None, None, None) or (v.start in (0, None) and v.step is None and v.stop == shape[pos]):
                out.append(-1)
            else:
                raise ValueError("unexpected slice %r" % (v,))
        else:
            out.append(int(v))
    return out


def _gen_run(fn, data, axis):
    """run slice_generator; items yielded before an IndexError, and whether one was raised"""
    items, err = [], False
    try:
        for idx, blk in fn(data, axis):
            items.append((_gen_canon_index(idx, data.shape), np.asarray(blk)))
    except IndexError:
        err = True
    except Exception as e:  # noqa  - anything else is reported by the caller as raises-other
        err = "%s: %s" % (type(e).__name__, e)
    return items, err


def _gen_direct_block(data, t):
    """data[t] by an independent route: boolean selection over np.indices (row-major order)"""
    sel = np.ones(data.shape, bool)
    grid = np.indices(data.shape)
    for pos, v in enumerate(t):
        if v != -1:
            sel &= grid[pos] == v
    return data[sel]


def _gen_items_term(items, err):
    return "(%s, %s)" % (clist(["(%s, %s)" % (czl(t), czl(np.asarray(b).ravel().tolist())) for t, b in items]),
                         cbool(err))


def _gen_masks_term(masks):
    return clist([clist([cbool(x) for x in np.asarray(m).ravel().tolist()]) for m in masks])


def _gen_labels_term(labels):
    if labels is None:
        return "None"
    return "(Some %s)" % clist(["(Many %s)" % czl(l) if isinstance(l, (list, tuple)) else "(One %s)" % cz(l)
                               for l in labels])


def generators(ck):
    from nipy.core.utils import generators as G
    rng = ck.rng("generators")
    thorough = ck.thorough()
    terms, meta = [], []      # model-vs-implementation terms

    # ---------------- slice_generator
    shapes = []
    for nd in (1, 2, 3, 4):
        shapes += list(itertools.product((1, 2, 3), repeat=nd))
    shapes.sort(key=lambda s: (int(np.prod(s)), len(s), s))      # small to large: the first replay is the smallest
    n_cases = {"int": 0, "pair": 0, "single": 0, "three+": 0, "other": 0}
    n_defect = 0
    cap4 = ck.n(40, 10 ** 9)      # quick tier: number of 4-d shapes whose full axis set is run
    seen4 = 0
    for shape in shapes:
        nd = len(shape)
        size = int(np.prod(shape))
        data = np.arange(size).reshape(shape)
        full = True
        if nd == 4:
            seen4 += 1
            full = seen4 <= cap4 or shape in ((2, 2, 2, 2), (3, 2, 3, 2), (3, 3, 3, 3))
        axes_cases = [("int", a) for a in range(-nd, nd)]
        axes_cases += [("single", [a]) for a in range(nd)]
        axes_cases += [("pair", list(p)) for p in itertools.permutations(range(nd), 2)]
        if nd >= 2:
            axes_cases += [("pair", [-1, 0]), ("pair", [0, -nd + 1])]       # negative entries (Python sequence indexing)
            axes_cases += [("other", [0, 0]), ("other", [nd])]              # repeated axis, out-of-range axis
        if nd == 1:
            axes_cases += [("other", []), ("other", [1])]
        trip = list(itertools.permutations(range(nd), 3)) + list(itertools.permutations(range(nd), 4))
        if not full:
            trip = trip[:: 7]
            axes_cases = axes_cases[:: 3]
        axes_cases += [("three+", list(p)) for p in trip]
        for kind, axis in axes_cases:
            items, err = _gen_run(G.slice_generator, data, axis)
            if isinstance(err, str):
                ck.fail("slice_generator/raises-other", "slice_generator(np.arange(%d).reshape%s, axis=%r) raised %s after yielding %d items"
                        % (size, shape, axis, err, len(items)), {"shape": shape, "axis": axis, "error": err})
                continue
            n_cases[kind] += 1
            ck.count(("sg", shape, repr(axis)), nontrivial=size > 1, bucket="sg:%s,ndim=%d" % (kind, nd))
            rp = {"call": "list(nipy.core.utils.generators.slice_generator(np.arange(%d).reshape%s, axis=%r))"
                  % (size, shape, axis), "shape": shape, "axis": axis,
                  "yielded_index_tuples": [t for t, _ in items], "IndexError": err}
            # oracle 1 (independent of Coq): every yielded block is data[index] by direct selection
            for t, b in items:
                if not np.array_equal(np.asarray(b).ravel(), _gen_direct_block(data, t)):
                    ck.fail("slice_generator/block-not-data-at-index",
                            "slice_generator(arange.reshape%s, axis=%r): block yielded with index %s is not data[index]"
                            % (shape, axis, t), rp)
                    break
            # oracle 2: the documented enumeration - all index combinations, each once, first axis fastest
            if kind == "int":
                a = axis
                got = [t for t, _ in items]
                good = (not err) and len(items) == shape[a]
                if good:    # the yielded index must select exactly data[..., j, ...] along `axis` (for reading and writing)
                    for j, (t, b) in enumerate(items):
                        z = np.zeros(shape, int)
                        try:
                            z[tuple(slice(None) if v == -1 else v for v in t)] = 1
                        except (IndexError, ValueError, TypeError):     # the yielded index is not usable on the array at all
                            good = False
                            break
                        w = np.zeros(shape, int)
                        w[(slice(None),) * (a % nd) + (j,)] = 1
                        good = good and np.array_equal(z, w) and np.array_equal(b, np.take(data, j, axis=a))
                if not good:
                    sig = "slice_generator/int-axis/" + ("negative" if a < 0 else "nonnegative")
                    ck.fail(sig, "slice_generator(np.arange(%d).reshape%s, axis=%d) %s instead of slicing axis %d "
                            "(expected index tuples (slice(None),)*k + (j,) with k the normalised axis)"
                            % (size, shape, a, "yields indices %s%s" % (got, " then raises IndexError" if err else ""), a % nd),
                            rp)
            elif kind in ("single", "pair", "three+"):
                ax = [a % nd for a in axis]
                lens = [shape[a] for a in ax]
                want = []
                for n in range(int(np.prod(lens))):
                    t = [-1] * nd
                    for j, a in enumerate(ax):
                        t[a] = (n // int(np.prod(lens[:j]))) % lens[j]
                    want.append(t)
                got = [t for t, _ in items]
                good = (not err) and got == want
                if good:    # consequences, checked separately: distinct and covering the product
                    combos = set(tuple(t[a] for a in ax) for t in got)
                    good = len(combos) == len(got) == int(np.prod(lens))
                if not good:
                    if len(axis) >= 3:
                        n_defect += 1
                        sig = "slice_generator/three-or-more-axes/cumulative-mod"
                    else:
                        sig = "slice_generator/documented-order/%d-axes" % len(axis)
                    nbad = next((k for k in range(len(want)) if k >= len(got) or got[k] != want[k]), len(want))
                    ck.fail(sig, "slice_generator(np.arange(%d).reshape%s, axis=%r) %s at step n=%d (expected index %s = "
                            "documented mixed-radix digits, first axis fastest)"
                            % (size, shape, axis, "raises IndexError" if err and nbad >= len(got) else
                               "yields index %s" % (got[nbad] if nbad < len(got) else None), nbad,
                               want[nbad] if nbad < len(want) else None), rp)
            # correspondence with the Coq model (exact: tuples, blocks, IndexError)
            if kind == "int":
                terms.append("run_eqb (sg_int %s %s %s) %s" % (cnatl(shape), czl(range(size)), cz(axis),
                                                              _gen_items_term(items, err)))
            else:
                terms.append("run_eqb (sg_list %s %s %s) %s" % (cnatl(shape), czl(range(size)), czl(axis),
                                                               _gen_items_term(items, err)))
            meta.append(("slice_generator", rp, "sg_int %s %s %s" % (cnatl(shape), czl(range(size)), cz(axis)) if kind == "int"
                         else "sg_list %s %s %s" % (cnatl(shape), czl(range(size)), czl(axis))))
            if shape == (2, 3) and kind == "pair" and axis == [1, 0]:
                ck.sample({"call": rp["call"], "yielded_index_tuples": rp["yielded_index_tuples"]})
    # negative entries in a list axis behave like their positive counterparts
    for shape in ((2, 3), (3, 2, 2), (2, 1, 3, 2)):
        nd = len(shape)
        data = np.arange(int(np.prod(shape))).reshape(shape)
        for p in itertools.permutations(range(nd), 2):
            for q in ([p[0] - nd, p[1]], [p[0], p[1] - nd], [p[0] - nd, p[1] - nd]):
                a, _ = _gen_run(G.slice_generator, data, list(p))
                b, eb = _gen_run(G.slice_generator, data, q)
                ck.count(("sg-neg", shape, repr(q)), bucket="sg:negative-list-axis")
                if eb is not False or [t for t, _ in a] != [t for t, _ in b]:
                    ck.fail("slice_generator/list-axis/negative-entry",
                            "slice_generator(arange.reshape%s, axis=%r) differs from axis=%r" % (shape, q, list(p)),
                            {"shape": shape, "axis": q})

    # ---------------- parcels, data_generator, slice_parcels
    pshapes = []
    for nd in (1, 2, 3):
        pshapes += list(itertools.product((1, 2, 3), repeat=nd))
    pshapes.sort(key=lambda s: (int(np.prod(s)), len(s), s))
    reps = ck.n(3, 12)
    n_parc = 0
    for shape in pshapes:
        size = int(np.prod(shape))
        for rep in range(reps):
            nvals = int(rng.integers(1, 5))
            vals = rng.choice(np.arange(-3, 6), size=nvals, replace=False)
            data = rng.choice(vals, size=shape)
            flat = data.ravel().tolist()
            present = sorted(set(flat))
            # --- labels=None, exclude=(): the partition property, on the implementation
            masks = [np.asarray(m) for m in G.parcels(data)]
            n_parc += 1
            ck.count(("parcels", shape, tuple(flat)), nontrivial=len(present) > 1, bucket="parcels:default,ndim=%d" % len(shape))
            rp = {"call": "list(parcels(np.array(%s).reshape%s))" % (flat, shape), "data": flat, "shape": shape,
                  "masks": [m.ravel().astype(int).tolist() for m in masks]}
            okp = all(m.shape == data.shape and m.dtype == bool for m in masks)
            if okp:
                cover = np.sum([m.astype(int) for m in masks], axis=0)
                okp = bool(np.all(cover == 1)) and all(m.any() for m in masks) and len(masks) == len(present)
            if not okp:
                ck.fail("parcels/not-a-partition", "parcels(%s reshaped %s): masks do not partition the array "
                        "(every position in exactly one non-empty mask, one mask per distinct value)" % (flat, shape), rp)
            elif [int(data[m][0]) for m in masks] != present or any(len(set(data[m].tolist())) != 1 for m in masks):
                ck.fail("parcels/label-order", "parcels(%s): masks are not in increasing label order / not one value each" % flat, rp)
            terms.append("masks_eqb (parcels %s None []) %s" % (czl(flat), _gen_masks_term(masks)))
            meta.append(("parcels", rp, "parcels %s None []" % czl(flat)))
            # --- explicit labels (scalars, tuples, lists, absent values, repeats) and exclude
            pool = present + [9]
            labels = []
            for _ in range(int(rng.integers(1, 4))):
                if rng.random() < 0.5:
                    labels.append(int(rng.choice(pool)))
                else:
                    k = int(rng.integers(1, 4))
                    lab = [int(v) for v in rng.choice(pool, size=k)]
                    labels.append(tuple(lab) if rng.random() < 0.5 else lab)
            exclude = tuple(int(v) for v in rng.choice(pool, size=int(rng.integers(0, 3)), replace=False))
            for labs, exc in ((labels, ()), (labels, exclude), (None, exclude)):
                try:
                    ms = [np.asarray(m) for m in G.parcels(data, labels=labs, exclude=exc)]
                except Exception as e:  # noqa
                    ck.fail("parcels/raises", "parcels(%s, labels=%r, exclude=%r) raised %s" % (flat, labs, exc, e),
                            {"data": flat, "shape": shape, "labels": labs, "exclude": exc})
                    continue
                ck.count(("parcels-l", shape, tuple(flat), repr(labs), exc), bucket="parcels:labels/exclude")
                rp2 = {"call": "list(parcels(np.array(%s).reshape%s, labels=%r, exclude=%r))" % (flat, shape, labs, exc),
                       "masks": [m.ravel().astype(int).tolist() for m in ms]}
                # oracle: documented meaning - union over the label's values, excluded scalars skipped
                eff = [l for l in (present if labs is None else labs) if isinstance(l, (list, tuple)) or l not in exc]
                want = [np.isin(data, list(l) if isinstance(l, (list, tuple)) else [l]) for l in eff]
                if len(ms) != len(want) or any(m.shape != data.shape or not np.array_equal(m.astype(bool), w) for m, w in zip(ms, want)):
                    ck.fail("parcels/labels-union-exclude", "parcels(%s, labels=%r, exclude=%r) is not [isin(data, label) for "
                            "label in labels if label not in exclude]" % (flat, labs, exc), rp2)
                terms.append("masks_eqb (parcels %s %s %s) %s" % (czl(flat), _gen_labels_term(labs), czl(exc), _gen_masks_term(ms)))
                meta.append(("parcels", rp2, "parcels %s %s %s" % (czl(flat), _gen_labels_term(labs), czl(exc))))
            # --- data_generator: default iterable and boolean-mask items
            dg = list(G.data_generator(data))
            ck.count(("dg", shape, tuple(flat)), bucket="data_generator")
            if [i for i, _ in dg] != list(range(shape[0])) or any(not np.array_equal(d, data[i]) for i, d in dg):
                ck.fail("data_generator/default-iterable", "data_generator(%s reshaped %s) is not [(i, data[i]) for i in range(shape[0])]"
                        % (flat, shape), {"data": flat, "shape": shape})
            rows = clist([czl(np.asarray(d).ravel().tolist()) for _, d in dg])
            terms.append("leqb (fun a b => Nat.eqb (fst a) (fst b) && leqb Z.eqb (snd a) (snd b)) (dg_default %s) %s"
                         % (clist([czl(data[i].ravel().tolist()) for i in range(shape[0])]),
                            clist(["(%s, %s)" % (cnat(i), czl(np.asarray(d).ravel().tolist())) for i, d in dg])))
            meta.append(("data_generator", {"data": flat, "shape": shape}, "dg_default %s" % rows))
            dgm = list(G.data_generator(data, masks))
            if any(not np.array_equal(d, data.ravel()[m.ravel()]) for (m, d) in dgm) or len(dgm) != len(masks):
                ck.fail("data_generator/boolean-mask-items", "data_generator(%s, parcels) does not select in row-major order" % flat,
                        {"data": flat, "shape": shape})
            terms.append("leqb (fun a b => leqb Bool.eqb (fst a) (fst b) && leqb Z.eqb (snd a) (snd b)) (dg_masks %s %s) %s"
                         % (czl(flat), _gen_masks_term(masks),
                            clist(["(%s, %s)" % (clist([cbool(x) for x in m.ravel().tolist()]), czl(np.asarray(d).ravel().tolist()))
                                   for m, d in dgm])))
            meta.append(("data_generator", {"data": flat, "shape": shape, "items": "parcels(data)"}, "dg_masks %s %s" % (czl(flat), _gen_masks_term(masks))))
            # --- slice_parcels: nested order (slices outer, parcels of that slice inner)
            if len(shape) >= 2:
                for axis in list(range(len(shape))) + [[0, 1], [1, 0]]:
                    try:
                        sp = [(_gen_canon_index(i, shape), np.asarray(p)) for i, p in G.slice_parcels(data, axis=axis)]
                    except Exception as e:  # noqa
                        ck.fail("slice_parcels/raises", "slice_parcels(%s reshaped %s, axis=%r) raised %s: %s"
                                % (flat, shape, axis, type(e).__name__, e), {"data": flat, "shape": shape, "axis": axis})
                        continue
                    ck.count(("sp", shape, tuple(flat), repr(axis)), bucket="slice_parcels")
                    want = []
                    for i, d in G.slice_generator(data, axis=axis):
                        for v in sorted(set(np.asarray(d).ravel().tolist())):
                            want.append((_gen_canon_index(i, shape), np.asarray(d) == v))
                    if len(sp) != len(want) or any(a[0] != b[0] or not np.array_equal(a[1], b[1]) for a, b in zip(sp, want)):
                        ck.fail("slice_parcels/nested-order", "slice_parcels(%s reshaped %s, axis=%r) is not the nested enumeration "
                                "slices x parcels-of-slice" % (flat, shape, axis), {"data": flat, "shape": shape, "axis": axis})
                    run = ("sg_int %s %s %s" % (cnatl(shape), czl(flat), cz(axis))) if isinstance(axis, int) else \
                          ("sg_list %s %s %s" % (cnatl(shape), czl(flat), czl(axis)))
                    mt = "slice_parcels (fst (%s)) None" % run
                    terms.append("sp_eqb (%s) %s" % (mt, clist(["(%s, %s)" % (czl(i), clist([cbool(x) for x in p.ravel().tolist()]))
                                                                 for i, p in sp])))
                    meta.append(("slice_parcels", {"data": flat, "shape": shape, "axis": axis}, mt))
    # np.unique oracle contract used by the model of parcels(labels=None): sorted distinct values
    for _ in range(50):
        a = rng.integers(-4, 5, size=int(rng.integers(1, 12)))
        if np.unique(a).tolist() != sorted(set(a.tolist())):
            ck.fail("parcels/np-unique-contract", "np.unique(%s) is not the sorted distinct values" % a.tolist(), {"a": a.tolist()})

    # ---------------- correspondence: model evaluated inside Coq (vm_compute) on the same inputs
    nbad = 0
    if ck.build is not None and ck.build.ok:
        res = ck.coq_bools(HDR_GEN, terms, shard=300, name="gen")
        ck.cov["traces_validated_against_impl"] += len(res)
        for ok, (fn, rp, mterm) in zip(res, meta):
            if not ok:
                nbad += 1
                mv = ck.coq_show(HDR_GEN, mterm) if nbad == 1 else ""
                ck.fail("%s/model-vs-impl" % fn, "Coq model and implementation disagree for %s: model gives %s"
                        % (rp.get("call", rp), mv[:600]), dict(rp, model=mv))
    ck.section("generators", slice_generator_cases=n_cases, three_or_more_axes_defect_cases=n_defect,
               parcels_arrays=n_parc, model_cases=len(terms), model_disagreements=nbad)
    ck.trust.append("np.unique returns the sorted distinct values (oracle contract for parcels(labels=None); spot-checked)")


# ---------------------------------------------------------------- clause 4: pca.py
def _pca_reference(Y, mask_flat, standardize, design_keep, design_resid, tol_ratio=0.01):
    """Plain-numpy restatement: Y is (n_pts, n_vox).  Returns UX (rank, n_pts), the matrix Z whose SVD
    defines the PCA, and the rmse scales."""
    n = Y.shape[0]
    if isinstance(design_resid, str):
        def resid(A): return A - A.mean(0)[None, ...]
    elif design_resid is None:
        def resid(A): return A
    else:
        P = design_resid @ np.linalg.pinv(design_resid)
        def resid(A): return A - P @ A
    X = np.eye(n) if design_keep is None else design_keep @ np.linalg.pinv(design_keep)
    UX, SX, _ = np.linalg.svd(resid(X), full_matrices=0)
    rank = int((SX / SX.max() > tol_ratio).sum())
    UX = UX[:, :rank].T
    Z = UX @ Y
    scales = np.ones(Y.shape[1])
    if standardize:
        r = resid(Y)
        rmse = np.sqrt(np.square(r).sum(axis=0) / r.shape[0])
        scales = np.where(rmse <= 0, 0, 1. / np.where(rmse <= 0, 1, rmse))
        Z = Z * scales
    if mask_flat is not None:
        Z = Z * mask_flat
    return UX, Z, scales, rank


def _pca_align(B, Bref):
    """signs s with B*s ~ Bref column-wise"""
    s = np.sign(np.sum(B * Bref, axis=0))
    s[s == 0] = 1
    return s


def pca_oracles(ck):
    from nipy.algorithms.utils.pca import pca, pca_image
    rng = ck.rng("pca")
    TOL = 1e-10
    ncases = ck.n(600, 4000)
    n_done = 0
    n_vec = 0

    def close(a, b, scale=1.0, tol=TOL):
        a, b = np.asarray(a, float), np.asarray(b, float)
        return a.shape == b.shape and bool(np.all(np.abs(a - b) <= tol * max(1.0, scale)))

    for case in range(ncases):
        nd = 2 + case % 3 if case < ncases // 2 else int(rng.integers(2, 5))
        axis_pos = int(rng.integers(0, nd))
        npts = int(rng.integers(3, 7))
        shape = [int(rng.integers(1, 5)) for _ in range(nd)]
        shape[axis_pos] = npts
        while int(np.prod(shape)) // npts < npts + 2:       # enough voxels for a full-rank covariance
            k = int(rng.integers(0, nd))
            if k != axis_pos:
                shape[k] += 1
            elif nd == 1:
                break
        shape = tuple(shape)
        data = np.round(rng.normal(size=shape) * 8) / 4 + rng.normal(size=shape) * 0.5
        scale = float(np.abs(data).max())
        axis = axis_pos if rng.random() < 0.5 else axis_pos - nd
        vshape = shape[:axis_pos] + shape[axis_pos + 1:]
        nvox = int(np.prod(vshape))
        mkind = ["none", "random", "all-true"][int(rng.integers(0, 3))]
        mask = None
        if mkind == "random":
            mask = rng.random(vshape) < 0.6
            idx = rng.choice(nvox, size=min(nvox, npts + 1), replace=False)
            mask.reshape(-1)[idx] = True
            if mask.all() and nvox > npts + 2:
                mask.reshape(-1)[[i for i in range(nvox) if i not in idx][0]] = False
        elif mkind == "all-true":
            mask = np.ones(vshape, bool)
        standardize = bool(rng.integers(0, 2))
        rk = ["mean", "none", "matrix"][int(rng.integers(0, 3))]
        design_resid = {"mean": "mean", "none": None}.get(rk, rng.normal(size=(npts, int(rng.integers(1, 3)))))
        design_keep = None if rng.random() < 0.6 else rng.normal(size=(npts, npts - 1))
        opts = dict(standardize=standardize, design_resid=design_resid, design_keep=design_keep)
        rp = {"shape": shape, "axis": axis, "mask": None if mask is None else mask.astype(int).tolist(),
              "standardize": standardize, "design_resid": design_resid if not isinstance(design_resid, np.ndarray) else design_resid.tolist(),
              "design_keep": None if design_keep is None else design_keep.tolist(), "data": data.tolist(),
              "call": "nipy.algorithms.utils.pca.pca(np.array(data), axis=axis, mask=np.array(mask, bool) if mask is not None else None, "
                      "standardize=..., design_resid=..., design_keep=...)"}
        feat = "ndim=%d,%s-axis,mask=%s" % (nd, "negative" if axis < 0 else "nonnegative", mkind)
        try:
            res = pca(data, axis=axis, mask=mask, **opts)
        except Exception as e:  # noqa
            ck.fail("pca/raises", "pca on a %s float array, axis=%d raised %s: %s" % (shape, axis, type(e).__name__, e), rp)
            continue
        n_done += 1
        ck.count(("pca", case), nontrivial=True, bucket="pca:" + feat)
        B, pv, proj = res['basis_vectors'], res['pcnt_var'], res['basis_projections']
        Y = np.moveaxis(data, axis_pos, 0).reshape(npts, -1)
        mflat = None if mask is None else mask.reshape(-1).astype(float)
        UX, Z, scales, rank = _pca_reference(Y, mflat, standardize, design_keep, design_resid)
        # shapes, returned axis
        if res['axis'] != axis_pos:
            ck.fail("pca/axis-equivariance/returned-axis", "pca(axis=%d) on ndim %d returns axis %r, expected %d"
                    % (axis, nd, res['axis'], axis_pos), rp)
        want_shape = shape[:axis_pos] + (rank,) + shape[axis_pos + 1:]
        if B.shape != (npts, rank) or pv.shape != (rank,) or proj.shape != want_shape:
            ck.fail("pca/projections-shape", "pca on %s axis=%d: shapes basis %s pcnt %s projections %s, expected (%d,%d) (%d,) %s"
                    % (shape, axis, B.shape, pv.shape, proj.shape, npts, rank, rank, want_shape), rp)
            continue
        # (1) orthonormal basis
        if not close(B.T @ B, np.eye(rank)):
            ck.fail("pca/basis-not-orthonormal", "pca on %s axis=%d (%s): basis_vectors.T @ basis_vectors is not the identity (max dev %.3g)"
                    % (shape, axis, feat, np.abs(B.T @ B - np.eye(rank)).max()), rp)
        # (2) percent variance: non-increasing, non-negative, sums to 100
        if np.any(np.diff(pv) > 1e-10 * 100):
            ck.fail("pca/pcnt-var-order", "pca on %s axis=%d (%s): pcnt_var %s is not non-increasing" % (shape, axis, feat, pv.tolist()), rp)
        if np.any(pv < -1e-10 * 100):
            ck.fail("pca/pcnt-var-negative", "pca on %s axis=%d: pcnt_var %s has a negative entry" % (shape, axis, pv.tolist()), rp)
        if abs(pv.sum() - 100) > 1e-10 * 100:
            ck.fail("pca/pcnt-var-sum", "pca on %s axis=%d: pcnt_var sums to %r, not 100" % (shape, axis, float(pv.sum())), rp)
        # (3) equals the SVD of the projected, standardised, mask-weighted data
        U, S, _ = np.linalg.svd(Z, full_matrices=0)
        ev = S ** 2
        pv_ref = 100 * ev / ev.sum()
        zs = max(1.0, float(ev.max()))
        bad = None
        if not close(pv, pv_ref[:rank], 100.0):
            bad = "pcnt_var %s is not 100*s_i^2/sum(s^2) = %s" % (pv.tolist(), pv_ref.tolist())
        Bref = UX.T @ U[:, :rank]
        if bad is None and not close(B @ B.T, Bref @ Bref.T, 1.0, 1e-9):
            bad = "span of basis_vectors is not the span of the left singular vectors mapped back by UX.T"
        if bad is None:
            gaps = np.abs(np.diff(ev[:rank])) / zs
            for i in range(rank):
                g = min([gaps[j] for j in (i - 1, i) if 0 <= j < rank - 1] or [1.0])
                if g > 1e-6 and ev[i] / zs > 1e-6:
                    n_vec += 1
                    d = min(np.abs(B[:, i] - Bref[:, i]).max(), np.abs(B[:, i] + Bref[:, i]).max())
                    if d > 1e-10 / g * 10:
                        bad = "basis vector %d differs from +-UX.T u_%d by %.3g (relative eigenvalue gap %.3g)" % (i, i, d, g)
                        break
        if bad is not None:
            ck.fail("pca/not-svd", "pca on %s axis=%d (%s): %s" % (shape, axis, feat, bad), rp)
        # projections = basis_vectors.T @ data (times the rmse scales), component axis at `axis`; not masked
        P = (B.T @ Y) * scales
        P = np.moveaxis(P.reshape((rank,) + vshape), 0, axis_pos)
        if not close(proj, P, scale * max(1.0, float(scales.max()))):
            ck.fail("pca/projections-mismatch", "pca on %s axis=%d (%s): basis_projections are not basis_vectors.T @ data%s "
                    "with the component axis at position %d" % (shape, axis, feat, " * 1/rmse" if standardize else "", axis_pos), rp)
        # (4) axis equivariance: same as moving the axis to the front first; negative == positive axis
        r0 = pca(np.moveaxis(data, axis_pos, 0), axis=0, mask=mask, **opts)
        sg = _pca_align(r0['basis_vectors'], B)
        pscale = scale * max(1.0, float(scales.max()))
        sgb = sg.reshape((rank,) + (1,) * (nd - 1))
        ok4 = close(r0['basis_vectors'] * sg, B, 1.0, 1e-8) and close(r0['pcnt_var'], pv, 100.0) and \
            close(np.moveaxis(r0['basis_projections'] * sgb, 0, axis_pos), proj, pscale, 1e-8)
        if not ok4:
            ck.fail("pca/axis-equivariance/%s-axis" % ("negative" if axis < 0 else "positive"),
                    "pca(data %s, axis=%d) differs from pca(np.moveaxis(data, %d, 0), axis=0) moved back (%s)"
                    % (shape, axis, axis_pos, feat), rp)
        other = axis_pos - nd if axis >= 0 else axis_pos
        r1 = pca(data, axis=other, mask=mask, **opts)
        if not (close(r1['basis_vectors'], B) and close(r1['pcnt_var'], pv, 100.0) and close(r1['basis_projections'], proj, pscale)
                and r1['axis'] == res['axis']):
            ck.fail("pca/axis-equivariance/negative-axis", "pca(data %s, axis=%d) differs from axis=%d" % (shape, axis, other), rp)
        # (5) masked == extracted voxels
        if mask is not None:
            ext = Y[:, mask.reshape(-1)]
            r2 = pca(ext, axis=0, **opts)
            if r2['basis_vectors'].shape != B.shape:
                ck.fail("pca/mask-vs-extracted", "pca(data %s, mask) and pca(extracted voxels) have different ranks" % (shape,), rp)
            else:
                s2 = _pca_align(r2['basis_vectors'], B)
                pm = np.moveaxis(proj, axis_pos, 0).reshape(rank, -1)[:, mask.reshape(-1)]
                if not (close(r2['basis_vectors'] * s2, B, 1.0, 1e-8) and close(r2['pcnt_var'], pv, 100.0)
                        and close(r2['basis_projections'] * s2[:, None], pm, pscale, 1e-8)):
                    ck.fail("pca/mask-vs-extracted", "pca(data %s, axis=%d, mask=%s) differs from pca on the extracted (n_pts, n_selected) "
                            "voxels (%s)" % (shape, axis, mkind, feat), rp)
        # (6) ncomp only truncates basis_projections
        for nc in sorted(set([1, 2, rank]) - {0}):
            if nc > rank:
                continue
            r3 = pca(data, axis=axis, mask=mask, ncomp=nc, **opts)
            ws = shape[:axis_pos] + (nc,) + shape[axis_pos + 1:]
            if not (close(r3['basis_vectors'], B) and close(r3['pcnt_var'], pv, 100.0) and r3['basis_projections'].shape == ws
                    and close(r3['basis_projections'], np.take(proj, range(nc), axis=axis_pos), pscale)):
                ck.fail("pca/ncomp-changes-basis", "pca(data %s, axis=%d, ncomp=%d): basis/pcnt_var changed or projections are not the "
                        "leading %d components (shape %s)" % (shape, axis, nc, nc, r3['basis_projections'].shape), dict(rp, ncomp=nc))
        if case == 3:
            ck.sample({"call": "pca(float array %s, axis=%d, mask=%s, standardize=%s, design_resid=%s)" % (shape, axis, mkind, standardize, rk),
                       "pcnt_var": pv.tolist(), "rank": rank})
    # (7) pca_image through an Image: axis by name, index, negative index
    from nipy.core.api import Image, AffineTransform
    from nipy.core.reference.coordinate_map import drop_io_dim
    n_img = 0
    for k in range(ck.n(3, 10)):
        shp = tuple(int(v) for v in rng.integers(2, 5, size=3)) + (int(rng.integers(3, 7)),)
        d4 = rng.normal(size=shp)
        img = Image(d4, AffineTransform.from_params('ijkt', 'xyzt', np.diag([2., 3., 4., 2.5, 1.])))
        msk = None
        mimg = None
        if k % 2 == 1:
            msk = rng.random(shp[:3]) < 0.7
            msk.reshape(-1)[:7] = True
            mimg = Image(msk.astype(float), drop_io_dim(img.coordmap, 't'))
        for ax_img, ax_arr, kind in (('t', 3, "name"), (3, 3, "index"), (-1, 3, "negative-index"), ('i', 0, "name-first"), (0, 0, "index-first")):
            if ax_arr == 0 and (shp[0] < 3 or msk is not None):
                continue
            ra = pca(d4, axis=ax_arr, mask=msk, ncomp=2)
            try:
                ri = pca_image(img, axis=ax_img, mask=mimg, ncomp=2)
            except Exception as e:  # noqa
                ck.fail("pca/pca-image-raises/%s" % kind, "pca_image(img %s, axis=%r) raised %s: %s" % (shp, ax_img, type(e).__name__, e),
                        {"shape": shp, "axis": ax_img})
                continue
            n_img += 1
            ck.count(("pca_image", k, kind), bucket="pca_image:%s,mask=%s" % (kind, msk is not None))
            pi = np.asarray(ri['basis_projections'].get_fdata())
            if not (ri['axis'] == ax_arr and close(ri['basis_vectors'], ra['basis_vectors']) and close(ri['pcnt_var'], ra['pcnt_var'], 100.0)
                    and close(pi, ra['basis_projections'], 10.0)
                    and ri['basis_projections'].coordmap.function_domain.coord_names[ax_arr] == 'PCA components'):
                ck.fail("pca/pca-image-vs-array/%s" % kind, "pca_image(img %s, axis=%r%s) differs from pca(array, axis=%d)"
                        % (shp, ax_img, ", mask" if msk is not None else "", ax_arr),
                        {"shape": shp, "axis": ax_img, "data": d4.tolist(), "mask": None if msk is None else msk.astype(int).tolist()})
    ck.section("pca", cases=n_done, per_vector_svd_comparisons=n_vec, pca_image_cases=n_img, tolerance=TOL)
    ck.trust.append("numpy.linalg svd/eigh/pinv are oracles: pca's decomposition is checked numerically (1e-10 relative) against an "
                    "independent numpy SVD of the projected, standardised, mask-weighted data")


# ---------------------------------------------------------------- pca with rank-deficient designs
def _span_projector(X, n):
    """Orthogonal projector onto the column space of X (n rows), built independently of pinv/QR:
    left singular vectors with an explicit rank truncation.  The projector onto a subspace is unique
    (theorem pca_projector_unique), so any parametrisation of the same span must give this matrix."""
    if X is None:
        return np.eye(n)
    X = np.asarray(X, float).reshape(n, -1)
    if X.shape[1] == 0 or not np.any(X):
        return np.zeros((n, n))
    U, S, _ = np.linalg.svd(X, full_matrices=False)
    r = int((S > 1e-9 * S.max()).sum())
    return U[:, :r] @ U[:, :r].T


def _design_families(n, rng):
    """(name, matrix) pairs with n rows; small-integer entries so that linear dependence is exact."""
    one = np.ones(n)
    trend = np.arange(n, dtype=float)
    g1 = (np.arange(n) % 2 == 0).astype(float)
    g2 = 1.0 - g1
    h1 = (np.arange(n) < n // 2).astype(float)
    r1 = rng.integers(-3, 4, size=n).astype(float)
    r2 = rng.integers(-3, 4, size=n).astype(float)
    if not np.any(r1):
        r1[0] = 1.0
    A = rng.integers(-2, 3, size=(n, 2)).astype(float)
    A[0, 0] = 1.0; A[1, 1] = 1.0; A[0, 1] = 0.0; A[1, 0] = 0.0
    Bm = rng.integers(-2, 3, size=(2, n + 2)).astype(float)
    Bm[0, 0] = 1.0; Bm[1, 1] = 1.0; Bm[0, 1] = 0.0; Bm[1, 0] = 0.0
    fam = [
        ("full-rank-tall", np.column_stack([one, trend, r1 * r1 + r2])),
        ("intercept+complementary-groups+trend", np.column_stack([one, g1, g2, trend])),
        ("rescaled-duplicate", np.column_stack([trend + 1, 2.5 * (trend + 1)])),
        ("duplicate+other", np.column_stack([r1, h1, r1])),
        ("sum-of-columns", np.column_stack([g1, h1, g1 + h1, g1 - 2 * h1])),
        ("zero-column", np.column_stack([np.zeros(n), trend, one])),
        ("only-zero-column", np.zeros((n, 1))),
        ("wide-rank-2", A @ Bm),
        ("single-column", r1.reshape(n, 1)),
    ]
    return fam


def pca_designs(ck):
    """pca with design_keep / design_resid that are rank-deficient, wide or tall, together and separately.
    Expected values come from projectors built by _span_projector (never from pinv or QR)."""
    from nipy.algorithms.utils.pca import pca
    rng = ck.rng("pca-designs")
    TOL = 1e-8
    n_done = n_skip = 0
    reps = ck.n(1, 4)
    for rep_i in range(reps):
        for n in (5, 6, 8):
            fams = _design_families(n, rng)
            keeps = [("None", None)] + fams
            resids = [("None", None), ("mean", "mean")] + fams
            combos = [(kname, K, rname, Rm) for kname, K in keeps for rname, Rm in resids]
            # kept subspaces NEARLY INSIDE the removed one (large offsets, small perturbations of removed directions): the
            # projection (I - P_resid) P_keep then has only small singular values, and the component count is decided by
            # their RATIO to the largest one (tol_ratio), not by their size
            for rname, Rm in resids[1:]:
                Rb = np.ones((n, 1)) if isinstance(Rm, str) else Rm[:, np.abs(Rm).sum(axis=0) > 0]
                if Rb.shape[1] == 0:
                    continue
                r0 = Rb[:, 0]
                ra = Rb[:, -1] if Rb.shape[1] > 1 else 2.0 * r0
                u1, u2 = (rng.integers(-3, 4, size=n).astype(float) for _ in range(2))
                scale = float(rng.choice([1.0, 30.0, 1000.0]))
                combos.append(("near-nested:offset-regressor", (scale * r0 / max(1.0, np.abs(r0).max()) + u1 * [1.0, 0.1, 0.003][rep_i % 3]
                                                                ).reshape(n, 1), rname, Rm))
                combos.append(("near-nested:two-scales", np.column_stack([r0 + 0.6 * u1, ra + [0.008, 0.05, 0.0005][rep_i % 3] * u2]), rname, Rm))
                combos.append(("near-nested:three-columns", np.column_stack([r0 + 0.02 * u1, ra + 0.02 * u2, r0 - ra + 0.02 * (u1 - u2)]), rname, Rm))
            for ci_, (kname, K, rname, Rm) in enumerate(combos):
                if True:
                    if kname == "None" and rname in ("None", "mean") and rep_i > 0:
                        continue
                    tol_ratio = [0.01, 0.01, 0.1, 0.001][(ci_ + rep_i) % 4]
                    nvox = 3 * n
                    Y = np.round(rng.normal(size=(n, nvox)) * 8) / 4 + 0.25 * rng.normal(size=(n, nvox))
                    standardize = bool((n + len(kname) + len(rname) + rep_i) % 2)
                    as3d = bool((len(kname) + rep_i) % 2)
                    data = Y.reshape(n, 3, n) if as3d else Y
                    Pk = _span_projector(K, n)
                    if isinstance(Rm, str):
                        Pr = np.ones((n, n)) / n
                    elif Rm is None:
                        Pr = np.zeros((n, n))
                    else:
                        Pr = _span_projector(Rm, n)
                    XZ = (np.eye(n) - Pr) @ Pk
                    U, S, _ = np.linalg.svd(XZ)
                    rep = {"n_pts": n, "design_keep": None if K is None else K.tolist(), "design_keep_kind": kname,
                           "design_resid": Rm if (Rm is None or isinstance(Rm, str)) else Rm.tolist(), "design_resid_kind": rname,
                           "standardize": standardize, "data_shape": list(data.shape), "data": data.tolist(), "tol_ratio": tol_ratio,
                           "singular_values_of_projection": S.tolist(),
                           "call": "nipy.algorithms.utils.pca.pca(np.array(data), 0, standardize=standardize, "
                                   "design_keep=np.array(design_keep), design_resid=np.array(design_resid), tol_ratio=tol_ratio)"}
                    if S.max() < 1e-9:
                        # nothing is left after the projections: any behaviour but garbage components is acceptable; skip
                        n_skip += 1
                        continue
                    ratio = S / S.max()
                    if np.any((ratio > tol_ratio / 2.5) & (ratio < tol_ratio * 2.5)) or np.any((ratio > 1e-9) & (ratio < 1e-6)):
                        n_skip += 1        # a ratio too close to tol_ratio (or to rounding noise): the component count is not well defined
                        continue
                    rank = int((ratio > tol_ratio).sum())
                    Ux = U[:, :rank]
                    Pxz = Ux @ Ux.T
                    sig = "keep=%s,resid=%s" % ("near-nested" if kname.startswith("near-nested") else
                                               "deficient" if (K is not None and np.linalg.matrix_rank(K) < K.shape[1]) else "full" if K is not None else "none",
                                               "deficient" if (isinstance(Rm, np.ndarray) and (not np.any(Rm) or np.linalg.matrix_rank(Rm) < Rm.shape[1]))
                                               else "full" if isinstance(Rm, np.ndarray) else str(rname))
                    ck.count(("pca-design", n, kname, rname, rep_i), bucket="pca-design:" + sig)
                    try:
                        res = pca(data, 0, standardize=standardize, design_keep=K, design_resid=Rm, tol_ratio=tol_ratio)
                    except Exception as e:  # noqa
                        ck.fail("pca-design/raises/" + sig, "pca with design_keep=%s, design_resid=%s (n_pts=%d) raised %s: %s"
                                % (kname, rname, n, type(e).__name__, e), rep)
                        continue
                    n_done += 1
                    B, pv = np.asarray(res['basis_vectors']), np.asarray(res['pcnt_var'])
                    # (a) component count = rank of the projection (I - P_resid) P_keep
                    if B.shape != (n, rank) or pv.shape != (rank,) or res['basis_projections'].shape[0] != rank:
                        ck.fail("pca-design/component-count/" + sig,
                                "pca(design_keep=%s, design_resid=%s, n_pts=%d, tol_ratio=%g): %d components returned (basis %s), but the projection "
                                "(I - P_resid) P_keep onto the design spans has %d singular values above tol_ratio * largest (singular values %s)"
                                % (kname, rname, n, tol_ratio, B.shape[1], B.shape, rank, np.round(S[:n], 6).tolist()), rep)
                        continue
                    # (b) basis vectors orthonormal, inside the projected design span, orthogonal to the removed span
                    if np.abs(B.T @ B - np.eye(rank)).max() > TOL:
                        ck.fail("pca-design/basis-not-orthonormal/" + sig, "pca(design_keep=%s, design_resid=%s): basis not orthonormal"
                                % (kname, rname), rep)
                    out_of_span = np.abs(B - Pxz @ B).max()
                    if out_of_span > TOL:
                        ck.fail("pca-design/basis-leaves-design-span/" + sig,
                                "pca(design_keep=%s, design_resid=%s, n_pts=%d): basis vectors leave the span of (I - P_resid) P_keep "
                                "(max deviation %.3g)" % (kname, rname, n, out_of_span), rep)
                    if np.abs(Pr @ B).max() > TOL:
                        ck.fail("pca-design/basis-not-orthogonal-to-removed-span/" + sig,
                                "pca(design_keep=%s, design_resid=%s): basis vectors have a component (%.3g) in the span of design_resid"
                                % (kname, rname, np.abs(Pr @ B).max()), rep)
                    if Rm is None and K is not None and np.abs(B - Pk @ B).max() > TOL:
                        ck.fail("pca-design/basis-leaves-kept-span/" + sig, "pca(design_keep=%s): basis vectors leave the column span of design_keep"
                                % kname, rep)
                    # (c) percent variance and eigen-equation against the covariance of the projected, standardised data
                    Ys = Y
                    if standardize:
                        rres = Y - Pr @ Y
                        rmse = np.sqrt(np.square(rres).sum(axis=0) / n)
                        Ys = Y * np.where(rmse <= 0, 0, 1. / np.where(rmse <= 0, 1, rmse))
                    Cfull = Pxz @ Ys @ Ys.T @ Pxz
                    ev = np.sort(np.linalg.eigvalsh(Cfull))[::-1][:rank]
                    pv_ref = 100 * ev / ev.sum()
                    if np.abs(pv - pv_ref).max() > 1e-7 or np.any(np.diff(pv) > 1e-9) or abs(pv.sum() - 100) > 1e-8:
                        ck.fail("pca-design/pcnt-var/" + sig, "pca(design_keep=%s, design_resid=%s, n_pts=%d): pcnt_var %s, expected %s "
                                "(eigenvalues of the covariance of the data projected on the design span)"
                                % (kname, rname, n, np.round(pv, 6).tolist(), np.round(pv_ref, 6).tolist()), rep)
                    elif np.abs(Cfull @ B - B * ev).max() > 1e-7 * max(1.0, ev.max()):
                        ck.fail("pca-design/not-eigenvectors/" + sig, "pca(design_keep=%s, design_resid=%s): basis vectors are not eigenvectors "
                                "of the projected covariance" % (kname, rname), rep)
                    # (d) the same span in another parametrisation gives the same result (projector depends on the span only)
                    for which in ("keep", "resid"):
                        M = K if which == "keep" else Rm
                        if not isinstance(M, np.ndarray) or not np.any(M):
                            continue
                        M2 = np.column_stack([M[:, ::-1] * 3.0, M[:, :1] - M[:, -1:]])       # reordered, rescaled, one dependent column more
                        kw = dict(design_keep=K, design_resid=Rm)
                        kw["design_" + which] = M2
                        try:
                            r2 = pca(data, 0, standardize=standardize, tol_ratio=tol_ratio, **kw)
                        except Exception as e:  # noqa
                            ck.fail("pca-design/reparametrised-raises/" + sig, "pca raised %s when design_%s was replaced by another matrix "
                                    "with the same column span" % (e, which), dict(rep, reparametrised=which, matrix=M2.tolist()))
                            continue
                        B2, pv2 = np.asarray(r2['basis_vectors']), np.asarray(r2['pcnt_var'])
                        if B2.shape != B.shape or np.abs(pv2 - pv).max() > 1e-7 or \
                                np.abs(B2 @ B2.T - B @ B.T).max() > 1e-7:
                            ck.fail("pca-design/depends-on-parametrisation/" + sig,
                                    "pca changes when design_%s (%s) is replaced by another matrix with the same column span: %d vs %d components, "
                                    "pcnt_var %s vs %s" % (which, kname if which == "keep" else rname, B2.shape[1], B.shape[1],
                                                           np.round(pv2, 6).tolist(), np.round(pv, 6).tolist()),
                                    dict(rep, reparametrised=which, matrix=M2.tolist()))
                    if (kname, rname, n, rep_i) == ("intercept+complementary-groups+trend", "rescaled-duplicate", 6, 0):
                        ck.sample({"call": "pca(data(6,18), design_keep=[1,g1,g2,trend] (rank 3), design_resid=[t+1, 2.5(t+1)] (rank 1))",
                                   "components": int(B.shape[1]), "pcnt_var": np.round(pv, 6).tolist()})
    ck.section("pca_designs", cases=n_done, skipped_near_tol_ratio_or_empty=n_skip,
               families=[f[0] for f in _design_families(5, ck.rng("pca-fam"))], tolerance=TOL)
    ck.trust.append("expected projectors for the design oracles come from numpy.linalg.svd with an explicit rank truncation (1e-9 relative)")


# ============================================================ input classes: dtypes, layouts, magnitudes, collection sizes
def _layouts(arr, rng):
    """The same values in other memory layouts / dtypes are produced by the callers; here: layouts of one array."""
    out = [("C", np.ascontiguousarray(arr)), ("F", np.asfortranarray(arr))]
    big = np.zeros(tuple(2 * s for s in arr.shape), arr.dtype)
    view = big[tuple(slice(None, None, 2) for _ in arr.shape)]
    view[...] = arr
    out.append(("strided-view", view))
    rev = np.ascontiguousarray(arr[::-1])[::-1]
    out.append(("negative-stride", rev))
    if arr.ndim >= 2:
        out.append(("transposed-base", np.ascontiguousarray(arr.swapaxes(0, -1)).swapaxes(0, -1)))
    return out


def input_classes(ck):
    """Results must not depend on the dtype / memory layout of the inputs (beyond the precision of a float32 input), on the
    magnitude of integer data, or on the number of masks in a collection: every routine is compared with the same call on a
    C-contiguous float64 copy and with the stated semantics in exact integer arithmetic."""
    from nipy.algorithms.utils.pca import pca
    from nipy.labs import mask as nm
    from nipy.core.api import Image, AffineTransform
    rng = ck.rng("input-classes")
    # ------------------------------------------------------------ pca
    n_pca = 0
    for ci in range(ck.n(12, 60)):
        nd = 2 + ci % 3
        npts = int(rng.integers(4, 7))
        shape = [int(rng.integers(2, 5)) for _ in range(nd)]
        axis_pos = ci % nd
        shape[axis_pos] = npts
        while int(np.prod(shape)) // npts < npts + 2:
            k = (axis_pos + 1) % nd
            shape[k] += 1
        shape = tuple(shape)
        base = rng.integers(-3000, 3000, size=shape)
        vshape = shape[:axis_pos] + shape[axis_pos + 1:]
        mbase = rng.random(vshape) < 0.7
        mbase.reshape(-1)[:npts + 1] = True
        standardize = bool(ci % 2)
        axis = axis_pos if ci % 4 < 2 else axis_pos - nd
        ref = None
        variants = []
        for dt in (np.float64, np.float32, np.int16, np.int32, np.int64, np.uint8, np.uint16):
            vals = base
            if np.dtype(dt).kind == "u":
                vals = np.abs(base) % (np.iinfo(dt).max + 1)
            elif np.dtype(dt).kind == "f":
                vals = base / 8.0
            variants.append((np.dtype(dt).name, "C", vals.astype(dt)))
        f64 = variants[0][2]
        variants += [("float64", lay, a) for lay, a in _layouts(f64, rng)[1:]]
        variants += [("int16", lay, a) for lay, a in _layouts(variants[2][2], rng)[1:3]]
        for dname, lay, arr in variants:
            for mname, mk in (("none", None), ("bool", mbase), ("uint8", mbase.astype(np.uint8)), ("float64", mbase.astype(float)),
                              ("int64-F", np.asfortranarray(mbase.astype(np.int64)))):
                if mname not in ("none", "bool") and (dname, lay) not in (("float64", "C"), ("int16", "C")):
                    continue
                kind = ("layout:" + lay) if lay != "C" else ("int" if np.dtype(arr.dtype).kind in "iu" else dname)
                feat = "%s,mask=%s" % (kind, mname)
                rp = {"shape": list(shape), "axis": axis, "dtype": dname, "layout": lay, "mask_dtype": mname, "standardize": standardize,
                      "data": arr.tolist(), "mask": None if mk is None else np.asarray(mk).astype(int).tolist(),
                      "call": "pca(np.array(data, dtype).<layout>, axis, mask=np.array(mask, mask_dtype), standardize=standardize, ncomp=2) "
                              "vs the same call on np.ascontiguousarray(data, float64)"}
                ck.count(("pca-dtype", ci, dname, lay, mname), bucket="pca-dtype:" + feat)
                n_pca += 1
                try:
                    r0 = pca(np.ascontiguousarray(arr, dtype=np.float64), axis, mask=None if mk is None else np.ascontiguousarray(mk, dtype=bool),
                             standardize=standardize, ncomp=2)
                    r = pca(arr, axis, mask=mk, standardize=standardize, ncomp=2)
                except Exception as e:  # noqa
                    ck.fail("pca-dtype/raises/" + kind, "pca on a %s %s array (mask %s) raised %s: %s" % (dname, lay, mname, type(e).__name__, e), rp)
                    continue
                for key in ("basis_vectors", "pcnt_var", "basis_projections"):
                    if np.asarray(r[key]).dtype != np.float64:
                        ck.fail("pca-dtype/output-dtype/%s" % kind, "pca on a %s array returns %s of dtype %s (float64 for float64 input): the result "
                                "precision depends on the input dtype" % (dname, key, np.asarray(r[key]).dtype), rp)
                # float32 data with standardize=True goes through float32 residuals (1e-7 relative); everything else is exact conversion
                tol = 1e-4 if (dname == "float32" and standardize) else 1e-9
                sg = _pca_align(np.asarray(r["basis_vectors"]), np.asarray(r0["basis_vectors"]))
                pscale = max(1.0, float(np.abs(r0["basis_projections"]).max()))
                bad = None
                if np.abs(np.asarray(r["pcnt_var"]) - r0["pcnt_var"]).max() > tol * 100:
                    bad = "pcnt_var"
                elif np.abs(np.asarray(r["basis_vectors"]) * sg - r0["basis_vectors"]).max() > max(tol, 1e-7):
                    bad = "basis_vectors"
                else:
                    pr = np.moveaxis(np.asarray(r["basis_projections"], dtype=float), axis_pos, 0) * sg[:2].reshape((2,) + (1,) * (nd - 1))
                    p0 = np.moveaxis(np.asarray(r0["basis_projections"]), axis_pos, 0)
                    if pr.shape != p0.shape or np.abs(pr - p0).max() > max(tol, 1e-7) * pscale:
                        bad = "basis_projections (max abs difference %.3g, scale %.3g)" % (
                            np.abs(pr - p0).max() if pr.shape == p0.shape else float("nan"), pscale)
                if bad:
                    ck.fail("pca-dtype/differs-from-float64/%s" % kind, "pca on a %s %s-layout array (mask dtype %s, standardize=%s): %s differs from the "
                            "result on the float64 C-contiguous copy of the same values" % (dname, lay, mname, standardize, bad), rp)
    # ------------------------------------------------------------ compute_mask: dtypes and magnitudes
    n_cm = 0
    cm_terms, cm_meta = [], []
    regimes = []
    for dt in (np.uint8, np.int16, np.uint16, np.int32, np.int64, np.float32, np.float64):
        d = np.dtype(dt)
        top = np.iinfo(d).max if d.kind in "iu" else 30000
        top = min(int(top), 2 ** 20)
        regimes.append((d, "small", (0, max(2, top // 64)), (top // 8, top // 6)))
        regimes.append((d, "upper-half", (top // 2 + top // 16, top // 2 + top // 8), (top - top // 8, top - 1)))
        if d.kind in "if":
            regimes.append((d, "signed-spread", (-top + 1, -top + top // 8), (top - top // 8, top - 1)))
    for d, regime, lo, hi in regimes:
        for rep_i in range(ck.n(2, 6)):
            shape = [(3, 3, 3), (4, 3, 2), (4, 4, 4)][rep_i % 3]
            v = np.where(rng.random(shape) < 0.5, rng.integers(lo[0], lo[1] + 1, size=shape), rng.integers(hi[0], hi[1] + 1, size=shape)).astype(d)
            m, M = [(0.25, 0.875), (0.125, 0.75), (0.2, 0.9)][rep_i % 3]
            lays = _layouts(v, rng) if rep_i == 0 else [("C", v)]
            for lay, vv in lays:
                n_cm += 1
                narrow_overflow = d.kind in "iu" and (2 * int(np.abs(v.astype(np.int64)).max()) > np.iinfo(d).max
                                                      or int(v.astype(np.int64).max()) - int(v.astype(np.int64).min()) > np.iinfo(d).max)
                ck.count(("cm-dtype", d.name, regime, rep_i, lay), bucket="mask-dtype:%s:%s" % (d.name, regime))
                rp = {"dtype": d.name, "layout": lay, "regime": regime, "shape": list(shape), "m": m, "M": M, "mean_volume": v.ravel().tolist(),
                      "call": "compute_mask(np.array(mean_volume, dtype).reshape(shape), None, m, M, cc=False, opening=0)"}
                thr = _ref_threshold(v.ravel().astype(np.float64), m, M, False)
                want = None if thr is None else np.array([Fraction(int(x)) if d.kind in "iu" else Fraction(*float(x).as_integer_ratio()) for x in v.ravel()]) >= thr
                try:
                    got = np.asarray(nm.compute_mask(vv, None, m, M, cc=False, opening=0)).ravel()
                except ValueError:
                    got = None
                if want is None:
                    continue
                if got is None or not np.array_equal(got, want):
                    sig = ("compute_mask/narrow-integer-dtype/arithmetic-overflow" if narrow_overflow
                           else "compute_mask/dtype-dependence/%s" % ("layout" if lay != "C" else d.name))
                    ck.fail(sig, "compute_mask on a %s volume (%s values, layout %s): %s; the stated rule (reference >= mid-point %s of the first "
                            "largest gap in the sorted window, exact arithmetic) selects %d voxels; the float64 copy of the volume gives %s"
                            % (d.name, regime, lay, "raised ValueError" if got is None else "selects %d voxels" % int(got.sum()), thr, int(want.sum()),
                               int(np.asarray(nm.compute_mask(v.astype(np.float64), None, m, M, cc=False, opening=0)).sum())), rp)
                if lay == "C" and rep_i == 0:
                    cm_terms.append("obools_eqb (compute_mask_raw %s %s %s %s false) %s" % (
                        cql([frac(float(x)) for x in v.ravel()]), cql([frac(float(x)) for x in v.ravel()]), cq(m), cq(M), _obools(got)))
                    cm_meta.append((("compute_mask/narrow-integer-dtype/arithmetic-overflow" if narrow_overflow else "compute_mask/model-vs-impl/dtype"), rp))
    # ------------------------------------------------------------ intersect_masks / compute_mask_sessions: collection size and dtypes
    n_int = 0
    im_terms, im_meta = [], []
    sizes = [1, 2, 5, 127, 128, 129, 200, 300] if not ck.thorough() else [1, 2, 3, 5, 64, 127, 128, 129, 130, 200, 255, 256, 257, 300, 520]
    for n in sizes:
        for dt in (np.bool_, np.int8, np.uint8, np.int16, np.int64, np.float32, np.float64):
            shape = (2, 2, 3)
            ms = [(rng.random(shape) < 0.93) for _ in range(n)]
            for mm in ms:
                mm[0, 0, 0] = True        # one voxel in every mask
                mm[1, 1, 2] = False       # one voxel in none
            count = np.sum([mm.astype(np.int64) for mm in ms], axis=0)
            typed = [mm.astype(dt) for mm in ms]
            for thr in (0.0, 0.5, 0.75, 1.0):
                n_int += 1
                ck.count(("intersect-dtype", n, np.dtype(dt).name, thr), bucket="mask-votes:%s:n%s" % (np.dtype(dt).name, ">=128" if n >= 128 else "<=127"))
                rp = {"n_masks": n, "dtype": np.dtype(dt).name, "threshold": thr, "shape": list(shape), "votes_per_voxel": count.ravel().tolist(),
                      "call": "intersect_masks([np.array(m, dtype) for m in masks], threshold=thr, cc=False); masks are random 0/1 arrays, "
                              "votes_per_voxel is their exact sum", "masks_first_3": [mm.astype(int).ravel().tolist() for mm in ms[:3]]}
                keep = [t.copy() for t in typed]
                try:
                    got = np.asarray(nm.intersect_masks(typed, threshold=thr, cc=False))
                except Exception as e:  # noqa
                    ck.fail("intersect_masks/raises/%s" % np.dtype(dt).name, "intersect_masks(%d masks of dtype %s, threshold=%r) raised %s: %s"
                            % (n, np.dtype(dt).name, thr, type(e).__name__, e), rp)
                    continue
                want = (count == n) if thr == 1.0 else (count > Fraction(*thr.as_integer_ratio()) * n)
                if not np.array_equal(got, want):
                    ck.fail("intersect_masks/vote-count/n%s/%s" % (">=128" if n >= 128 else "<=127", np.dtype(dt).name),
                            "intersect_masks(%d masks of dtype %s, threshold=%r, cc=False) keeps voxels %s; with %s votes per voxel the rule "
                            "count > threshold*n keeps %s" % (n, np.dtype(dt).name, thr, got.astype(int).ravel().tolist(), count.ravel().tolist(),
                                                              want.astype(int).ravel().tolist()), rp)
                if any(not np.array_equal(a, b) for a, b in zip(keep, typed)):
                    ck.fail("intersect_masks/mutates-input-masks", "intersect_masks changed one of the %d input masks (dtype %s)" % (n, np.dtype(dt).name), rp)
                if dt in (np.bool_, np.int8, np.float64) and thr in (0.5, 1.0) and n in (5, 127, 128, 300):
                    tn = min(thr, 1 - 1.e-7) * n
                    im_terms.append("bools_eqb (intersect_sel %s (intersect_counts %s)) %s" % (
                        cq(tn), clist([czl(mm.astype(int).ravel()) for mm in ms]), clist([cbool(bool(b)) for b in got.ravel()])))
                    im_meta.append(("intersect_masks/model-vs-impl/n%s" % (">=128" if n >= 128 else "<=127"), rp))
    # compute_mask_sessions: votes over sessions
    vols = []
    for k in range(3):
        shape = (4, 4, 3)
        vols.append(np.where(rng.random(shape) < 0.5, rng.integers(0, 5, size=shape), rng.integers(30 + 3 * k, 40, size=shape)).astype(float))
    single = [np.asarray(nm.compute_mask(v, None, cc=False, opening=0)) for v in vols]
    cmap = AffineTransform.from_params('ijk', 'xyz', np.eye(4))
    n_ses = 0
    for n in ([1, 2, 5, 127, 128, 200] if not ck.thorough() else [1, 2, 5, 64, 127, 128, 129, 200, 256, 300]):
        imgs = [Image(vols[k % 3], cmap) for k in range(n)]
        count = np.sum([single[k % 3].astype(np.int64) for k in range(n)], axis=0)
        for thr in (0.0, 0.5, 0.9):
            n_ses += 1
            ck.count(("sessions", n, thr), bucket="mask-votes:sessions:n%s" % (">=128" if n >= 128 else "<=127"))
            rp = {"n_sessions": n, "threshold": thr, "volumes": [v.ravel().tolist() for v in vols], "shape": [4, 4, 3],
                  "call": "compute_mask_sessions([Image(volumes[k % 3].reshape(4,4,3), identity) for k in range(n)], threshold=thr, cc=False, opening=0)",
                  "votes_per_voxel": count.ravel().tolist()}
            try:
                got = np.asarray(nm.compute_mask_sessions(imgs, threshold=thr, cc=False, opening=0))
            except Exception as e:  # noqa
                ck.fail("compute_mask_sessions/raises", "compute_mask_sessions(%d sessions) raised %s: %s" % (n, type(e).__name__, e), rp)
                continue
            want = count > Fraction(*thr.as_integer_ratio()) * n
            if not np.array_equal(got, want):
                ck.fail("compute_mask_sessions/vote-count/n%s" % (">=128" if n >= 128 else "<=127"),
                        "compute_mask_sessions(%d sessions, threshold=%r, cc=False, opening=0) keeps %d voxels; the per-session masks give votes %s "
                        "and the rule count > threshold*n keeps %d" % (n, thr, int(got.sum()), count.ravel().tolist(), int(want.sum())), rp)
    # largest_cc / threshold_connect_components: mask dtype
    for ci in range(ck.n(10, 40)):
        mk = rng.random((3, 4, 3)) < 0.4
        mk[0, 0, 0] = True
        ref = nm.largest_cc(mk)
        for dt in (np.uint8, np.int16, np.int64, np.float32, np.float64):
            ck.count(("cc-dtype", ci, np.dtype(dt).name), bucket="mask-dtype:largest_cc")
            if not np.array_equal(nm.largest_cc(np.asfortranarray(mk.astype(dt))), ref):
                ck.fail("largest_cc/dtype-dependence/%s" % np.dtype(dt).name, "largest_cc of a %s mask differs from the bool mask" % np.dtype(dt).name,
                        {"mask": mk.astype(int).ravel().tolist(), "shape": [3, 4, 3], "dtype": np.dtype(dt).name})
    # ---- correspondence with the Coq model (counts in Z, intensities in Q: no machine-integer range)
    n_cmp = 0
    if ck.build is not None and ck.build.ok:
        for name, tt, mm in (("cmd", cm_terms, cm_meta), ("imd", im_terms, im_meta)):
            res = ck.coq_bools(HDR_MASK, tt, shard=40, name=name)
            n_cmp += len(res)
            ck.cov["traces_validated_against_impl"] += len(res)
            for ok, (sig, rp) in zip(res, mm):
                if not ok:
                    ck.fail(sig, "Coq model (exact rational / unbounded integer arithmetic) and implementation disagree: %s" % rp["call"], rp)
    ck.section("input_classes", pca_dtype_layout_cases=n_pca, compute_mask_dtype_cases=n_cm, intersect_many_masks_cases=n_int,
               sessions_cases=n_ses, model_cases=n_cmp, collection_sizes=sizes)


# ---------------------------------------------------------------- compute_mask post-processing pipeline
HDR_MORPH = ("From Coq Require Import List ZArith QArith.\nFrom NV.Lib Require Import Harness.\n"
             "From NV.C19 Require Import MaskModel MorphModel.\n")


def _my_erode(x):
    """face-neighbour erosion, outside = 0 (independent of scipy: padded shifts)"""
    p = np.pad(x, 1, constant_values=False)
    out = p.copy()
    for ax in range(x.ndim):
        out &= np.roll(p, 1, axis=ax) & np.roll(p, -1, axis=ax)
    return out[tuple(slice(1, -1) for _ in range(x.ndim))]


def _my_dilate(x):
    p = np.pad(x, 1, constant_values=False)
    out = p.copy()
    for ax in range(x.ndim):
        out |= np.roll(p, 1, axis=ax) | np.roll(p, -1, axis=ax)
    return out[tuple(slice(1, -1) for _ in range(x.ndim))]


def _my_opening(x, k):
    x = np.asarray(x, bool)
    for _ in range(k):
        x = _my_erode(x)
    for _ in range(k):
        x = _my_dilate(x)
    return x


def _first_largest(mask):
    comps = _components(mask)
    out = np.zeros(mask.shape, bool)
    if comps:
        big = max(len(c) for c in comps)
        for p in [c for c in comps if len(c) == big][0]:
            out[p] = True
    return out


def _structured_object(rng, shape):
    """Random boxes (cubes, 1-2 voxel thick plates, rods) in separate slabs along axis 0, so that they are distinct
    components unless joined - with probability 1/2 each - by a one-voxel-thick path: objects on which opening and
    component selection interact in every way (split components, thin largest component, ties, nothing left)."""
    obj = np.zeros(shape, bool)
    nreg = int(rng.integers(2, 4))
    edges = np.linspace(0, shape[0], nreg + 1).astype(int)
    centres = []
    for r in range(nreg):
        lo0, hi0 = int(edges[r]), int(edges[r + 1]) - 1            # leave one empty plane between slabs
        kind = int(rng.integers(0, 4))
        size = [max(1, hi0 - lo0)] + [int(rng.integers(3, n + 1)) for n in shape[1:]]
        size[0] = int(rng.integers(1, size[0] + 1))
        if kind == 1:                                               # plate: wide, 1-2 voxels thick
            size = [max(1, hi0 - lo0)] + [int(rng.integers(max(3, n - 2), n + 1)) for n in shape[1:]]
            size[int(rng.integers(0, len(shape)))] = int(rng.integers(1, 3))
        elif kind == 2:                                             # rod
            ax = int(rng.integers(0, len(shape)))
            size = [sz if k == ax else int(rng.integers(1, 3)) for k, sz in enumerate(size)]
        size = [max(1, min(sz, n)) for sz, n in zip(size, [hi0 - lo0] + list(shape[1:]))]
        lo = [lo0 + int(rng.integers(0, (hi0 - lo0) - size[0] + 1))] + [int(rng.integers(0, n - sz + 1)) for sz, n in zip(size[1:], shape[1:])]
        obj[tuple(slice(a, a + sz) for a, sz in zip(lo, size))] = True
        centres.append([a + sz // 2 for a, sz in zip(lo, size)])
    for r in range(nreg - 1):
        if rng.random() < 0.65:
            p = list(centres[r])
            for ax in rng.permutation(len(shape)):
                step = 1 if centres[r + 1][ax] >= p[ax] else -1
                while p[ax] != centres[r + 1][ax]:
                    obj[tuple(p)] = True
                    p[ax] += step
            obj[tuple(p)] = True
    return obj


def mask_pipeline(ck):
    """compute_mask = threshold, then (cc) largest connected component of the thresholded volume, then (opening > 0)
    binary opening as post-processing - checked as a composition, on objects where the steps do not commute."""
    from scipy import ndimage
    from nipy.labs import mask as nm
    rng = ck.rng("mask-pipeline")
    ncase = ck.n(60, 400)
    terms, meta = [], []
    n = {"commute": 0, "non-commuting": 0}
    for ci in range(ncase):
        shape = [(12, 9, 8), (14, 8, 7), (9, 9, 9), (12, 10, 6), (8, 7, 13)][ci % 5]
        obj = _structured_object(rng, shape)
        if not obj.any() or obj.all():
            continue
        vol = rng.integers(0, 64, size=shape) / 64.0 + 100.0 * obj
        a, b = [(1.0, 0.0), (3.5, 40.0), (0.25, -8.0)][ci % 3]
        vol = a * vol + b
        m, M = (0.2, 0.9) if ci % 2 else (0.03125, 0.96875)       # defaults / a wide window (objects of 3%..97% of the volume)
        thresholded = np.asarray(nm.compute_mask(vol, None, m, M, cc=False, opening=0))
        big = _first_largest(thresholded)
        lab, nb = ndimage.label(thresholded)
        for k in ((1, 2) if ci % 3 else (1, 3)) + ((0,) if ci % 7 == 0 else ()):
            want = _my_opening(big, k)
            other_order = _first_largest(_my_opening(thresholded, k))
            feat = "commute" if np.array_equal(want, other_order) else "non-commuting"
            n[feat] += 1
            ck.count(("mask-pipeline", ci, k), nontrivial=True, bucket="mask-pipeline:%s,opening=%d" % (feat, k))
            rp = {"shape": list(shape), "opening": k, "object": obj.astype(int).ravel().tolist(), "scale": a, "offset": b,
                  "mean_volume": vol.ravel().tolist(),
                  "m": m, "M": M,
                  "call": "compute_mask(np.array(mean_volume).reshape(shape), None, m, M, cc=True, opening=opening)",
                  "thresholded_voxels": int(thresholded.sum()), "components": [len(c) for c in _components(thresholded)]}
            try:
                got = np.asarray(nm.compute_mask(vol, None, m, M, cc=True, opening=k))
                got_nocc = np.asarray(nm.compute_mask(vol, None, m, M, cc=False, opening=k))
            except Exception as e:  # noqa
                ck.fail("compute_mask/pipeline/raises/%s" % feat, "compute_mask(cc=True, opening=%d) raised %s: %s" % (k, type(e).__name__, e), rp)
                continue
            if not np.array_equal(got, want):
                ck.fail("compute_mask/pipeline/cc-then-opening/%s" % feat,
                        "compute_mask(cc=True, opening=%d) on a %s volume (thresholded components of sizes %s): %d voxels; the largest component "
                        "of the thresholded volume opened %d times has %d voxels (largest component of the opened thresholded volume: %d)"
                        % (k, shape, rp["components"], int(got.sum()), k, int(want.sum()), int(other_order.sum())), rp)
            if np.any(got & ~big):
                ck.fail("compute_mask/pipeline/result-outside-largest-component/%s" % feat,
                        "compute_mask(cc=True, opening=%d) contains %d voxels outside the largest connected component of the thresholded volume"
                        % (k, int((got & ~big).sum())), rp)
            if not np.array_equal(got_nocc, _my_opening(thresholded, k)):
                ck.fail("compute_mask/pipeline/opening-only", "compute_mask(cc=False, opening=%d) is not the binary opening (face neighbours, "
                        "outside = 0) of the thresholded volume" % k, rp)
            if len(terms) < ck.n(24, 120) and (feat == "non-commuting" or ci % 6 == 0):
                terms.append("obools_eqb (postprocess %s %s true %s %s %s) (Some %s)" % (
                    cnatl(shape), clist([cbool(bool(x)) for x in thresholded.ravel()]), cnatl(lab.ravel()), cnat(nb), cnat(k),
                    clist([cbool(bool(x)) for x in got.ravel()])))
                meta.append(("compute_mask/pipeline/model-vs-impl/%s" % feat, rp))
        if ci == 2:
            ck.sample({"call": "compute_mask(volume %s with a union-of-boxes object, cc=True, opening=k)" % (shape,),
                       "thresholded_components": [len(c) for c in _components(thresholded)], "largest_then_opened_1": int(_my_opening(big, 1).sum())})
    n_cmp = 0
    if ck.build is not None and ck.build.ok:
        res = ck.coq_bools(HDR_MORPH, terms, shard=6, name="morph")
        n_cmp = len(res)
        ck.cov["traces_validated_against_impl"] += n_cmp
        for ok, (sig, rp) in zip(res, meta):
            if not ok:
                ck.fail(sig, "Coq model of the post-processing (largest_cc selection given ndimage.label's labels, then opening) and "
                        "compute_mask(cc=True, opening=%d) disagree" % rp["opening"], rp)
    ck.section("mask_pipeline", cases=sum(n.values()), non_commuting=n["non-commuting"], commuting=n["commute"], model_cases=n_cmp)


def run(ck):
    ck.cov["rule"] = ("slice timing: every registered schedule name x n_slices 1..N x TR set (exhaustive over n in range; "
                      "non-trivial when n>1; distinct by (name,n,TR)).  time_slice_diffs: shapes of 2..5 dims with extents 1..4 "
                      "(quick: all 2-d/3-d + a deterministic sample of 4-d/5-d; thorough: all 1360) x every ordered axis pair x "
                      "{non-negative, negative, None} spellings, data 81*int in [-8,8]; non-trivial when T>1 and a volume has >1 voxel.  "
                      "mask: small 3-d volumes (ties/zeros, ints, dyadics, bimodal) x 7 (m,M) windows x exclude_zeros; 1..5 random masks x "
                      "thresholds j/10; random 3-d masks for components.  generators: all shapes of 1..4 dims extents 1..3 x int axes, "
                      "axis lists of 1..4 entries.  pca: random float arrays x axis x mask x standardize x designs (tolerance 1e-10); pca designs: 9 design families (full rank, collinear, "
                      "rescaled duplicate, zero column, wide rank-2, ...) for design_keep x the same + mean/None for design_resid x n_pts 5,6,8")
    ck.coq_build()
    ck.overlay()
    slicetiming(ck)
    timediff(ck)
    masks(ck)
    mask_pipeline(ck)
    generators(ck)
    pca_oracles(ck)
    pca_designs(ck)
    input_classes(ck)
