"""C19 - array-level analyses respect axis conventions and decompositions.

Sections:
  slicetiming   translated fragment (Generated/SliceTiming.v) + theorems for all n;
                correspondence of the translated model with the running code;
                documented-order oracle evaluated on the implementation.
"""
from fractions import Fraction

import numpy as np

from ..kit import cnat, cnatl, cstr

HDR = ("From Coq Require Import String.\nFrom Coq Require Import List Arith.\n"
       "From NV.Lib Require Import SlotAlg.\nFrom NV.Generated Require Import SliceTiming.\n"
       "From NV.C19 Require Import Model.\n")


# documented acquisition orders (independent re-statement of the docstrings; mirrors Model.doc_table)
def _eo(n):
    return list(range(0, n, 2)) + list(range(1, n, 2))


def _oe(n):
    return list(range(1, n, 2)) + list(range(0, n, 2))


def _half(n):
    c = (n + 1) // 2
    return [k // 2 if k % 2 == 0 else c + k // 2 for k in range(n)]


DOC = {
    "st_01234": lambda n: list(range(n)),
    "st_43210": lambda n: [n - 1 - k for k in range(n)],
    "st_02413": _eo,
    "st_13024": _oe,
    "st_42031": lambda n: [n - 1 - v for v in _eo(n)],
    "st_odd0_even1": lambda n: _oe(n) if n % 2 == 0 else _eo(n),
    "st_03142": _half,
    "st_41302": lambda n: [n - 1 - v for v in _half(n)],
}
ALIASES = {"ascending": "st_01234", "descending": "st_43210", "asc_alt_2": "st_02413",
           "asc_alt_2_1": "st_13024", "desc_alt_2": "st_42031", "asc_alt_siemens": "st_odd0_even1",
           "asc_alt_half": "st_03142", "desc_alt_half": "st_41302"}


def slicetiming(ck):
    from nipy.algorithms.slicetiming import timefuncs as tf
    reg = tf.SLICETIME_FUNCTIONS
    # registry oracle: documented names all present, and resolve to the documented schedule
    expected = {}
    for long in DOC:
        expected[long] = long
        expected[long[3:]] = long
    expected.update(ALIASES)
    for k, tgt in expected.items():
        if k not in reg:
            ck.fail("slicetiming/registry-missing", "schedule name %r is not registered" % k,
                    {"name": k})
    nmax = ck.n(48, 200)
    TRs = [1.0, 2.0, 2.5] if not ck.thorough() else [1.0, 2.0, 2.5, 0.72, 3.0]
    terms = []
    meta = []
    for name in sorted(reg):
        tgt = expected.get(name)
        for n in range(1, nmax + 1):
            slots = None
            for TR in TRs:
                try:
                    t = np.asarray(reg[name](n, TR), dtype=float)
                except Exception as e:  # noqa
                    ck.fail("slicetiming/raises", "%s(%d, %r) raised %s" % (name, n, TR, e),
                            {"name": name, "n": n, "TR": TR})
                    t = None
                    break
                ck.count(("st", name, n, TR), nontrivial=n > 1, bucket="st:n<=8" if n <= 8 else "st:n>8")
                if t.shape != (n,):
                    ck.fail("slicetiming/shape", "%s(%d,%r) has shape %s" % (name, n, TR, t.shape),
                            {"name": name, "n": n, "TR": TR})
                    t = None
                    break
                s = np.rint(t * n / TR).astype(int)
                if np.max(np.abs(t - s * TR / n)) > 1e-9 * TR:
                    ck.fail("slicetiming/not-on-slot-grid",
                            "%s(%d,%r) returns times that are not slot*TR/n: %s" % (name, n, TR, t.tolist()),
                            {"name": name, "n": n, "TR": TR, "times": t.tolist()})
                if slots is None:
                    slots = s.tolist()
                elif slots != s.tolist():
                    ck.fail("slicetiming/TR-dependent-order", "%s(%d,.) slot order depends on TR" % (name, n),
                            {"name": name, "n": n})
            if t is None or slots is None:
                continue
            # property oracle on the implementation: one distinct slot per slice, documented order
            if sorted(slots) != list(range(n)):
                ck.fail("slicetiming/not-a-permutation",
                        "%s(%d, TR): slots %s are not a permutation of 0..n-1" % (name, n, slots),
                        {"name": name, "n": n, "slots": slots})
            elif tgt is not None:
                acq = DOC[tgt](n)
                if [slots[a] for a in acq] != list(range(n)):
                    ck.fail("slicetiming/documented-order",
                            "%s(%d, TR): slots %s do not follow the documented acquisition order %s" % (name, n, slots, acq),
                            {"name": name, "n": n, "slots": slots, "documented_acquisition_order": acq})
            if name in DOC:
                terms.append("olist_eqb (model_slots src_table %s %s) %s" % (cstr(name), cnat(n), cnatl(slots)))
                meta.append((name, n, slots))
            if n == 5 and name in ("st_02413", "asc_alt_half"):
                ck.sample({"call": "%s(5, 1.0)" % name, "slots": slots})
    # correspondence: translated model (Generated/SliceTiming.v) evaluated by vm_compute vs the running code
    if ck.build is not None and ck.build.ok:
        res = ck.coq_bools(HDR, terms)
        ck.cov["traces_validated_against_impl"] += len(res)
        for ok, (name, n, slots) in zip(res, meta):
            if not ok:
                mv = ck.coq_show(HDR, "model_slots src_table %s %s" % (cstr(name), cnat(n)))
                ck.fail("slicetiming/model-vs-impl",
                        "translated model and implementation disagree for %s(%d): impl slots %s, model %s" % (name, n, slots, mv),
                        {"name": name, "n": n, "impl_slots": slots, "model": mv})
                break
    ck.section("slicetiming", names=len(reg), n_max=nmax, TRs=TRs, model_cases=len(terms))


def run(ck):
    ck.cov["rule"] = ("slice timing: every registered schedule name x n_slices 1..N x TR set (exhaustive over n in range; "
                      "non-trivial when n>1; distinct by (name,n,TR))")
    ck.coq_build()
    ck.overlay()
    slicetiming(ck)
