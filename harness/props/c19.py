"""C19 - array-level analyses respect axis conventions and decompositions.

Sections:
  slicetiming   translated fragment (Generated/SliceTiming.v) + theorems for all n;
                correspondence of the translated model with the running code;
                documented-order oracle evaluated on the implementation.
"""
from fractions import Fraction

import numpy as np

import itertools

from ..kit import cnat, cnatl, cstr, cz, czl, cq, cql, cbool, clist, frac

HDR = ("From Coq Require Import String.\nFrom Coq Require Import List Arith.\n"
       "From NV.Lib Require Import SlotAlg.\nFrom NV.Generated Require Import SliceTiming.\n"
       "From NV.C19 Require Import Model.\n")


# documented acquisition orders (independent re-statement of the docstrings; mirrors Model.doc_table)
def _eo(n):
    return list(range(0, n, 2)) + list(range(1, n, 2))


def _oe(n):
    return list(range(1, n, 2)) + list(range(0, n, 2))


def _half(n):
    c = (n + 1) // 2
    return [k // 2 if k % 2 == 0 else c + k // 2 for k in range(n)]


DOC = {
    "st_01234": lambda n: list(range(n)),
    "st_43210": lambda n: [n - 1 - k for k in range(n)],
    "st_02413": _eo,
    "st_13024": _oe,
    "st_42031": lambda n: [n - 1 - v for v in _eo(n)],
    "st_odd0_even1": lambda n: _oe(n) if n % 2 == 0 else _eo(n),
    "st_03142": _half,
    "st_41302": lambda n: [n - 1 - v for v in _half(n)],
}
ALIASES = {"ascending": "st_01234", "descending": "st_43210", "asc_alt_2": "st_02413",
           "asc_alt_2_1": "st_13024", "desc_alt_2": "st_42031", "asc_alt_siemens": "st_odd0_even1",
           "asc_alt_half": "st_03142", "desc_alt_half": "st_41302"}


def slicetiming(ck):
    from nipy.algorithms.slicetiming import timefuncs as tf
    reg = tf.SLICETIME_FUNCTIONS
    # registry oracle: documented names all present, and resolve to the documented schedule
    expected = {}
    for long in DOC:
        expected[long] = long
        expected[long[3:]] = long
    expected.update(ALIASES)
    for k, tgt in expected.items():
        if k not in reg:
            ck.fail("slicetiming/registry-missing", "schedule name %r is not registered" % k,
                    {"name": k})
    nmax = ck.n(48, 200)
    TRs = [1.0, 2.0, 2.5] if not ck.thorough() else [1.0, 2.0, 2.5, 0.72, 3.0]
    terms = []
    meta = []
    for name in sorted(reg):
        tgt = expected.get(name)
        for n in range(1, nmax + 1):
            slots = None
            for TR in TRs:
                try:
                    t = np.asarray(reg[name](n, TR), dtype=float)
                except Exception as e:  # noqa
                    ck.fail("slicetiming/raises", "%s(%d, %r) raised %s" % (name, n, TR, e),
                            {"name": name, "n": n, "TR": TR})
                    t = None
                    break
                ck.count(("st", name, n, TR), nontrivial=n > 1, bucket="st:n<=8" if n <= 8 else "st:n>8")
                if t.shape != (n,):
                    ck.fail("slicetiming/shape", "%s(%d,%r) has shape %s" % (name, n, TR, t.shape),
                            {"name": name, "n": n, "TR": TR})
                    t = None
                    break
                s = np.rint(t * n / TR).astype(int)
                if np.max(np.abs(t - s * TR / n)) > 1e-9 * TR:
                    ck.fail("slicetiming/not-on-slot-grid",
                            "%s(%d,%r) returns times that are not slot*TR/n: %s" % (name, n, TR, t.tolist()),
                            {"name": name, "n": n, "TR": TR, "times": t.tolist()})
                if slots is None:
                    slots = s.tolist()
                elif slots != s.tolist():
                    ck.fail("slicetiming/TR-dependent-order", "%s(%d,.) slot order depends on TR" % (name, n),
                            {"name": name, "n": n})
            if t is None or slots is None:
                continue
            # property oracle on the implementation: one distinct slot per slice, documented order
            if sorted(slots) != list(range(n)):
                ck.fail("slicetiming/not-a-permutation",
                        "%s(%d, TR): slots %s are not a permutation of 0..n-1" % (name, n, slots),
                        {"name": name, "n": n, "slots": slots})
            elif tgt is not None:
                acq = DOC[tgt](n)
                if [slots[a] for a in acq] != list(range(n)):
                    ck.fail("slicetiming/documented-order",
                            "%s(%d, TR): slots %s do not follow the documented acquisition order %s" % (name, n, slots, acq),
                            {"name": name, "n": n, "slots": slots, "documented_acquisition_order": acq})
            if name in DOC:
                terms.append("olist_eqb (model_slots src_table %s %s) %s" % (cstr(name), cnat(n), cnatl(slots)))
                meta.append((name, n, slots))
            if n == 5 and name in ("st_02413", "asc_alt_half"):
                ck.sample({"call": "%s(5, 1.0)" % name, "slots": slots})
    # correspondence: translated model (Generated/SliceTiming.v) evaluated by vm_compute vs the running code
    if ck.build is not None and ck.build.ok:
        res = ck.coq_bools(HDR, terms)
        ck.cov["traces_validated_against_impl"] += len(res)
        for ok, (name, n, slots) in zip(res, meta):
            if not ok:
                mv = ck.coq_show(HDR, "model_slots src_table %s %s" % (cstr(name), cnat(n)))
                ck.fail("slicetiming/model-vs-impl",
                        "translated model and implementation disagree for %s(%d): impl slots %s, model %s" % (name, n, slots, mv),
                        {"name": name, "n": n, "impl_slots": slots, "model": mv})
                break
    ck.section("slicetiming", names=len(reg), n_max=nmax, TRs=TRs, model_cases=len(terms))


# ============================================================ time_slice_diffs
HDR_TSD = ("From Coq Require Import List ZArith QArith.\nFrom NV.Lib Require Import C19Index Harness.\n"
           "From NV.C19 Require Import TsdModel.\n")
TSD_KEYS = ("volume_mean_diff2", "slice_mean_diff2", "volume_means", "diff2_mean_vol", "slice_diff2_max_vol")


def _tsd_shapes(ck):
    """2..5 dims, extents 1..4 (quick: the 4-d/5-d families are thinned deterministically)."""
    out = []
    for nd in (2, 3, 4, 5):
        alls = list(itertools.product(range(1, 5), repeat=nd))
        if ck.thorough() or nd <= 3:
            out += alls
        else:
            rng = ck.rng("tsd-shapes-%d" % nd)
            keep = rng.choice(len(alls), size=60 if nd == 4 else 40, replace=False)
            out += [alls[i] for i in sorted(keep)]
    return out


def _tsd_reference(arr, ta, sa):
    """Definition in terms of successive-volume squared differences, written with direct NumPy
    indexing on the ORIGINAL axis order (no rollaxis): independent of the implementation."""
    n = arr.ndim
    T, S = arr.shape[ta], arr.shape[sa]
    sav = sa if sa < ta else sa - 1                  # position of the slice axis inside a volume
    vols = [np.take(arr, t, axis=ta) for t in range(T)]
    means = np.array([v.mean() for v in vols])
    d2 = [(vols[t + 1] - vols[t]) ** 2 for t in range(T - 1)]
    other = tuple(k for k in range(n - 1) if k != sav)
    sl = np.array([[np.take(d, s, axis=sav).mean() for s in range(S)] for d in d2]).reshape(T - 1, S)
    vold = np.array([d.mean() for d in d2])
    vshape = vols[0].shape
    if T > 1:
        dmv = sum(d2) / (T - 1)
    else:
        dmv = np.full(vshape, np.nan)
    smv = np.zeros(vshape)
    for s in range(S):
        if T > 1:
            col = sl[:, s]
            tstar = int(np.argmax(col))              # first maximum
            idx = [slice(None)] * (n - 1)
            idx[sav] = s
            smv[tuple(idx)] = d2[tstar][tuple(idx)]
    return {"volume_mean_diff2": vold, "slice_mean_diff2": sl, "volume_means": means,
            "diff2_mean_vol": dmv, "slice_diff2_max_vol": smv}


def _same(a, b):
    a = np.asarray(a, dtype=float)
    b = np.asarray(b, dtype=float)
    return a.shape == b.shape and bool(np.all((a == b) | (np.isnan(a) & np.isnan(b))))


def _qmat(m):
    return clist([cql([frac(x) for x in row]) for row in m])


def timediff(ck):
    from nipy.algorithms.diagnostics.timediff import time_slice_diffs, time_slice_diffs_image
    rng = ck.rng("tsd-data")
    shapes = _tsd_shapes(ck)
    n_model = ck.n(260, 2600)
    cases = []          # candidates for the Coq correspondence
    n_calls = 0
    for shape in shapes:
        nd = len(shape)
        # multiples of 81 = 3^4: every mean (count = product of extents in 1..4) is exact in binary floating point
        arr = (81 * rng.integers(-8, 9, size=shape)).astype(float)
        for ta in range(nd):
            for sa in range(nd):
                variants = [(ta, sa), (ta - nd, sa), (ta, sa - nd), (ta - nd, sa - nd)]
                if ta == sa:
                    for tv, sv in variants:
                        n_calls += 1
                        ck.count(("tsd-same", shape, tv, sv), nontrivial=False, bucket="tsd:same-axis")
                        try:
                            time_slice_diffs(arr, tv, sv)
                            ck.fail("tsd/same-axis-accepted", "time_slice_diffs(shape %s, time_axis=%d, slice_axis=%d) did not raise ValueError"
                                    % (shape, tv, sv), {"shape": shape, "time_axis": tv, "slice_axis": sv})
                        except ValueError:
                            pass
                    if len(shape) <= 3 and max(shape) <= 2:
                        cases.append(("raise", shape, None, ta - nd, sa, None))
                    continue
                default_sa = (nd - 2) if ta == nd - 1 else (nd - 1)
                if sa == default_sa:
                    variants += [(ta, None), (ta - nd, None)]
                ref = _tsd_reference(arr, ta, sa)
                sav = sa if sa < ta else sa - 1
                # default-position call on the axis-moved array (explicit transpose, contiguous copy)
                axes = [ta, sa] + [k for k in range(nd) if k not in (ta, sa)]
                moved = np.ascontiguousarray(arr.transpose(axes))
                try:
                    r0 = time_slice_diffs(moved, 0, 1)
                except Exception as e:  # noqa
                    ck.fail("tsd/raises", "time_slice_diffs(shape %s, 0, 1) raised %s" % (moved.shape, e),
                            {"shape": list(moved.shape), "time_axis": 0, "slice_axis": 1, "data": moved.ravel().tolist()})
                    continue
                for tv, sv in variants:
                    n_calls += 1
                    neg = "neg" if (tv < 0 or (sv is not None and sv < 0)) else "pos"
                    kind = "none" if sv is None else neg
                    nontriv = shape[ta] > 1 and int(np.prod(shape)) > shape[ta]
                    ck.count(("tsd", shape, tv, sv), nontrivial=nontriv, bucket="tsd:%dd:%s" % (nd, kind))
                    rep = {"shape": list(shape), "time_axis": tv, "slice_axis": sv, "data": arr.ravel().tolist()}
                    try:
                        r = time_slice_diffs(arr, tv, sv) if sv is not None else time_slice_diffs(arr, tv)
                    except Exception as e:  # noqa
                        ck.fail("tsd/raises/%s" % kind, "time_slice_diffs(shape %s, %s, %s) raised %s: %s"
                                % (shape, tv, sv, type(e).__name__, e), rep)
                        continue
                    # (a) definition oracle: direct indexing on the original axis order
                    for key in TSD_KEYS:
                        if not _same(r[key], ref[key]):
                            ck.fail("tsd/definition/%s/%s" % (key, kind),
                                    "time_slice_diffs(shape %s, time_axis=%s, slice_axis=%s)[%r] differs from its definition "
                                    "(successive-volume squared differences indexed on the original axes): got %s, expected %s"
                                    % (shape, tv, sv, key, np.asarray(r[key]).tolist(), ref[key].tolist()), rep)
                    # (b) axis equivariance on the implementation itself
                    for key in TSD_KEYS[:3]:
                        if not _same(r[key], r0[key]):
                            ck.fail("tsd/equivariance/%s/%s" % (key, kind),
                                    "time_slice_diffs(shape %s, %s, %s)[%r] differs from the default-position call on the axis-moved array"
                                    % (shape, tv, sv, key), rep)
                    for key in TSD_KEYS[3:]:
                        back = np.moveaxis(r0[key], 0, sav)
                        if not _same(r[key], back):
                            ck.fail("tsd/equivariance/%s/%s" % (key, kind),
                                    "time_slice_diffs(shape %s, %s, %s)[%r] differs from the default-position result transposed back "
                                    "(shape %s vs %s)" % (shape, tv, sv, key, np.asarray(r[key]).shape, back.shape), rep)
                    cases.append(("ok", shape, arr, tv, sv, r))
                    if shape == (2, 3, 2) and (tv, sv) == (-3, 2):
                        ck.sample({"call": "time_slice_diffs(arr(2,3,2), time_axis=-3, slice_axis=2)",
                                   "data": arr.ravel().tolist(),
                                   "slice_mean_diff2": np.asarray(r["slice_mean_diff2"]).tolist(),
                                   "slice_diff2_max_vol": np.asarray(r["slice_diff2_max_vol"]).ravel().tolist()})
    # ---- correspondence with the Coq model (exact, vm_compute)
    n_cmp = 0
    if ck.build is not None and ck.build.ok:
        pick = ck.rng("tsd-pick")
        oks = [c for c in cases if c[0] == "ok"]
        # favour small arrays (fast) but keep every ndim and every axis-variant kind
        oks.sort(key=lambda c: (int(np.prod(c[1])), c[1], c[3], -1 if c[4] is None else c[4]))
        small = [c for c in oks if int(np.prod(c[1])) <= 96]
        big = [c for c in oks if int(np.prod(c[1])) > 96]
        chosen = []
        if small:
            idx = pick.choice(len(small), size=min(len(small), n_model), replace=False)
            chosen += [small[i] for i in sorted(idx)]
        if big:
            idx = pick.choice(len(big), size=min(len(big), max(20, n_model // 10)), replace=False)
            chosen += [big[i] for i in sorted(idx)]
        chosen += [c for c in cases if c[0] == "raise"][:40]
        terms, meta = [], []
        for kind, shape, arr, tv, sv, r in chosen:
            sa_t = "None" if sv is None else "(Some %s)" % cz(sv)
            if kind == "raise":
                terms.append("tsd_raises %s %s %s" % (cnatl(shape), cz(tv), sa_t))
                meta.append((kind, shape, None, tv, sv, None))
                continue
            dmv = np.asarray(r["diff2_mean_vol"], dtype=float)
            isnan = bool(np.isnan(dmv).all()) if dmv.size else False
            if np.isnan(dmv).any() and not isnan:
                ck.fail("tsd/nan-in-output", "diff2_mean_vol has some NaN entries for shape %s" % (shape,),
                        {"shape": list(shape), "time_axis": tv, "slice_axis": sv, "data": arr.ravel().tolist()})
                continue
            e_dmv = "[]" if isnan else cql([frac(x) for x in dmv.ravel()])
            terms.append("tsd_check %s %s %s %s %s %s %s %s %s %s %s" % (
                cnatl(shape), czl([int(x) for x in arr.ravel()]), cz(tv), sa_t,
                cql([frac(x) for x in r["volume_mean_diff2"]]), _qmat(r["slice_mean_diff2"]),
                cql([frac(x) for x in r["volume_means"]]), cnatl(dmv.shape), e_dmv,
                cql([frac(x) for x in np.asarray(r["slice_diff2_max_vol"], dtype=float).ravel()]), cbool(isnan)))
            meta.append((kind, shape, arr, tv, sv, r))
        res = ck.coq_bools(HDR_TSD, terms, shard=60, name="tsd")
        n_cmp = len(res)
        ck.cov["traces_validated_against_impl"] += n_cmp
        for ok, (kind, shape, arr, tv, sv, r) in zip(res, meta):
            if not ok:
                rep = {"shape": list(shape), "time_axis": tv, "slice_axis": sv,
                       "data": None if arr is None else arr.ravel().tolist()}
                if kind == "ok":
                    sa_t = "None" if sv is None else "(Some %s)" % cz(sv)
                    rep["model_slice_mean_diff2"] = ck.coq_show(
                        HDR_TSD, "match tsd (of_flat 0%%Z %s %s) %s %s with Ok o => Some (slice_mean_diff2 o, to_flat (slice_diff2_max_vol o), shp (diff2_mean_vol o)) | _ => None end"
                        % (cnatl(shape), czl([int(x) for x in arr.ravel()]), cz(tv), sa_t))
                    rep["impl"] = {k: np.asarray(r[k]).tolist() for k in TSD_KEYS}
                ck.fail("tsd/model-vs-impl/%s" % ("raise" if kind == "raise" else "none" if sv is None else "neg" if (tv < 0 or sv < 0) else "pos"),
                        "Coq model of time_slice_diffs and the implementation disagree for shape %s, time_axis=%s, slice_axis=%s"
                        % (shape, tv, sv), rep)
                break
    # ---- image wrapper: axis names resolve to the same array call
    n_img = _timediff_image(ck, time_slice_diffs, time_slice_diffs_image)
    ck.section("time_slice_diffs", shapes=len(shapes), impl_calls=n_calls, model_cases=n_cmp, image_cases=n_img,
               data="81 * integers in [-8, 8] (all means exact in binary floating point)")


def _timediff_image(ck, tsd_arr, tsd_img):
    from nipy.core.api import Image, AffineTransform
    rng = ck.rng("tsd-img")
    n = 0
    names_in = "ijkl"
    names_out = "xyzt"
    shapes = [(2, 3, 2, 3), (3, 2, 4), (2, 2, 3, 2), (3, 4)]
    for shape in shapes:
        nd = len(shape)
        arr = (81 * rng.integers(-8, 9, size=shape)).astype(float)
        dom = names_in[:nd]
        ran = names_out[:nd - 1] + "t"
        cmap = AffineTransform.from_params(dom, ran, np.diag([2.0, 3.0, 4.0, 5.0, 1.0][:nd] + [1.0]))
        img = Image(arr, cmap)
        for ta in range(nd):
            for sa in range(nd):
                if ta == sa:
                    continue
                ref = tsd_arr(arr, ta, sa)
                specs = [(ta, sa), (dom[ta], dom[sa]), (ran[ta], sa), (ta - nd, dom[sa]), (dom[ta], ran[sa]), (ta, sa - nd)]
                for tspec, sspec in specs:
                    n += 1
                    ck.count(("tsd-img", shape, tspec, sspec), bucket="tsd:image")
                    rep = {"shape": list(shape), "domain": dom, "range": ran, "time_axis": tspec, "slice_axis": sspec,
                           "data": arr.ravel().tolist()}
                    try:
                        r = tsd_img(img, tspec, sspec)
                    except Exception as e:  # noqa
                        ck.fail("tsd-image/raises", "time_slice_diffs_image(time_axis=%r, slice_axis=%r) raised %s: %s"
                                % (tspec, sspec, type(e).__name__, e), rep)
                        continue
                    for key in TSD_KEYS:
                        got = r[key].get_fdata() if hasattr(r[key], "get_fdata") else r[key]
                        if not _same(got, ref[key]):
                            ck.fail("tsd-image/differs-from-array-call/%s" % key,
                                    "time_slice_diffs_image(time_axis=%r, slice_axis=%r)[%r] differs from time_slice_diffs(arr, %d, %d)"
                                    % (tspec, sspec, key, ta, sa), rep)
                    exp_names = tuple(nm for k, nm in enumerate(dom) if k != ta)
                    for key in TSD_KEYS[3:]:
                        got = tuple(r[key].coordmap.function_domain.coord_names)
                        if got != exp_names:
                            ck.fail("tsd-image/volume-axis-names", "volume output %r has axes %s, expected %s (time axis %r dropped)"
                                    % (key, got, exp_names, tspec), rep)
    return n


# ============================================================ labs/mask.py
HDR_MASK = ("From Coq Require Import List ZArith QArith.\nFrom NV.Lib Require Import Harness.\n"
            "From NV.C19 Require Import MaskModel.\n")


def _components(mask):
    """Independent 6-connectivity labelling (BFS in row-major scan order): list of sorted voxel lists."""
    mask = np.asarray(mask) != 0
    seen = np.zeros(mask.shape, bool)
    comps = []
    for idx in np.ndindex(mask.shape):
        if mask[idx] and not seen[idx]:
            comp, stack = [], [idx]
            seen[idx] = True
            while stack:
                p = stack.pop()
                comp.append(p)
                for ax in range(mask.ndim):
                    for d in (-1, 1):
                        q = list(p)
                        q[ax] += d
                        q = tuple(q)
                        if 0 <= q[ax] < mask.shape[ax] and mask[q] and not seen[q]:
                            seen[q] = True
                            stack.append(q)
            comps.append(sorted(comp))
    return comps


def _ref_threshold(vals, m, M, exclude_zeros):
    """Stated semantics, exact arithmetic: sorted values, window floor(m n)..floor(M n), first largest gap, mid-point."""
    from math import floor
    s = sorted(Fraction(*float(v).as_integer_ratio()) for v in vals)
    if exclude_zeros:
        s = [v for v in s if v != 0]
    n = len(s)
    li, ls = floor(Fraction(*float(m).as_integer_ratio()) * n), floor(Fraction(*float(M).as_integer_ratio()) * n)
    if li < 0 or ls >= n or ls <= li:
        return None
    gaps = [s[k + 1] - s[k] for k in range(li, ls)]
    ia = gaps.index(max(gaps))
    return (s[li + ia] + s[li + ia + 1]) / 2


def _obools(x):
    return "None" if x is None else "(Some %s)" % clist([cbool(bool(b)) for b in x])


def masks(ck):
    import math
    from scipy import ndimage
    from nipy.labs import mask as nm
    rng = ck.rng("mask")
    # ---------------- compute_mask threshold search
    shapes = [(2, 2, 2), (3, 3, 2), (2, 3, 4), (4, 3, 3), (1, 5, 3), (4, 4, 4)]
    windows = [(0.25, 0.875), (0.125, 0.75), (0.2, 0.9), (0.0, 0.5), (0.5, 0.5), (0.375, 0.9375), (0.3, 0.7)]
    ncm = ck.n(140, 1200)
    terms, meta = [], []
    n_aff = 0
    for ci in range(ncm):
        shape = shapes[ci % len(shapes)]
        m, M = windows[(ci // len(shapes)) % len(windows)]
        kind = ci % 4
        if kind == 0:
            vol = rng.integers(0, 6, size=shape).astype(float)              # many ties, zeros
        elif kind == 1:
            vol = rng.integers(-20, 40, size=shape).astype(float)
        elif kind == 2:
            vol = rng.integers(-64, 64, size=shape) / 8.0                   # dyadic
        else:
            vol = np.where(rng.random(shape) < 0.5, rng.integers(0, 4, size=shape), rng.integers(30, 40, size=shape)).astype(float)
        ez = bool((ci // 3) % 2)
        ref = vol if ci % 5 else rng.integers(-20, 40, size=shape).astype(float)
        nvals = int((vol != 0).sum()) if ez else vol.size
        exact_floor = (math.floor(m * nvals) == math.floor(Fraction(*m.as_integer_ratio()) * nvals)
                       and math.floor(M * nvals) == math.floor(Fraction(*M.as_integer_ratio()) * nvals))
        rep = {"shape": list(shape), "m": m, "M": M, "exclude_zeros": ez, "mean_volume": vol.ravel().tolist(),
               "reference_volume": ref.ravel().tolist()}
        try:
            got = nm.compute_mask(vol, ref, m, M, cc=False, opening=0, exclude_zeros=ez)
            got = np.asarray(got).ravel()
            exc = None
        except ValueError as e:
            got, exc = None, "ValueError"
        except Exception as e:  # noqa
            got, exc = None, type(e).__name__
        ck.count(("compute_mask", ci), nontrivial=got is not None and 0 < int(got.sum()) < got.size,
                 bucket="mask:threshold:" + ("raises" if got is None else "ez" if ez else "plain"))
        # property oracle on the implementation: stated threshold semantics
        thr = _ref_threshold(vol.ravel(), m, M, ez) if exact_floor else "skip"
        if thr != "skip":
            if thr is None:
                if got is not None and not (M >= 1 or m < 0):
                    ck.fail("compute_mask/empty-window-accepted", "compute_mask returned a mask although the window [floor(m n), floor(M n)) is empty "
                            "(m=%r, M=%r, n=%d)" % (m, M, nvals), rep)
            else:
                want = np.array([Fraction(*float(v).as_integer_ratio()) >= thr for v in ref.ravel()])
                if got is None:
                    ck.fail("compute_mask/raises", "compute_mask raised %s (m=%r, M=%r, n=%d values)" % (exc, m, M, nvals), rep)
                elif not np.array_equal(got, want):
                    ck.fail("compute_mask/threshold-semantics/%s" % ("exclude_zeros" if ez else "plain"),
                            "compute_mask(m=%r, M=%r, exclude_zeros=%r) on %d values: mask differs from (reference >= mid-point of the first "
                            "largest gap in the sorted window) with threshold %s: got %s, expected %s"
                            % (m, M, ez, nvals, thr, got.astype(int).tolist(), want.astype(int).tolist()), rep)
        if exact_floor and (got is not None or exc == "ValueError"):
            terms.append("obools_eqb (compute_mask_raw %s %s %s %s %s) %s" % (
                cql([frac(x) for x in vol.ravel()]), cql([frac(x) for x in ref.ravel()]), cq(m), cq(M), cbool(ez), _obools(got)))
            meta.append(rep)
        # invariance under positive affine intensity changes, on the full pipeline (cc / opening on)
        if got is not None and ci % 2 == 0:
            a = [0.5, 2.0, 4.0, 0.25, 3.0][ci % 5]
            b = 0.0 if ez else [-3.0, 0.0, 1.5, 16.0][ci % 4]
            for cc, opening in ((False, 0), (True, 0), (True, 1)):
                n_aff += 1
                ck.count(("compute_mask-affine", ci, cc, opening), bucket="mask:affine")
                try:
                    r1 = nm.compute_mask(vol, ref, m, M, cc=cc, opening=opening, exclude_zeros=ez)
                    r2 = nm.compute_mask(a * vol + b, a * ref + b, m, M, cc=cc, opening=opening, exclude_zeros=ez)
                except Exception as e:  # noqa
                    ck.fail("compute_mask/affine-invariance/raises", "compute_mask raised %s on the pair x / %r x + %r" % (e, a, b),
                            dict(rep, a=a, b=b, cc=cc, opening=opening))
                    continue
                if not np.array_equal(r1, r2):
                    ck.fail("compute_mask/affine-invariance", "compute_mask(%r * x + %r) selects different voxels than compute_mask(x) "
                            "(cc=%r, opening=%r, m=%r, M=%r)" % (a, b, cc, opening, m, M), dict(rep, a=a, b=b, cc=cc, opening=opening))
        if ci == 1:
            ck.sample({"call": "compute_mask(vol%s, m=%r, M=%r, cc=False, opening=0)" % (shape, m, M),
                       "vol": vol.ravel().tolist(), "mask": None if got is None else got.astype(int).tolist()})
    # ---------------- intersect_masks threshold rule
    nint = 0
    iterms, imeta = [], []
    for n in range(1, 6):
        for rep_i in range(ck.n(2, 8)):
            shape = [(2, 3, 2), (3, 3, 3), (2, 2, 4)][(n + rep_i) % 3]
            ms = [rng.random(shape) < 0.55 for _ in range(n)]
            count = np.sum([mm.astype(int) for mm in ms], axis=0)
            for j in range(0, 11):
                thr = j / 10.0
                nint += 1
                ck.count(("intersect", n, rep_i, j), bucket="mask:intersect")
                rep = {"n_masks": n, "threshold": thr, "shape": list(shape), "masks": [mm.astype(int).ravel().tolist() for mm in ms]}
                try:
                    got = nm.intersect_masks([mm.copy() for mm in ms], threshold=thr, cc=False)
                except Exception as e:  # noqa
                    ck.fail("intersect_masks/raises", "intersect_masks(%d masks, threshold=%r) raised %s" % (n, thr, e), rep)
                    continue
                want = (count == n) if j == 10 else (count * 10 > j * n)
                if j == 0:
                    want = count > 0
                if not np.array_equal(np.asarray(got), want):
                    ck.fail("intersect_masks/threshold-rule/%s" % ("intersection" if j == 10 else "union" if j == 0 else "level"),
                            "intersect_masks(%d masks, threshold=%r, cc=False): voxel counts %s gave %s, expected count > threshold*n -> %s"
                            % (n, thr, count.ravel().tolist(), np.asarray(got).astype(int).ravel().tolist(), want.astype(int).ravel().tolist()), rep)
                tn = min(thr, 1 - 1.e-7) * n          # the implementation's floating-point product, threaded into the model
                iterms.append("bools_eqb (intersect_sel %s (intersect_counts %s)) %s" % (
                    cq(tn), clist([czl(mm.astype(int).ravel()) for mm in ms]), clist([cbool(bool(b)) for b in np.asarray(got).ravel()])))
                imeta.append(rep)
                if j in (0, 5, 10):
                    gcc = nm.intersect_masks([mm.copy() for mm in ms], threshold=thr, cc=True)
                    comps = _components(want)
                    if comps:
                        big = max(len(c) for c in comps)
                        sel = sorted(map(tuple, np.argwhere(gcc)))
                        if sel not in [c for c in comps if len(c) == big]:
                            ck.fail("intersect_masks/cc-not-largest-component", "intersect_masks(cc=True) is not a largest connected component "
                                    "of the thresholded intersection", rep)
                    elif np.any(gcc):
                        ck.fail("intersect_masks/cc-nonempty-from-empty", "intersect_masks(cc=True) non-empty although nothing passes", rep)
    for thr in (-0.1, 1.5):
        try:
            nm.intersect_masks([np.ones((2, 2, 2), bool)], threshold=thr, cc=False)
            ck.fail("intersect_masks/threshold-out-of-range-accepted", "threshold=%r accepted" % thr, {"threshold": thr})
        except ValueError:
            pass
    # ---------------- largest_cc / threshold_connect_components
    ncc = ck.n(120, 1000)
    cterms, cmeta = [], []
    for ci in range(ncc):
        shape = [(3, 3, 3), (2, 4, 3), (4, 4, 2), (1, 6, 2), (5, 3, 3)][ci % 5]
        dens = [0.3, 0.45, 0.6, 0.15][ci % 4]
        mk = rng.random(shape) < dens
        rep = {"shape": list(shape), "mask": mk.astype(int).ravel().tolist()}
        comps = _components(mk)
        ck.count(("largest_cc", ci), nontrivial=len(comps) > 1, bucket="mask:cc:%s" % ("0" if not comps else "1" if len(comps) == 1 else ">1"))
        try:
            got = nm.largest_cc(mk)
            exc = None
        except ValueError:
            got, exc = None, "ValueError"
        if not comps:
            if got is not None:
                ck.fail("largest_cc/empty-mask-accepted", "largest_cc of an all-False mask did not raise ValueError", rep)
        elif got is None:
            ck.fail("largest_cc/raises", "largest_cc raised ValueError on a non-empty mask", rep)
        else:
            big = max(len(c) for c in comps)
            first_big = [c for c in comps if len(c) == big][0]       # scan-order tie rule (labels are numbered in scan order)
            sel = sorted(map(tuple, np.argwhere(got)))
            if sel != first_big:
                ck.fail("largest_cc/not-largest-component/%s" % ("tie" if sum(len(c) == big for c in comps) > 1 else "unique"),
                        "largest_cc selected %s; components (6-connectivity) have sizes %s, expected the first largest one %s"
                        % (sel, [len(c) for c in comps], first_big), rep)
            # scipy.ndimage.label reference
            lab, nb = ndimage.label(mk)
            sizes = np.bincount(lab.ravel())[1:]
            if not np.array_equal(got, lab == (1 + int(np.argmax(sizes)))):
                ck.fail("largest_cc/differs-from-ndimage-label-reference", "largest_cc differs from labels == argmax(component sizes)", rep)
        lab, nb = ndimage.label(mk)
        cterms.append("obools_eqb (largest_cc_sel %s %s %s) %s" % (
            clist([cbool(bool(b)) for b in mk.ravel()]), cnatl(lab.ravel()), cnat(nb), _obools(None if got is None else got.ravel())))
        cmeta.append(("largest_cc", rep))
        # threshold_connect_components
        vals = np.where(mk, rng.integers(1, 9, size=shape), 0).astype(float)
        thr = [1, 2, 3, 5, 2.5][ci % 5]
        out = nm.threshold_connect_components(vals, thr)
        want = vals.copy()
        for c in comps:
            if len(c) < thr:
                for p in c:
                    want[p] = 0
        rep2 = dict(rep, values=vals.ravel().tolist(), threshold=thr)
        ck.count(("tcc", ci), nontrivial=len(comps) > 1, bucket="mask:threshold_cc")
        if not np.array_equal(out, want):
            ck.fail("threshold_connect_components/semantics", "components of size < %r not (only) removed: got %s, expected %s"
                    % (thr, out.ravel().tolist(), want.ravel().tolist()), rep2)
        cterms.append("qlist_eqb (threshold_cc %s %s %s) %s" % (cql([frac(x) for x in vals.ravel()]), cnatl(lab.ravel()), cq(float(thr)),
                                                           cql([frac(x) for x in out.ravel()])))
        cmeta.append(("threshold_connect_components", rep2))
    # ---------------- series_from_mask extraction order
    nser = _series_from_mask(ck, nm, rng)
    # ---------------- correspondence with the Coq model
    n_cmp = 0
    if ck.build is not None and ck.build.ok:
        for name, tt, mm, sig in (("cm", terms, meta, "compute_mask/model-vs-impl"), ("im", iterms, imeta, "intersect_masks/model-vs-impl"),
                                  ("cc", cterms, cmeta, "components/model-vs-impl")):
            res = ck.coq_bools(HDR_MASK, tt, shard=120, name=name)
            n_cmp += len(res)
            ck.cov["traces_validated_against_impl"] += len(res)
            for ok, rep in zip(res, mm):
                if not ok:
                    extra = ""
                    if name == "cm":
                        extra = ck.coq_show(HDR_MASK, "mask_threshold %s %s %s %s" % (
                            cql([frac(x) for x in rep["mean_volume"]]), cq(rep["m"]), cq(rep["M"]), cbool(rep["exclude_zeros"])))
                    ck.fail(sig, "Coq model and implementation disagree (%s) %s" % (sig.split("/")[0], extra), rep if isinstance(rep, dict) else {"case": rep})
                    break
    ck.section("mask", compute_mask_cases=ncm, affine_pairs=n_aff, intersect_cases=nint, cc_cases=ncc, series_cases=nser, model_cases=n_cmp)


def _series_from_mask(ck, nm, rng):
    import nibabel as nib
    n = 0
    d = ck.scratch / "series"
    d.mkdir(exist_ok=True)
    for k, shape in enumerate([(2, 3, 2), (3, 2, 4)]):
        T = 3 + k
        data = rng.integers(-50, 50, size=shape + (T,)).astype(np.float32)
        mk = rng.random(shape) < 0.5
        mk[0, 0, 0] = True
        f4 = str(d / ("s4_%d.nii" % k))
        nib.save(nib.Nifti1Image(data, np.eye(4)), f4)
        f3 = []
        for t in range(T):
            f = str(d / ("s3_%d_%d.nii" % (k, t)))
            nib.save(nib.Nifti1Image(data[..., t], np.eye(4)), f)
            f3.append(f)
        want = np.array([data[idx] for idx in np.ndindex(shape) if mk[idx]])     # row-major voxel order, (voxel, time)
        for kind, arg in (("4d-file", f4), ("3d-files", f3)):
            n += 1
            ck.count(("series", k, kind), bucket="mask:series")
            got, _hdr = nm.series_from_mask(arg, mk)
            if got.shape != want.shape or not np.array_equal(got, want):
                ck.fail("series_from_mask/order/%s" % kind, "series_from_mask(%s) is not data[mask] in row-major voxel order with shape (voxel, time): "
                        "shape %s vs %s" % (kind, got.shape, want.shape),
                        {"shape": list(shape), "T": T, "mask": mk.astype(int).ravel().tolist(), "data": data.ravel().tolist()})
    return n


def run(ck):
    ck.cov["rule"] = ("slice timing: every registered schedule name x n_slices 1..N x TR set (exhaustive over n in range; "
                      "non-trivial when n>1; distinct by (name,n,TR))")
    ck.coq_build()
    ck.overlay()
    slicetiming(ck)
    timediff(ck)
    masks(ck)
