"""C08 - spatial transforms compose, invert and parametrise consistently.

Sections (each: property oracle on the implementation + exact/1e-9
correspondence with the Coq model NV.C08.Exec evaluated by vm_compute):

  select     36 ordered class pairs: Affine.compose never raises, chooses the class the model chooses
  vec2mat    rotation_vec2mat vs the model's Rodrigues formula; proper rotation; mat2vec round trip
  m44        to_matrix44 for sizes 6, 7, 12 vs the translated expression
  compose    all class pairs x parameter vectors (quarter turns: exact; arbitrary angles: 1e-9)
  inv        inverse maps points back; class kept
  from44     4x4 matrices of both determinant signs -> from_matrix44 -> as_affine; stale _direct flag
  param      param setter/getter round trips with the preconditioner
  chain      ChainTransform.apply = post . optimizable . pre; compose/inv chains up to length 5
  generic    Transform.compose with plain callables; PolyAffine compose / left_compose bookkeeping

The SVD / inverse / cube-root values SciPy returns inside the implementation
are recorded (proxy around `affine.spl`) and threaded into the model as
oracle values.
"""
import itertools
import math
from fractions import Fraction

import numpy as np

from ..kit import cq, cql, cnat, cstr, cbool, clist, frac

HDR = ("From Coq Require Import String.\nFrom Coq Require Import List ZArith QArith.\n"
       "From NV.Lib Require Import RingMat C08Base Harness.\nFrom NV.Generated Require Import AffineClasses AffineClip.\n"
       "From NV.C08 Require Import Model ModelFold Clip Exec.\nOpen Scope string_scope.\n")

CLASSES = ["Affine", "Affine2D", "Rigid", "Rigid2D", "Similarity", "Similarity2D"]
TOL = 1e-9
EPS = Fraction(1, 10 ** 9)


# ---------------------------------------------------------------- literals
def cmatq(M):
    return clist([cql([frac(v) for v in row]) for row in np.asarray(M, dtype=float)])


def cvecq(v):
    return cql([frac(x) for x in np.asarray(v, dtype=float).ravel()])


def snap(x, den=64):
    """Snap an array to multiples of 1/den when every entry is within 1e-9 of one; else None."""
    x = np.asarray(x, dtype=float)
    y = np.round(x * den) / den
    if np.all(np.abs(x - y) < 1e-9):
        return y + 0.0
    return None


class SplProxy:
    """Records what the implementation asks SciPy for (oracle values)."""

    def __init__(self, real):
        self._real = real
        self.svds = []
        self.invs = []

    def svd(self, a, *args, **kw):
        r = self._real.svd(a, *args, **kw)
        self.svds.append((np.array(a, dtype=float), tuple(np.array(x, dtype=float) for x in r)))
        return r

    def inv(self, a, *args, **kw):
        r = self._real.inv(a, *args, **kw)
        self.invs.append((np.array(a, dtype=float), np.array(r, dtype=float)))
        return r

    def __getattr__(self, name):
        return getattr(self._real, name)


class Env:
    pass


def setup(ck):
    from nipy.algorithms.registration import affine as am
    e = Env()
    e.am = am
    e.proxy = SplProxy(am.spl)
    am.spl = e.proxy
    e.m2v = []                      # (R, rotation vector) of every rotation_mat2vec call
    real_m2v = am.rotation_mat2vec
    e.real_m2v = real_m2v

    def rec_m2v(Rm):
        v = real_m2v(Rm)
        e.m2v.append((np.array(Rm, dtype=float), np.array(v, dtype=float)))
        return v
    am.rotation_mat2vec = rec_m2v
    e.cls = {n: getattr(am, n) for n in CLASSES}
    # PolyAffine kernel: count calls in which the Gaussian weights of some point underflow (sum below the
    # kernel's TINY = 1e-200 clamp), i.e. in which the kernel cannot normalise the weights as its docstring says
    from nipy.algorithms.registration import polyaffine as pm
    e.pm = pm
    e.pa_unnormalised = 0
    real_pa = pm._apply_polyaffine

    def rec_pa(txyz, centers, affines, sigma):
        x = np.asarray(txyz, dtype=float)
        c = np.asarray(centers, dtype=float)
        d2 = (((x[:, None, :] - c[None, :, :]) / np.asarray(sigma, dtype=float)) ** 2).sum(axis=2)
        with np.errstate(under="ignore"):
            W = np.exp(-0.5 * d2).sum(axis=1)
        if np.any(W < 1e-200) or not np.all(np.isfinite(x)):
            e.pa_unnormalised += 1
        return real_pa(txyz, centers, affines, sigma)
    pm._apply_polyaffine = rec_pa
    e.fx_owner = {"Affine": "Affine", "Affine2D": "Affine", "Rigid": "Rigid", "Rigid2D": "Rigid",
                  "Similarity": "Similarity", "Similarity2D": "Similarity"}
    return e


# ---------------------------------------------------------------- observation of an implementation object
def view(e, t, exact):
    """Oracle-evaluated view of a transform (what the model's xf record holds)."""
    am = e.am
    v = np.asarray(t._vec12, dtype=float)
    tr = am.threshold(v[0:3], am.MAX_DIST)
    R = am.rotation_vec2mat(v[3:6])
    S = np.exp(am.threshold(v[6:9], am.LOG_MAX_DIST))
    Q = am.rotation_vec2mat(v[9:12])
    if exact:
        parts = [snap(tr), snap(R), snap(S), snap(Q)]
        if any(p is None for p in parts):
            return None
        tr, R, S, Q = parts
    return {"cls": type(t).__name__, "t": tr, "R": R, "S": S, "Q": Q, "direct": bool(t.is_direct)}


def cxf(vw):
    return "(Build_xf %s %s %s %s %s %s)" % (cstr(vw["cls"]), cvecq(vw["t"]), cmatq(vw["R"]), cvecq(vw["S"]),
                                            cmatq(vw["Q"]), cbool(vw["direct"]))


def oracle_for(e, owner, M, svd_entry, exact):
    """fx_oracle literal for from_matrix44 of class-owner `owner` on matrix M (None when no exact literal exists)."""
    A = np.asarray(M, dtype=float)[:3, :3]
    U = s = V = None
    cs = 1.0
    if owner == "Affine":
        if svd_entry is None or not np.allclose(svd_entry[0], A, rtol=0, atol=1e-9 * max(1.0, float(np.max(np.abs(A))))):
            return None
        U, s, V = svd_entry[1]
        if exact:
            U, s, V = snap(U), snap(s), snap(V)
            if U is None or s is None or V is None:
                return None
    elif owner == "Similarity":
        if exact:
            A = snap(A)
            if A is None:
                return None
        cs = float(np.maximum(np.abs(e.proxy._real.det(A)) ** (1 / 3.), e.am.TINY))
        if exact:
            c2 = snap(cs)
            if c2 is None:
                return None
            cs = float(c2)
    if U is None:
        return "(Build_fx_oracle [] [] [] %s)" % cq(cs)
    return "(Build_fx_oracle %s %s %s %s)" % (cmatq(U), cvecq(s), cmatq(V), cq(cs))


def add_model(e, T, mk_term, res, want_exact, sig, replay, owner, M, svd, dev=0.0):
    """Add the model-vs-implementation terms for one from_matrix44-producing call: exact (snapped dyadic values,
    eps = 0) when every quantity snaps, else exact float rationals compared at 1e-9."""
    for exact in ([True, False] if want_exact else [False]):
        o = oracle_for(e, owner, M, svd, exact)
        if o is None:
            continue
        mt = mk_term(exact, o)
        if mt is None:
            continue
        terms = obs_terms(e, mt, res, exact, dev)
        if terms is None:
            continue
        for tm in terms:
            T.add(tm, sig, replay, show="option_map (fun c => (x_class c, x_direct c, qas_affine c)) %s" % mt, exact=exact)
        return exact
    T.skipped += 1
    return None


def obs_terms(e, model_term, res, exact, dev=0.0):
    """Boolean Coq terms: the model's transform `model_term` (option qxf) agrees with implementation object `res`.
    `dev` = measured deviation of the rotation_mat2vec oracle inside the operation (added to the tolerance)."""
    A = res.as_affine()
    vw = view(e, res, exact)
    if exact:
        A = snap(A)
        if A is None or vw is None:
            return None
    scale = max(1.0, float(np.max(np.abs(A[:3, :3]))))
    eps = cq(0) if exact else cq(EPS + frac(8 * dev * scale if dev > 1e-10 else 0.0))
    return ["xf_agrees %s %s %s %s %s" % (eps, model_term, cstr(type(res).__name__), cbool(bool(res.is_direct)), cmatq(A)),
            "factors_agree %s %s %s %s %s" % (eps, model_term, cmatq(vw["R"]), cvecq(vw["S"]), cmatq(vw["Q"]))]


# ---------------------------------------------------------------- generators
def quarter_vec(rng, twod):
    ax = 2 if twod else int(rng.integers(0, 3))
    k = int(rng.integers(0, 4))
    r = np.zeros(3)
    r[ax] = k * np.pi / 2
    return r


def angle_vec(rng, twod, kind):
    """rotation vector of a given angle regime"""
    if twod:
        n = np.array([0.0, 0.0, 1.0]) * (1 if rng.random() < 0.5 else -1)
    else:
        n = rng.normal(size=3)
        n /= np.linalg.norm(n)
    if kind == "nearid":
        th = float(rng.choice([0.0, 0.0, 1e-6, 1e-5, 1e-4]))
    elif kind == "near0":
        th = float(rng.choice([1e-6, 1e-5, 1e-4, 1e-3]))
    elif kind == "nearpi":
        th = np.pi - float(rng.choice([0.0, 1e-9, 1e-7, 1e-5, 1e-3]))
    elif kind == "large":
        th = float(rng.uniform(2 * np.pi, 60.0))
    else:
        th = float(rng.uniform(0.05, 3.0))
    return n * th


def make(e, rng, cname, mode):
    """A transform of class cname whose non-zero natural parameters lie in the class's own index set."""
    radius = int(rng.choice([100, 64, 25]))
    inds = set(e.cls[cname].param_inds)
    twod = cname.endswith("2D")
    v = np.zeros(12)
    if mode == "quarter":
        v[0:3] = rng.integers(-4, 5, 3)
        v[3:6] = quarter_vec(rng, twod)
        if cname.startswith("Similarity"):
            v[6:9] = math.log(float(rng.choice([0.5, 1.0, 2.0, 4.0])))
        elif cname.startswith("Affine"):
            v[6:9] = np.log(rng.choice([0.5, 1.0, 2.0, 4.0], 3))
            v[9:12] = quarter_vec(rng, twod)
    elif mode == "nearid":
        # very close to, but not at, the identity in every non-translation parameter:
        # log-scales of a few parts in 1e-8 .. 1e-4, rotations of 0 .. 1e-4 rad
        tiny = [1e-8, 1e-7, 1e-6, 4e-6, 2e-5, 1e-4]
        v[0:3] = np.round(rng.uniform(-30, 30, 3), 3)
        v[3:6] = angle_vec(rng, twod, "nearid")
        if cname.startswith("Similarity"):
            v[6:9] = float(rng.choice(tiny)) * float(rng.choice([-1, 1]))
        elif cname.startswith("Affine"):
            v[6:9] = rng.choice(tiny, 3) * rng.choice([-1, 1], 3)
            v[9:12] = angle_vec(rng, twod, "nearid")
    else:
        v[0:3] = np.round(rng.uniform(-30, 30, 3), 3)
        v[3:6] = angle_vec(rng, twod, mode)
        if cname.startswith("Similarity"):
            v[6:9] = float(rng.uniform(-0.7, 0.7))
        elif cname.startswith("Affine"):
            v[6:9] = rng.uniform(-0.7, 0.7, 3)
            v[9:12] = angle_vec(rng, twod, "any" if mode != "near0" else "near0")
    if twod:
        v[2] = 0.0
        if cname == "Affine2D":
            v[8] = 0.0
    # classes other than Similarity*: only the class's own indices; Similarity fans its scale out to 6,7,8
    keep = set(inds)
    if cname.startswith("Similarity"):
        keep |= {6, 7, 8}
    for i in range(12):
        if i not in keep:
            v[i] = 0.0
    t = e.cls[cname](v, radius=radius)     # public constructor: 12 natural parameters
    if rng.random() < 0.35:
        reflect(t)
    return t


def reflect(t):
    """Turn a never-used transform into its reflected twin (the state from_matrix44 produces for det < 0).
    Only applied to objects that have not been used yet."""
    t._direct = False


def ref_matrix(e, t):
    """The matrix the natural parameters of `t` (public getters translation / rotation / scaling /
    pre_rotation, is_direct) denote, rebuilt on a FRESH object of the same class: what as_affine must return
    whatever happened to `t` before."""
    v = np.concatenate([np.asarray(t.translation, dtype=float), np.asarray(t.rotation, dtype=float),
                        np.log(np.asarray(t.scaling, dtype=float)), np.asarray(t.pre_rotation, dtype=float)])
    f = type(t)(v)
    if not t.is_direct:
        reflect(f)
    return f.as_affine()


def pts(rng, n=4):
    return np.round(rng.uniform(-20, 20, (n, 3)), 2)


def begin(e):
    e.proxy.svds.clear()
    e.proxy.invs.clear()
    del e.m2v[:]


def m2v_dev(e):
    """Largest |rotation_vec2mat(rotation_mat2vec(R)) - R| over the rotation_mat2vec calls since begin():
    the measured deviation of that oracle from its contract in this operation."""
    d = 0.0
    for Rm, v in e.m2v:
        d = max(d, float(np.max(np.abs(e.am.rotation_vec2mat(v) - Rm))))
    return d


SMALL = "mat2vec-roundtrip/small-angle"
PA_FAR = "polyaffine/weights-underflow-far-from-centers"


def attribute(ck, e, dev, err, scale, sig, what, replay):
    """Report a closeness failure: when the rotation_mat2vec round-trip deviation measured inside this very
    operation explains the error (err <= 8 * dev * scale), it is the small-angle defect of rotation_mat2vec."""
    if dev > 1e-10 and err <= 8 * dev * scale:
        ck.fail(SMALL, "rotation_mat2vec is inaccurate for rotations within ~1e-5 rad of the identity (zero below ~5e-8): inside %s the "
                "round trip rotation_vec2mat(rotation_mat2vec(R)) deviated from R by %.3g, result error %.3g" % (sig, dev, err),
                dict(replay, mat2vec_roundtrip_deviation=dev, error=err, where=sig))
    else:
        ck.fail(sig, what, replay)


def maxerr(a, b):
    a = np.asarray(a, dtype=float)
    b = np.asarray(b, dtype=float)
    return float(np.max(np.abs(a - b))) if a.shape == b.shape and a.size else float("inf")


def close(a, b, tol=TOL):
    a = np.asarray(a, dtype=float)
    b = np.asarray(b, dtype=float)
    return a.shape == b.shape and np.all(np.abs(a - b) <= tol * max(1.0, float(np.max(np.abs(b))) if b.size else 1.0))


# ---------------------------------------------------------------- sections
def sec_select(ck, e, T):
    n_raise = 0
    for a, b in itertools.product(CLASSES, CLASSES):
        ck.count(("select", a, b), bucket="select")
        try:
            c = e.cls[a]().compose(e.cls[b]())
            got = type(c).__name__
        except Exception as ex:  # noqa
            n_raise += 1
            ck.fail("compose/class-pair-raises",
                    "%s().compose(%s()) raised %s: %s" % (a, b, type(ex).__name__, ex),
                    {"self": a, "other": b, "exception": "%s: %s" % (type(ex).__name__, ex)})
            T.add("sel_res_eqb (compose_class %s %s) (Raises \"\")" % (cstr(a), cstr(b)),
                  "select/model-vs-impl", {"self": a, "other": b, "impl": "raises"},
                  show="compose_class %s %s" % (cstr(a), cstr(b)))
            continue
        sa, sb, sc = (set(e.cls[x].param_inds) for x in (a, b, got))
        if not (sa <= sc and sb <= sc):
            ck.fail("compose/class-less-capable",
                    "%s().compose(%s()) returned a %s whose parameter set does not contain both arguments'" % (a, b, got),
                    {"self": a, "other": b, "result": got})
        want = b if sa <= sb else a if sb <= sa else "Affine"
        if got != want:
            ck.fail("compose/class-not-the-containing-one",
                    "%s().compose(%s()) returned %s, expected %s" % (a, b, got, want),
                    {"self": a, "other": b, "result": got, "expected": want})
        T.add("sel_res_eqb (compose_class %s %s) (Chosen %s)" % (cstr(a), cstr(b), cstr(got)),
              "select/model-vs-impl", {"self": a, "other": b, "impl": got},
              show="compose_class %s %s" % (cstr(a), cstr(b)))
    ck.section("select", pairs=36, raised=n_raise)


def sec_vec2mat(ck, e, T, rng):
    am = e.am
    N = ck.n(60, 600)
    cases = []
    for ax in range(3):
        for k in range(0, 5):
            r = np.zeros(3)
            r[ax] = k * np.pi / 2
            cases.append(("quarter", r))
    for kind in ("any", "near0", "nearpi", "large"):
        for _ in range(N // 3 if kind != "large" else max(6, N // 10)):
            cases.append((kind, angle_vec(rng, False, kind)))
    worst = 0.0
    for kind, r in cases:
        ck.count(("vec2mat", tuple(r)), bucket="vec2mat:" + kind)
        Rm = am.rotation_vec2mat(r)
        th = float(np.sqrt(np.sum(r ** 2)))
        # property oracle: proper rotation
        d1 = float(np.max(np.abs(Rm.T @ Rm - np.eye(3))))
        d2 = abs(float(np.linalg.det(Rm)) - 1)
        if max(d1, d2) > 1e-12:
            ck.fail("vec2mat/not-a-rotation/" + kind, "rotation_vec2mat(%s): |R^T R - I| = %g, |det - 1| = %g" % (r.tolist(), d1, d2),
                    {"r": r.tolist()})
        # round trip through the rotation vector
        R2 = am.rotation_vec2mat(am.rotation_mat2vec(Rm))
        err = float(np.max(np.abs(R2 - Rm)))
        worst = max(worst, err)
        if err > TOL:
            ck.fail("mat2vec-roundtrip/" + kind, "rotation_vec2mat(rotation_mat2vec(R)) differs from R by %g for r = %s" % (err, r.tolist()),
                    {"r": r.tolist(), "err": err})
        # independent reference (angles of practical size must follow the Rodrigues formula, whatever the thresholds are)
        if 1e-3 < th < 1e6:
            n_ = r / th
            K = np.array([[0, -n_[2], n_[1]], [n_[2], 0, -n_[0]], [-n_[1], n_[0], 0]])
            ref = np.eye(3) + math.sin(th) * K + (1 - math.cos(th)) * (K @ K)
            if float(np.max(np.abs(Rm - ref))) > 1e-12:
                ck.fail("vec2mat/not-the-rotation-by-theta/" + kind, "rotation_vec2mat(%s) is not the rotation by |r| about r/|r|" % r.tolist(),
                        {"r": r.tolist(), "theta": th})
        # model: Rodrigues formula on n = r/theta, sin, cos (oracle values); thresholds are the harness's own (1e-30, 1e6)
        if 1e-30 < th < 1e6:
            n = r / th
            s, c = float(np.sin(th)), float(np.cos(th))
            if kind == "quarter":
                sn = snap(np.array([s, c]))
                Rs = snap(Rm)
                if sn is None or Rs is None:
                    ck.fail("vec2mat/quarter-turn-not-integral", "rotation_vec2mat(%s) is not within 1e-9 of an integer matrix" % r.tolist(),
                            {"r": r.tolist()})
                    continue
                T.add("qmat_close %s (qrodrigues %s %s %s %s %s) %s" % (cq(0), cq(n[0]), cq(n[1]), cq(n[2]), cq(sn[0]), cq(sn[1]), cmatq(Rs)),
                      "vec2mat/model-vs-impl", {"r": r.tolist()})
            else:
                T.add("qmat_close %s (qrodrigues %s %s %s %s %s) %s" % (cq(Fraction(1, 10 ** 12)), cq(n[0]), cq(n[1]), cq(n[2]), cq(s), cq(c), cmatq(Rm)),
                      "vec2mat/model-vs-impl", {"r": r.tolist()})
    # rotations too small for the quaternion route: angle below ~5e-8 comes back as the zero vector
    for th in (1e-7, 3e-8, 1e-8):
        r = np.array([1.0, 2.0, 3.0]) / math.sqrt(14) * th
        ck.count(("vec2mat-tiny", th), bucket="vec2mat:tiny")
        Rm = am.rotation_vec2mat(r)
        err = float(np.max(np.abs(am.rotation_vec2mat(am.rotation_mat2vec(Rm)) - Rm)))
        if err > TOL:
            ck.fail(SMALL, "rotation_vec2mat(rotation_mat2vec(R)) differs from R = rotation_vec2mat(r) by %g for |r| = %g "
                    "(rotation_mat2vec returns %s)" % (err, th, e.real_m2v(Rm).tolist()), {"r": r.tolist(), "err": err})
    # thresholds: above MAX_ANGLE identity
    big = np.array([0.0, 0.0, 1.0]) * am.MAX_ANGLE * 2
    if not np.array_equal(am.rotation_vec2mat(big), np.eye(3)):
        ck.fail("vec2mat/max-angle-branch", "rotation above MAX_ANGLE is not the identity", {"r": big.tolist()})
    ck.section("vec2mat", cases=len(cases), worst_roundtrip_err=worst)


def sec_m44(ck, e, T, rng):
    am = e.am
    N = ck.n(12, 120)
    for size in (6, 7, 12):
        for i in range(N):
            exact = i % 2 == 0
            t = np.zeros(size)
            if exact:
                t[0:3] = rng.integers(-5, 6, 3)
                t[3:6] = quarter_vec(rng, False)
                if size == 7:
                    t[6] = float(rng.choice([0.5, 2.0, -1.0, 3.0]))
                if size == 12:
                    t[6:9] = np.log(rng.choice([0.5, 1.0, 2.0, 4.0], 3))
                    t[9:12] = quarter_vec(rng, False)
            else:
                t[0:3] = rng.uniform(-30, 30, 3)
                t[3:6] = angle_vec(rng, False, "any")
                if size == 7:
                    t[6] = rng.uniform(0.3, 3)
                if size == 12:
                    t[6:9] = rng.uniform(-1, 1, 3)
                    t[9:12] = angle_vec(rng, False, "any")
            if i == 1:
                t[0] = 3e10        # translation above MAX_DIST is clipped
            ck.count(("m44", size, tuple(t)), bucket="m44:size%d" % size)
            M = am.to_matrix44(t)
            R3 = am.rotation_vec2mat(t[3:6])
            R9 = am.rotation_vec2mat(t[9:12]) if size == 12 else np.eye(3)
            D6 = np.diag(np.exp(am.threshold(t[6:9], am.LOG_MAX_DIST))) if size == 12 else np.eye(3)
            t6 = float(t[6]) if size == 7 else 0.0
            tr = am.threshold(t[0:3], am.MAX_DIST)
            # property oracle: last row, translation column, linear part = product of the parts
            L = {6: R3, 7: t6 * R3, 12: R3 @ D6 @ R9}[size]
            if not (close(M[:3, :3], L, 1e-12) and np.array_equal(M[3], [0, 0, 0, 1]) and close(M[:3, 3], tr, 0)):
                ck.fail("to_matrix44/assembly/size%d" % size, "to_matrix44(%s) is not [R S Q | t]" % t.tolist(), {"t": t.tolist()})
            if exact:
                parts = [snap(R3), snap(R9), snap(D6), snap(tr), snap(M)]
                if any(p is None for p in parts):
                    exact = False
                else:
                    R3, R9, D6, tr, M = parts
            T.add("m44_agrees %s %s %s %s %s %s %s %s" % (cq(0) if exact else cq(EPS), cnat(size), cmatq(R3), cmatq(R9), cmatq(D6),
                                                          cq(t6), cvecq(tr), cmatq(M)),
                  "to_matrix44/model-vs-impl/size%d" % size, {"t": t.tolist()})
    ck.section("m44", per_size=N)


def derived_param_checks(ck, e, c, how, replay):
    """An object obtained from inv() / compose() / copy() (built by the library with default constructor options
    and then patched up) must behave like a directly constructed one: `c.param = c.param` leaves the mapping
    alone, assigned parameters read back, and a fresh object of the same class and preconditioner given the same
    parameter vector agrees on the class's parameter slots."""
    A0 = c.as_affine().copy()
    v0 = np.array(c._vec12, dtype=float)
    p0 = np.array(c.param, dtype=float)
    rp = dict(replay, derived_by=how, derived_class=type(c).__name__, derived_precond=np.asarray(c.precond).tolist())
    c.param = c.param
    sc = max(1.0, float(np.max(np.abs(A0))))
    if not close(c.as_affine(), A0, 1e-12):
        ck.fail("%s/param-roundtrip-changes-mapping" % how,
                "on the result of %s, `t.param = t.param` changes as_affine() by %g" % (how, maxerr(c.as_affine(), A0)), rp)
        return
    p1 = p0 + np.round(np.linspace(-1, 1, p0.size) * 4) / 8
    c.param = p1
    if not close(c.param, p1, 1e-12):
        ck.fail("%s/param-readback" % how, "on the result of %s, param reads %s after assigning %s"
                % (how, np.asarray(c.param).tolist(), p1.tolist()), rp)
    inds = list(c.param_inds)
    want = p1 * np.asarray(c.precond, dtype=float)[inds]
    if not close(np.asarray(c._vec12)[inds], want, 1e-12):
        ck.fail("%s/param-set-ignores-preconditioner" % how,
                "on the result of %s, assigning param does not store p * precond in the natural parameters" % how, rp)
    c.param = p0
    if not close(c.as_affine(), A0, 1e-12):
        ck.fail("%s/param-restore-changes-mapping" % how, "on the result of %s, re-assigning the original parameter vector does not "
                "restore the mapping (difference %g)" % (how, maxerr(c.as_affine(), A0)), rp)


def check_compose(ck, e, T, rng, a, b, mode, tag):
    """a.compose(b): property oracle + model term.  Returns the composed transform or None."""
    am = e.am
    na, nb = type(a).__name__, type(b).__name__
    begin(e)
    Ma, Mb = a.as_affine(), b.as_affine()
    try:
        c = a.compose(b)
    except Exception as ex:  # noqa
        ck.fail("compose/class-pair-raises", "%s.compose(%s) raised %s: %s" % (na, nb, type(ex).__name__, ex),
                {"self": na, "other": nb, "self_vec12": a._vec12.tolist(), "other_vec12": b._vec12.tolist(),
                 "exception": "%s: %s" % (type(ex).__name__, ex)})
        return None
    dev = m2v_dev(e)
    svd_last = e.proxy.svds[-1] if e.proxy.svds else None
    nc = type(c).__name__
    x = pts(rng)
    want = a.apply(b.apply(x))
    got = c.apply(x)
    replay = {"self": na, "other": nb, "self_vec12": a._vec12.tolist(), "self_direct": bool(a.is_direct),
              "other_vec12": b._vec12.tolist(), "other_direct": bool(b.is_direct), "points": x.tolist()}
    scale = max(1.0, float(np.max(np.abs(want))))
    if not close(got, want):
        attribute(ck, e, dev, maxerr(got, want), scale,
                  "%s/apply-differs-from-sequential/%s" % (tag, "reflection" if not (a.is_direct and b.is_direct) else "direct"),
                  "%s.compose(%s).apply(x) differs from self.apply(other.apply(x)) by %g" % (na, nb, maxerr(got, want)), replay)
    if not close(c.as_affine(), Ma @ Mb):
        attribute(ck, e, dev, maxerr(c.as_affine(), Ma @ Mb), max(1.0, float(np.max(np.abs(Ma @ Mb)))),
                  "%s/matrix-not-product" % tag, "%s.compose(%s).as_affine() is not the matrix product" % (na, nb), replay)
    if not np.array_equal(c.precond, a.precond):
        ck.fail("%s/precond-not-inherited" % tag, "composed transform does not carry self's preconditioner", replay)
    if c.is_direct != (np.linalg.det((Ma @ Mb)[:3, :3]) > 0):
        ck.fail("%s/direct-flag" % tag, "is_direct of the composition does not match the determinant sign", replay)
    want_set = set(e.cls[na].param_inds) | set(e.cls[nb].param_inds)
    if not want_set <= set(c.param_inds):
        ck.fail("compose/class-less-capable", "%s.compose(%s) returned a %s" % (na, nb, nc), replay)
    # model
    def mk(exact, o):
        va, vb = view(e, a, exact), view(e, b, exact)
        if va is None or vb is None:
            return None
        return "(qcompose %s %s %s)" % (cxf(va), cxf(vb), o)
    add_model(e, T, mk, c, mode == "quarter", "%s/model-vs-impl" % tag, replay, e.fx_owner.get(nc), Ma @ Mb, svd_last, dev)
    derived_param_checks(ck, e, c, tag, replay)
    return c


def sec_compose(ck, e, T, rng):
    per = ck.n(2, 30)
    modes = ["quarter"] * (per + 1) + ["any"] * per + ["near0"] * max(1, per // 2) + ["nearpi"] * max(1, per // 2) \
        + ["nearid"] * max(1, per // 2)
    n = 0
    for na, nb in itertools.product(CLASSES, CLASSES):
        for mode in modes:
            a = make(e, rng, na, mode)
            b = make(e, rng, nb, mode if rng.random() < 0.8 else "any" if mode != "quarter" else "quarter")
            ck.count(("compose", na, nb, tuple(a._vec12), tuple(b._vec12), a.is_direct, b.is_direct),
                     bucket="compose:" + mode)
            c = check_compose(ck, e, T, rng, a, b, mode, "compose")
            n += 1
            if c is not None and n % 97 == 0:
                ck.sample({"self": na, "self_vec12": a._vec12.tolist(), "other": nb, "other_vec12": b._vec12.tolist(),
                           "result_class": type(c).__name__, "result_direct": bool(c.is_direct)})
    ck.section("compose", cases=n, pairs=36, modes=sorted(set(modes)))


def check_inv(ck, e, T, rng, a, mode, tag="inv"):
    na = type(a).__name__
    begin(e)
    Ma = a.as_affine()
    replay = {"class": na, "vec12": a._vec12.tolist(), "direct": bool(a.is_direct)}
    try:
        c = a.inv()
    except Exception as ex:  # noqa
        ck.fail("%s/raises" % tag, "%s.inv() raised %s: %s" % (na, type(ex).__name__, ex), replay)
        return None
    dev = m2v_dev(e)
    svd_last = e.proxy.svds[-1] if e.proxy.svds else None
    inv_last = e.proxy.invs[-1] if e.proxy.invs else None
    x = pts(rng)
    y1, y2 = c.apply(a.apply(x)), a.apply(c.apply(x))
    if not (close(y1, x) and close(y2, x)):
        err = max(maxerr(y1, x), maxerr(y2, x))
        scale = max(1.0, float(np.max(np.abs(a.apply(x)))), float(np.max(np.abs(c.as_affine()[:3, 3]))))
        attribute(ck, e, dev, err, scale, "%s/does-not-map-back/%s" % (tag, "reflection" if not a.is_direct else "direct"),
                  "%s.inv() does not map transformed points back (error %g)" % (na, err), dict(replay, points=x.tolist()))
    if type(c) is not type(a):
        ck.fail("%s/class-changed" % tag, "%s.inv() is a %s" % (na, type(c).__name__), replay)
    if not np.array_equal(c.precond, a.precond):
        ck.fail("%s/precond-not-inherited" % tag, "inverse does not carry the preconditioner", replay)
    # the function inverse_affine on the same matrix: a two-sided inverse
    Mi2 = e.am.inverse_affine(Ma.copy())
    cond = float(np.linalg.cond(Ma))
    if not (close(Mi2 @ Ma, np.eye(4), 1e-13 * cond) and close(Ma @ Mi2, np.eye(4), 1e-13 * cond)):
        ck.fail("inverse_affine/not-an-inverse/%s" % mode, "inverse_affine(M) @ M differs from the identity by %g (cond %g)"
                % (maxerr(Mi2 @ Ma, np.eye(4)), cond), dict(replay, matrix=Ma.tolist()))
    # oracle value for the model: what spl.inv returned inside inv(), or (if the code did not ask SciPy) an
    # independently computed inverse - the contract of inv_apply is only that it is a two-sided inverse
    Minv = inv_last[1] if inv_last is not None else np.linalg.inv(Ma)

    def mk(exact, o):
        va = view(e, a, exact)
        Mi = snap(Minv) if exact else Minv
        if va is None or Mi is None:
            return None
        return "(qinv %s %s %s)" % (cxf(va), cmatq(Mi), o)
    add_model(e, T, mk, c, mode == "quarter", "%s/model-vs-impl" % tag, replay, e.fx_owner[na], Minv, svd_last, dev)
    derived_param_checks(ck, e, c, tag, replay)
    return c


def sec_inv(ck, e, T, rng):
    per = ck.n(6, 40)
    n = 0
    for na in CLASSES:
        for mode in ["quarter"] * per + ["any"] * per + ["near0", "nearpi"] * max(1, per // 3) + ["nearid"] * max(3, per // 2):
            a = make(e, rng, na, mode)
            ck.count(("inv", na, tuple(a._vec12), a.is_direct), bucket="inv:" + mode)
            check_inv(ck, e, T, rng, a, mode)
            # copy(): same class, flag, preconditioner and matrix; independent storage
            cp = a.copy()
            if not (type(cp) is type(a) and cp.is_direct == a.is_direct and np.array_equal(cp.as_affine(), a.as_affine())
                    and np.array_equal(cp.precond, a.precond) and cp._vec12 is not a._vec12):
                ck.fail("copy/differs", "%s.copy() differs from the original (class / _direct / matrix / precond)" % na,
                        {"class": na, "vec12": a._vec12.tolist(), "direct": bool(a.is_direct)})
            derived_param_checks(ck, e, cp, "copy", {"class": na, "vec12": a._vec12.tolist(), "direct": bool(a.is_direct),
                                                     "precond": np.asarray(a.precond).tolist()})
            if not np.array_equal(a.as_affine(), ref_matrix(e, a)) and not close(a.as_affine(), ref_matrix(e, a), 1e-12):
                ck.fail("copy/changing-the-copy-changes-the-original", "%s: assigning param on a copy changed the original" % na,
                        {"class": na, "vec12": a._vec12.tolist()})
            n += 1
    ck.section("inv", cases=n)


def rand_int_lin(rng, cname, sign):
    """integer 3x3 linear part valid for the class, with det of the requested sign"""
    while True:
        P = np.eye(3)[rng.permutation(3)] * rng.choice([-1, 1], 3)
        if cname.startswith("Rigid"):
            A = P
        elif cname.startswith("Similarity"):
            A = P * float(rng.choice([1, 2, 3, 0.5]))
        else:
            A = rng.integers(-3, 4, (3, 3)).astype(float)
            if rng.random() < 0.4:
                A = P @ np.diag(rng.choice([1.0, 2.0, 4.0, 0.5], 3))
        d = np.linalg.det(A)
        if abs(d) > 0.2 and (d > 0) == (sign > 0):
            return A


def sec_from44(ck, e, T, rng):
    per = ck.n(6, 50)
    n = 0
    stale = 0
    for cname in CLASSES:
        for sign in (1, -1):
            for i in range(per):
                A = rand_int_lin(rng, cname, sign)
                M = np.eye(4)
                M[:3, :3] = A
                M[:3, 3] = rng.integers(-9, 10, 3)
                ck.count(("from44", cname, tuple(M.ravel())), bucket="from44:det%+d" % sign)
                e.proxy.svds.clear()
                replay = {"class": cname, "matrix": M.tolist()}
                try:
                    t = e.cls[cname](M)
                except Exception as ex:  # noqa
                    ck.fail("from_matrix44/raises", "%s(4x4 matrix) raised %s: %s" % (cname, type(ex).__name__, ex), replay)
                    continue
                n += 1
                back = t.as_affine()
                if not close(back, M):
                    ck.fail("from_matrix44/as_affine-roundtrip/det%s" % ("<0" if sign < 0 else ">0"),
                            "%s(M).as_affine() differs from M by %g" % (cname, float(np.max(np.abs(back - M)))), replay)
                if bool(t.is_direct) != (sign > 0):
                    ck.fail("from_matrix44/direct-flag", "%s(M).is_direct = %s for det sign %+d" % (cname, t.is_direct, sign), replay)
                x = pts(rng)
                if not close(t.apply(x), x @ A.T + M[:3, 3]):
                    ck.fail("from_matrix44/apply", "%s(M).apply differs from M applied to points" % cname, replay)
                # matrix -> transform -> matrix -> transform: same point mapping, same flag
                t2 = e.cls[cname](back)
                if not close(t2.as_affine(), back) or t2.is_direct != t.is_direct:
                    ck.fail("from_matrix44/second-roundtrip", "%s: second round trip through as_affine differs" % cname, replay)
                svd = e.proxy.svds[0] if e.proxy.svds else None
                add_model(e, T, lambda exact, o: "(qfrom_matrix44 %s true %s %s)" % (cstr(cname), o, cmatq(M)), t, True,
                          "from_matrix44/model-vs-impl", replay, e.fx_owner[cname], M, svd)
                # re-use of an object that held a reflection: from_matrix44 must describe the new matrix
                if sign < 0 and i < 2:
                    B = np.eye(4)
                    B[:3, :3] = rand_int_lin(rng, cname, 1)
                    B[:3, 3] = rng.integers(-9, 10, 3)
                    e.proxy.svds.clear()
                    t.from_matrix44(B)
                    stale += 1
                    ck.count(("from44-reuse", cname, tuple(B.ravel())), bucket="from44:reuse")
                    rp = {"class": cname, "first_matrix": M.tolist(), "second_matrix": B.tolist(),
                          "as_affine_after_second": t.as_affine().tolist()}
                    svd2 = e.proxy.svds[0] if e.proxy.svds else None
                    o2 = oracle_for(e, e.fx_owner[cname], B, svd2, False)
                    if o2 is not None:
                        mt = "(qfrom_matrix44 %s false %s %s)" % (cstr(cname), o2, cmatq(B))
                        T.add("xf_agrees %s %s %s %s %s" % (cq(EPS), mt, cstr(cname), cbool(bool(t.is_direct)), cmatq(t.as_affine())),
                              "from_matrix44/model-vs-impl/reused-object", rp, exact=False)
                    if not close(t.as_affine(), B):
                        ck.fail("from_matrix44/stale-direct-flag",
                                "%s: t = %s(M1) with det M1 < 0; t.from_matrix44(M2) with det M2 > 0 gives as_affine() with negated linear part"
                                % (cname, cname), rp)
    ck.section("from44", cases=n, reuse_cases=stale)


def sec_param(ck, e, T, rng):
    per = ck.n(8, 60)
    n = 0
    for cname in CLASSES:
        for i in range(per):
            radius = [64, 100, 16, 1, 100][i % 5]
            exact = radius != 100
            npar = len(e.cls[cname].param_inds)
            v0 = np.round(rng.uniform(-4, 4, 12) * 16) / 16
            if cname.startswith("Similarity"):
                v0[7] = v0[8] = v0[6]
            t = e.cls[cname](v0, radius=radius)
            p = np.round(rng.uniform(-8, 8, npar) * 8) / 8
            pre = np.array(t.precond, dtype=float)
            ck.count(("param", cname, radius, tuple(p), tuple(v0)), bucket="param:radius%d" % radius)
            n += 1
            replay = {"class": cname, "radius": radius, "vec12": v0.tolist(), "p": p.tolist()}
            # read then assign: same 12-vector, same matrix
            A0 = t.as_affine()
            t.param = t.param
            if not (close(t._vec12, v0, 0 if exact else 1e-12) and close(t.as_affine(), A0, 0 if exact else 1e-12)):
                ck.fail("param/get-then-set-changes-transform", "%s: t.param = t.param changed the transform" % cname, replay)
            # assign then read, on the SAME (already used) object
            v0 = np.array(t._vec12, dtype=float)
            t.param = p
            v1 = np.array(t._vec12, dtype=float)
            q = np.array(t.param, dtype=float)
            A1 = t.as_affine()
            if not close(A1, e.cls[cname](v1, radius=radius).as_affine(), 0):
                ck.fail("state/matrix-not-that-of-current-parameters/after-param-set",
                        "%s: after use and `t.param = p`, t.as_affine() is not the matrix of t's current parameters" % cname,
                        dict(replay, sequence=["as_affine()", "param = param", "param = p", "as_affine()"]))
            if not close(q, p, 0 if exact else 1e-12):
                ck.fail("param/set-then-get", "%s(radius=%d): param read back %s after assigning %s" % (cname, radius, q.tolist(), p.tolist()), replay)
            if cname.endswith("2D"):
                # in-plane classes: a transform set through `param` maps the plane z = 0 onto itself
                xy = pts(rng)
                xy[:, 2] = 0.0
                t2 = e.cls[cname](radius=radius)
                t2.param = p
                if float(np.max(np.abs(t2.apply(xy)[:, 2]))) > 1e-9:
                    ck.fail("param/2D-class-leaves-plane", "%s with param %s moves points of the plane z = 0 out of it" % (cname, p.tolist()), replay)
            others = [k for k in range(12) if k not in set(t.param_inds) | ({6, 7, 8} if cname.startswith("Similarity") else set())]
            if not np.array_equal(v1[others], v0[others]):
                ck.fail("param/set-touches-foreign-slots", "%s: assigning param changed slots outside param_inds" % cname, replay)
            if not np.allclose(pre, [1, 1, 1] + [1.0 / radius] * 9, rtol=0, atol=0):
                ck.fail("param/preconditioner", "preconditioner(%d) = %s" % (radius, pre.tolist()), replay)
            T.add("param_agrees %s %s %s %s %s %s %s" % (cq(0) if exact else cq(Fraction(1, 10 ** 12)), cstr(cname), cvecq(pre), cvecq(p),
                                                         cvecq(v0), cvecq(v1), cvecq(q)),
                  "param/model-vs-impl", replay, exact=exact)
            T.add("precond_agrees %s %s" % (cq(1.0 / radius), cvecq(pre)), "param/precond-model-vs-impl", replay)
    ck.section("param", cases=n)


def conformant_values(rng, cname, what):
    """Values for the public setters that stay inside the class's own parameter set."""
    twod = cname.endswith("2D")
    if what == "translation":
        v = np.round(rng.uniform(-30, 30, 3), 3)
        if twod:
            v[2] = 0.0
        return v
    if what in ("rotation", "pre_rotation"):
        return angle_vec(rng, twod, str(rng.choice(["any", "any", "nearpi", "near0"])))
    if what == "scaling":
        if cname.startswith("Similarity"):
            return np.full(3, float(np.exp(rng.uniform(-0.7, 0.7))))
        v = np.exp(rng.uniform(-0.7, 0.7, 3))
        if twod:
            v[2] = 1.0
        return v
    raise ValueError(what)


def sec_stateful(ck, e, T, rng):
    """Sequences of operations on ONE object: uses (apply, as_affine, compose, inv, copy, ChainTransform.apply)
    interleaved with updates (param, param through ChainTransform, the four attribute setters, from_matrix44).
    After every step: (a) as_affine / apply are those of a fresh object carrying the same natural parameters;
    (b) a use did not change the object; (c) a fresh object given the same `param` maps points identically while
    the state is inside the class's parameter set; (d) the model evaluated on the current state agrees."""
    from nipy.algorithms.registration.chain_transform import ChainTransform
    nseq = ck.n(4, 30)
    length = ck.n(9, 14)
    steps = 0
    for cname in CLASSES:
        klass = e.cls[cname]
        npar = len(klass.param_inds)
        setters = ["translation", "rotation"]
        if not cname.startswith("Rigid"):
            setters.append("scaling")
        if cname.startswith("Affine"):
            setters.append("pre_rotation")
        for sq in range(nseq):
            radius = int(rng.choice([100, 64]))
            t = klass(radius=radius)
            kpre, kpost = str(rng.choice(PART_KINDS)), str(rng.choice(PART_KINDS))
            pre, fpre, dpre = rand_part(e, rng, kpre)
            post, fpost, dpost = rand_part(e, rng, kpost)
            ct = ChainTransform(t, pre=pre, post=post)
            conform = True
            hist = []
            x = pts(rng)
            for st in range(length):
                kinds = ["use-apply", "use-as_affine", "use-compose", "use-inv", "use-copy", "use-chain",
                         "set-param", "set-param", "set-param-roundtrip", "set-chain-param", "set-" + str(rng.choice(setters)),
                         "from_matrix44", "become-inv", "become-copy", "become-compose"]
                op = str(rng.choice(kinds)) if st > 0 else "use-apply"
                steps += 1
                ck.count(("stateful", cname, sq, st, op), bucket="stateful:" + op.split("-")[0])
                before_v = np.array(t._vec12, dtype=float)
                before_d = bool(t.is_direct)
                before_A = t.as_affine().copy() if op in ("set-param-roundtrip", "become-copy") else None
                detail = None
                begin(e)
                try:
                    if op.startswith("become-"):
                        # continue the sequence on an object DERIVED from t (the library builds it with default
                        # constructor options and patches it up): it must carry t's options (preconditioner)
                        old_pre = np.array(t.precond, dtype=float)
                        if op == "become-inv":
                            t = t.inv()
                        elif op == "become-copy":
                            t = t.copy()
                        else:
                            # compose with a transform whose parameter set is contained in t's: class is kept
                            sub = [n_ for n_ in CLASSES if set(e.cls[n_].param_inds) <= set(klass.param_inds)]
                            o = make(e, rng, str(rng.choice(sub)), "any")
                            detail = {"other": type(o).__name__, "other_vec12": o._vec12.tolist(), "other_direct": bool(o.is_direct)}
                            t = t.compose(o)
                            if cname.endswith("2D") and not type(o).__name__.endswith("2D"):
                                conform = False
                        if type(t) is not klass:
                            ck.fail("state/derived-class-changed/" + op, "%s: %s returned a %s" % (cname, op, type(t).__name__),
                                    {"class": cname, "sequence": hist + [[op, detail]]})
                            break
                        if not np.array_equal(np.asarray(t.precond), old_pre):
                            ck.fail("state/derived-object-loses-preconditioner/" + op, "%s: the result of %s does not carry the preconditioner "
                                    "of the transform it was derived from" % (cname, op), {"class": cname, "radius": radius, "sequence": hist + [[op, detail]]})
                        if cname == "Affine2D" or (cname.endswith("2D") and op != "become-copy"):
                            conform = conform and op == "become-copy"      # SVD / inverse leave the in-plane parameter set only numerically
                        ct = ChainTransform(t, pre=pre, post=post)
                    elif op == "use-apply":
                        t.apply(x)
                    elif op == "use-as_affine":
                        t.as_affine()
                    elif op == "use-compose":
                        o = make(e, rng, str(rng.choice(CLASSES)), "any")
                        (t.compose(o) if rng.random() < 0.5 else o.compose(t))
                    elif op == "use-inv":
                        t.inv()
                    elif op == "use-copy":
                        t.copy().param = np.round(rng.uniform(-8, 8, npar), 2)      # changing the copy must not touch t
                    elif op == "use-chain":
                        got = ct.apply(x)
                        Mo = ref_matrix(e, t)
                        mid = fpre(x) @ Mo[:3, :3].T + Mo[:3, 3]
                        want = fpost(mid)
                        dev = m2v_dev(e)
                        if not close(got, want, 1e-8):
                            attribute(ck, e, 2 * dev, maxerr(got, want), max(1.0, float(np.max(np.abs(want))), float(np.max(np.abs(mid)))) ** 2,
                                      "state/chain-apply-after-updates/%s-pre/%s-post" % (kpre, kpost),
                                      "ChainTransform.apply differs from post(optimizable(pre(x))) after parameter updates",
                                      {"class": cname, "pre": dpre, "post": dpost, "sequence": hist + [op], "points": x.tolist()})
                    elif op == "set-param":
                        detail = (np.round(rng.uniform(-8, 8, npar) * 8) / 8).tolist()
                        t.param = np.array(detail)
                    elif op == "set-param-roundtrip":
                        t.param = t.param
                    elif op == "set-chain-param":
                        detail = (np.round(rng.uniform(-8, 8, npar) * 8) / 8).tolist()
                        ct.param = np.array(detail)
                    elif op.startswith("set-"):
                        what = op[4:]
                        val = conformant_values(rng, cname, what)
                        detail = val.tolist()
                        setattr(t, what, val)
                    elif op == "from_matrix44":
                        M = np.eye(4)
                        M[:3, :3] = rand_int_lin(rng, cname, 1 if rng.random() < 0.6 else -1)
                        M[:3, 3] = rng.integers(-9, 10, 3)
                        if cname.endswith("2D"):
                            conform = False          # a general matrix leaves the in-plane parameter set
                        detail = M.tolist()
                        t.from_matrix44(M)
                except Exception as ex:  # noqa
                    ck.fail("state/raises/" + op, "%s: %s raised %s: %s after %s" % (cname, op, type(ex).__name__, ex, hist),
                            {"class": cname, "sequence": hist + [[op, detail]]})
                    break
                hist.append([op, detail])
                replay = {"class": cname, "radius": radius, "sequence": hist, "vec12_now": np.asarray(t._vec12).tolist(),
                          "direct_now": bool(t.is_direct), "points": x.tolist()}
                tag = op.split("-")[0] if op != "from_matrix44" else "from_matrix44"
                # re-assigning the parameters that were just read must not move anything
                if op == "set-param-roundtrip" and not close(t.as_affine(), before_A, 1e-12):
                    ck.fail("state/param-roundtrip-changes-mapping", "%s: `t.param = t.param` changed as_affine() by %g"
                            % (cname, maxerr(t.as_affine(), before_A)), replay)
                if op == "become-copy" and not close(t.as_affine(), before_A, 0):
                    ck.fail("state/copy-differs", "%s: copy() maps points differently" % cname, replay)
                # (b) uses leave the object alone
                if op.startswith("use-") and not (np.array_equal(before_v, t._vec12) and before_d == bool(t.is_direct)):
                    ck.fail("state/use-changes-object/" + op, "%s: %s changed the transform it was called on" % (cname, op), replay)
                # (a) matrix and point mapping are those of the current natural parameters
                A = t.as_affine()
                Aref = ref_matrix(e, t)
                scale = max(1.0, float(np.max(np.abs(Aref))))
                if not close(A, Aref, 1e-12):
                    ck.fail("state/matrix-not-that-of-current-parameters/after-%s" % ("param-set" if "param" in op else tag),
                            "%s: after %s, as_affine() differs from the matrix of a fresh %s with the same translation/rotation/scaling/"
                            "pre_rotation by %g" % (cname, op, cname, maxerr(A, Aref)), replay)
                elif not close(t.apply(x), x @ Aref[:3, :3].T + Aref[:3, 3], 1e-12):
                    ck.fail("state/apply-not-that-of-current-parameters/after-%s" % ("param-set" if "param" in op else tag),
                            "%s: after %s, apply() differs from the mapping of its current parameters" % (cname, op), replay)
                # assigned parameters can be read back
                if op in ("set-param", "set-chain-param") and not close(t.param, detail, 1e-12):
                    ck.fail("state/param-readback", "%s: param reads %s after assigning %s" % (cname, np.asarray(t.param).tolist(), detail), replay)
                if op == "set-chain-param" and not np.array_equal(ct.param, t.param):
                    ck.fail("state/chain-param", "ChainTransform.param differs from the optimizable transform's", replay)
                # (c) the parameter vector determines the mapping
                if conform:
                    u = klass(radius=radius)
                    u.param = t.param
                    if not t.is_direct:
                        reflect(u)
                    if not close(u.as_affine(), A, 1e-9):
                        ck.fail("state/same-param-different-mapping", "%s: a fresh transform given t.param maps points differently from t "
                                "(max matrix difference %g)" % (cname, maxerr(u.as_affine(), A)), replay)
                # (d) model on the current state (as_affine is a function of the state in the model)
                if not op.startswith("use-") or st == 0:
                    vw = view(e, t, False)
                    T.add("xf_agrees %s (Some %s) %s %s %s" % (cq(EPS * frac(scale)), cxf(vw), cstr(cname), cbool(bool(t.is_direct)), cmatq(A)),
                          "state/model-vs-impl", replay, exact=False)
                if op == "from_matrix44":
                    if not close(A, np.array(detail), 1e-9):
                        attribute(ck, e, m2v_dev(e), maxerr(A, np.array(detail)), scale, "state/from_matrix44-on-used-object",
                                  "%s: from_matrix44 on an already used object does not describe the new matrix" % cname, replay)
    ck.section("stateful", sequences=nseq * len(CLASSES), steps=steps)


def rand_part(e, rng, kind):
    """A chain part of the given kind: (argument for ChainTransform / compose, independent reference function
    on (N,3) points, JSON description).  Kinds: none, array (4x4), affine (one of the six classes), zeroparam
    (all-zero `param` but not necessarily the identity), polyaffine,
    callable (generic Transform around a non-linear, non-commuting map of bounded growth)."""
    from nipy.algorithms.registration.transform import Transform
    from nipy.algorithms.registration.polyaffine import PolyAffine
    from nibabel.affines import apply_affine
    if kind == "none":
        return None, (lambda q: np.asarray(q, dtype=float)), "None"
    if kind == "array":
        M = make(e, rng, "Affine", "any").as_affine().copy()
        return M.copy(), (lambda q, M=M: apply_affine(M, q)), {"array": M.tolist()}
    if kind == "affine":
        nm = str(rng.choice(CLASSES))
        a = make(e, rng, nm, "any")
        M = a.as_affine().copy()
        return a, (lambda q, M=M: apply_affine(M, q)), {"class": nm, "vec12": a._vec12.tolist(), "direct": bool(a.is_direct)}
    if kind == "zeroparam":
        # border class: the free-parameter vector `param` is all zero, yet the transform is not (necessarily) the
        # identity - a reflection that lives only in the `_direct` flag (point reflection -I), or a transform of a
        # restricted class whose 12-vector carries content only outside the class's own parameter slots; plus the
        # true identity.  Given as an object of any class or (for the reflection / identity) as a 4x4 array.
        how = str(rng.choice(["point-reflection-object", "point-reflection-array", "foreign-slots", "foreign-slots",
                              "identity-object"]))
        nm = str(rng.choice(CLASSES))
        if how == "point-reflection-array":
            M = np.diag([-1.0, -1.0, -1.0, 1.0])
            return M.copy(), (lambda q, M=M: apply_affine(M, q)), {"array": M.tolist(), "how": how}
        if how == "point-reflection-object":
            a = e.cls[nm](np.diag([-1.0, -1.0, -1.0, 1.0]))
        elif how == "identity-object":
            a = e.cls[nm]()
        else:
            nm = str(rng.choice([c for c in CLASSES if c != "Affine"]))
            full = make(e, rng, "Affine", "any")
            v = np.array(full._vec12, dtype=float)
            own = set(e.cls[nm].param_inds) | ({6, 7, 8} if nm.startswith("Similarity") else set())
            for k in own:
                v[k] = 0.0
            a = e.cls[nm](v)
            if not full.is_direct:
                reflect(a)
        M = a.as_affine().copy()
        return a, (lambda q, M=M: apply_affine(M, q)), {"class": nm, "vec12": a._vec12.tolist(), "direct": bool(a.is_direct),
                                                       "param": np.asarray(a.param).tolist(), "how": how}
    if kind == "polyaffine":
        nc = int(rng.integers(1, 4))
        centers = rng.uniform(-10, 10, (nc, 3))
        mats = np.array([make(e, rng, "Affine", "any").as_affine() for _ in range(nc)])
        sigma = float(rng.uniform(3, 10))
        twin = PolyAffine(centers.copy(), mats.copy(), sigma)        # never handed to the code under test
        desc = {"polyaffine": {"centers": centers.tolist(), "affines": mats.tolist(), "sigma": sigma, "glob_affine": None}}
        how = str(rng.choice(["none", "ctor-matrix", "ctor-object", "compose"]))
        if how == "none":
            return PolyAffine(centers.copy(), mats.copy(), sigma), (lambda q, twin=twin: twin.apply(q)), desc
        # a PolyAffine that already carries a global affine G (applied first): T(x) = sum_i w_i(G x) T_i G x
        g = make(e, rng, str(rng.choice(CLASSES)), "any")
        G = g.as_affine().copy()
        desc["polyaffine"]["glob_affine"] = {"how": how, "matrix": G.tolist()}
        if how == "ctor-matrix":
            P = PolyAffine(centers.copy(), mats.copy(), sigma, glob_affine=G.copy())
        elif how == "ctor-object":
            P = PolyAffine(centers.copy(), mats.copy(), sigma, glob_affine=g)
        else:
            P = PolyAffine(centers.copy(), mats.copy(), sigma).compose(g)
        return P, (lambda q, twin=twin, G=G: twin.apply(apply_affine(G, q))), desc
    if kind == "callable":
        k = int(rng.integers(0, 3))
        c = float(np.round(rng.uniform(0.5, 2.0), 3))
        fn = [lambda q, c=c: 20.0 * np.cos(np.asarray(q) * 0.1 * c) + 1.0, lambda q, c=c: 15.0 * np.tanh(np.asarray(q) * 0.05) ** 3 * c,
              lambda q, c=c: np.asarray(q)[:, ::-1] - c][k]
        return Transform(fn), fn, {"callable": k, "c": c}
    raise ValueError(kind)


PART_KINDS = ["none", "array", "affine", "zeroparam", "polyaffine", "callable"]


def sec_chain_mixed(ck, e, rng):
    """ChainTransform whose pre / post parts are ANY transform the docstring allows (None, 4x4 array, affine
    object, PolyAffine, generic callable) around an optimizable affine of any class: apply must equal applying
    pre, optimizable, post in turn - also after parameter updates through ChainTransform.param."""
    from nipy.algorithms.registration.chain_transform import ChainTransform
    reps = ck.n(2, 12)
    n = 0
    for kpre in PART_KINDS:
        for kpost in PART_KINDS:
            for r in range(reps):
                pre, fpre, dpre = rand_part(e, rng, kpre)
                post, fpost, dpost = rand_part(e, rng, kpost)
                cname = str(rng.choice(CLASSES))
                opt = make(e, rng, cname, "any")
                x = pts(rng, 5)
                n += 1
                ck.count(("chain-mixed", kpre, kpost, r, cname, tuple(opt._vec12)), bucket="chain-mixed:%s/%s" % (kpre, kpost))
                replay = {"pre": dpre, "post": dpost, "optimizable": {"class": cname, "vec12": opt._vec12.tolist(), "direct": bool(opt.is_direct)},
                          "points": x.tolist()}
                sig_kind = "%s-pre/%s-post" % (kpre, kpost)
                begin(e)
                e.pa_unnormalised = 0
                try:
                    ct = ChainTransform(opt, pre=pre, post=post)
                    got = ct.apply(x)
                    # update the optimizable part through the chain and apply again (same chain object)
                    p = np.round(rng.uniform(-4, 4, len(opt.param_inds)) * 8) / 8
                    ct.param = p
                    got2 = ct.apply(x)
                except Exception as ex:  # noqa
                    ck.fail("chain/raises/" + sig_kind, "ChainTransform(%s, pre=<%s>, post=<%s>) raised %s: %s" % (cname, kpre, kpost, type(ex).__name__, ex), replay)
                    continue
                dev = m2v_dev(e)
                # NB: `got` was produced before the update; its reference needs the old parameters -> recompute from a twin
                twin = e.cls[cname](np.asarray(replay["optimizable"]["vec12"]), radius=1)
                if not opt.is_direct:
                    reflect(twin)
                Mo1 = twin.as_affine()
                Mo2 = opt.as_affine()
                for tag, g, Mo in (("", got, Mo1), ("/after-param-update", got2, Mo2)):
                    mid = fpre(x)
                    mid2 = mid @ Mo[:3, :3].T + Mo[:3, 3]
                    want = fpost(mid2)
                    if not close(g, want, 1e-8):
                        sc = max(1.0, float(np.max(np.abs(want))), float(np.max(np.abs(mid2)))) ** 2
                        attribute(ck, e, 2 * dev, maxerr(g, want), sc, "chain/apply-is-not-post.opt.pre/%s%s" % (sig_kind, tag),
                                  "ChainTransform(%s, pre=<%s>, post=<%s>).apply differs from post(optimizable(pre(x))) by %g"
                                  % (cname, kpre, kpost, maxerr(g, want)), dict(replay, param_after_update=p.tolist()))
                        break
    ck.section("chain_mixed", cases=n, kinds=PART_KINDS)


def sec_chain(ck, e, T, rng):
    from nipy.algorithms.registration.chain_transform import ChainTransform
    N = ck.n(16, 400)
    n = 0
    for i in range(N):
        mode = ["quarter", "any", "nearpi", "near0"][i % 4]
        names = [str(rng.choice(CLASSES)) for _ in range(3)]
        pre, opt, post = (make(e, rng, nm, mode) for nm in names)
        ck.count(("chain", tuple(names), tuple(pre._vec12), tuple(opt._vec12), tuple(post._vec12)), bucket="chain:" + mode)
        x = pts(rng)
        replay = {"pre": [names[0], pre._vec12.tolist(), bool(pre.is_direct)], "optimizable": [names[1], opt._vec12.tolist(), bool(opt.is_direct)],
                  "post": [names[2], post._vec12.tolist(), bool(post.is_direct)], "points": x.tolist()}
        begin(e)
        try:
            ct = ChainTransform(opt, pre=pre, post=post)
            got = ct.apply(x)
        except Exception as ex:  # noqa
            ck.fail("chain/raises", "ChainTransform(%s, pre=%s, post=%s).apply raised %s: %s" % (names[1], names[0], names[2], type(ex).__name__, ex), replay)
            continue
        svds = list(e.proxy.svds)
        dev = m2v_dev(e)
        n += 1
        want = post.apply(opt.apply(pre.apply(x)))
        if not close(got, want):
            attribute(ck, e, 2 * dev, maxerr(got, want), max(1.0, float(np.max(np.abs(want))), float(np.max(np.abs(opt.apply(pre.apply(x)))))),
                      "chain/apply-is-not-post.opt.pre", "ChainTransform.apply differs from post(optimizable(pre(x))) by %g" % maxerr(got, want), replay)
        if not np.array_equal(ct.param, opt.param):
            ck.fail("chain/param", "ChainTransform.param is not the optimizable transform's param", replay)
        # model: oracles of the two compose calls in evaluation order
        c1 = opt.compose(pre)
        M1 = opt.as_affine() @ pre.as_affine()
        M2 = post.as_affine() @ c1.as_affine()
        k1 = type(c1).__name__
        k2 = type(post.compose(c1)).__name__
        it = iter(svds)
        os_ = []
        ok = True
        for k, M in ((k1, M1), (k2, M2)):
            ow = e.fx_owner[k]
            sv = next(it, None) if ow == "Affine" else None
            if ow == "Affine" and sv is not None:
                M = M.copy()
                M[:3, :3] = sv[0]
            o = oracle_for(e, ow, M, sv, False)
            if o is None:
                ok = False
            os_.append(o)
        if ok:
            sc = max(1.0, float(np.max(np.abs(got))))
            T.add("chain_pts_agree %s %s %s %s %s %s %s" % (cq(EPS * frac(sc) + frac(16 * dev * sc if dev > 1e-10 else 0.0)), cxf(view(e, pre, False)), cxf(view(e, opt, False)), cxf(view(e, post, False)),
                                                            clist(os_), cmatq(x), cmatq(got)),
                  "chain/model-vs-impl", replay, exact=False)
    # defaults: pre/post None are identities
    a = make(e, rng, "Rigid", "any")
    x = pts(rng)
    if not close(ChainTransform(a).apply(x), a.apply(x)):
        ck.fail("chain/default-pre-post", "ChainTransform(t).apply differs from t.apply", {"vec12": a._vec12.tolist()})
    # longer compose / inv chains
    L = ck.n(12, 300)
    for i in range(L):
        mode = "quarter" if i % 3 == 0 else "any"
        k = int(rng.integers(2, 6))
        ts = [make(e, rng, str(rng.choice(CLASSES)), mode) for _ in range(k)]
        x = pts(rng)
        cur = ts[-1]
        want = cur.apply(x)
        desc = [type(cur).__name__]
        devsum = 0.0
        big = max(1.0, float(np.max(np.abs(want))))
        for t in ts[-2::-1]:
            if rng.random() < 0.3:
                ti = check_inv(ck, e, T, rng, t, mode, tag="chain-inv")
                if ti is None:
                    break
                t = ti
                desc.append("inv(%s)" % type(t).__name__)
            else:
                desc.append(type(t).__name__)
            devsum += m2v_dev(e)
            cur = check_compose(ck, e, T, rng, t, cur, mode, "chain-compose")
            if cur is None:
                break
            devsum += m2v_dev(e)
            want = t.apply(want)
            big = max(big, float(np.max(np.abs(want))), float(np.max(np.abs(cur.as_affine()))))
        ck.count(("cchain", tuple(desc), tuple(ts[0]._vec12)), bucket="cchain:len%d" % k)
        if cur is not None and not close(cur.apply(x), want, 1e-8):
            attribute(ck, e, devsum, maxerr(cur.apply(x), want), big * big, "chain-compose/length-%d" % k,
                      "composition chain %s differs from sequential application by %g" % (desc, maxerr(cur.apply(x), want)),
                      {"chain": desc, "vec12": [t._vec12.tolist() for t in ts], "direct": [bool(t.is_direct) for t in ts], "points": x.tolist()})
    ck.section("chain", chain_transform_cases=n, compose_chains=L)


def sec_pool(ck, e, rng):
    """Multi-step composition sequences with object re-use: a pool of transforms (plain callables wrapped in
    Transform, the six affine classes, PolyAffine, and every composition built so far) grows by
    `pool[i].compose(pool[j])`; each member carries an independent reference function (pure Python closures over
    matrices / raw callables, never over Transform objects).  After EVERY step every member of the pool must still
    map points as its reference: a composition equals the sequential application, and composing never changes
    its operands or earlier results."""
    from nipy.algorithms.registration.transform import Transform
    from nipy.algorithms.registration.polyaffine import PolyAffine
    from nibabel.affines import apply_affine
    nseq = ck.n(8, 60)
    nsteps = ck.n(7, 12)
    total = 0
    noverflow = 0
    for sq in range(nseq):
        x = pts(rng, 5)
        pool = []        # (object, reference function, description)
        pool_desc = []   # full description of the PolyAffine members for the replay

        def add_callable():
            k = int(rng.integers(0, 3))
            c = float(np.round(rng.uniform(0.5, 2.0), 3))
            # non-linear / non-commuting maps of bounded growth (compositions of compositions nest exponentially deep)
            fn = [lambda q, c=c: 20.0 * np.cos(np.asarray(q) * 0.1 * c) + 1.0, lambda q, c=c: 15.0 * np.tanh(np.asarray(q) * 0.05) ** 3 * c,
                  lambda q, c=c: np.asarray(q)[:, ::-1] - c][k]
            pool.append((Transform(fn), fn, "callable%d(%g)" % (k, c)))

        def add_affine():
            nm = str(rng.choice(CLASSES))
            a = make(e, rng, nm, "any")
            M = a.as_affine().copy()
            pool.append((a, lambda q, M=M: apply_affine(M, q), nm))

        def add_poly():
            P, ref, d = rand_part(e, rng, "polyaffine")
            g = d["polyaffine"]["glob_affine"]
            pool.append((P, ref, "PolyAffine(%d%s)" % (len(d["polyaffine"]["centers"]), ", glob via %s" % g["how"] if g else "")))
            pool_desc.append(d)
        add_callable()
        add_callable()
        add_affine()
        add_affine()
        add_poly()
        if sq % 3 == 0:
            add_callable()
        base = [ref(x) for _, ref, _ in pool]
        log = []
        devsum = 0.0
        for st in range(nsteps):
            i, j = int(rng.integers(0, len(pool))), int(rng.integers(0, len(pool)))
            # prefer re-using results of earlier compositions as the RIGHT operand, and re-using them again later
            if st >= 2 and rng.random() < 0.6:
                j = int(rng.integers(max(0, len(pool) - 3), len(pool)))
            (a, ra, da), (b, rb, db) = pool[i], pool[j]
            total += 1
            ck.count(("pool", sq, st, da, db), bucket="pool:" + ("generic" if ("callable" in da + db or "o" in (da + db).split()) else "affine"))
            log.append("pool[%d] = pool[%d].compose(pool[%d])   # %s o %s" % (len(pool), i, j, da, db))
            begin(e)
            try:
                c = a.compose(b)
            except Exception as ex:  # noqa
                ck.fail("pool/compose-raises", "compose raised %s: %s in a multi-step sequence" % (type(ex).__name__, ex),
                        {"initial": [d for _, _, d in pool[:len(base)]], "steps": log})
                break
            devsum += m2v_dev(e)
            pool.append((c, lambda q, ra=ra, rb=rb: ra(rb(q)), "(%s o %s)" % (da, db)))
            bad = None
            overflow = False
            for k, (obj, ref, d) in enumerate(pool):
                e.pa_unnormalised = 0
                want = ref(x)
                if not np.all(np.isfinite(want)) or float(np.max(np.abs(want))) > 1e12:
                    overflow = True          # reference itself out of range: nothing to compare (sequence ends)
                    break
                got = obj.apply(x)
                if not close(got, want, 1e-8):
                    bad = (k, d, maxerr(got, want), max(1.0, float(np.max(np.abs(want)))), e.pa_unnormalised)
                    break
            if overflow:
                noverflow += 1
                break
            if bad is not None:
                k, d, err, sc, far = bad
                replay = {"initial": [dd for _, _, dd in pool[:len(base)]], "polyaffines": pool_desc, "steps": log, "wrong_member": k,
                          "member": d, "error": err, "points": x.tolist()}
                if far:
                    ck.fail(PA_FAR, "inside %s a PolyAffine kernel call received a point whose Gaussian weights all underflow "
                            "(sum < 1e-200): the kernel returns a wrongly normalised value there, so the composition differs from "
                            "the sequential application by %g" % (d, err), dict(replay, unnormalised_kernel_calls=far))
                elif k == len(pool) - 1:
                    attribute(ck, e, devsum, err, sc * sc, "pool/composition-differs-from-sequential",
                              "step %d: %s does not map points as the sequential application (error %g)" % (st, d, err), replay)
                else:
                    attribute(ck, e, 0.0, err, sc, "pool/compose-changes-operand-or-earlier-result",
                              "after step %d (%s), the earlier transform pool[%d] = %s no longer maps points as before (error %g)"
                              % (st, log[-1], k, d, err), replay)
                break
    ck.section("pool", sequences=nseq, compose_steps=total, sequences_ended_by_overflow=noverflow)


def sec_generic(ck, e, rng):
    from nibabel.affines import apply_affine as apply_affine_
    from nipy.algorithms.registration.transform import Transform
    from nipy.algorithms.registration.polyaffine import PolyAffine
    N = ck.n(10, 60)
    for i in range(N):
        f = lambda p, s=float(rng.uniform(1, 2)): np.asarray(p) * s + 1.0       # noqa
        g = lambda p, s=float(rng.uniform(1, 2)): np.asarray(p) ** 3 * s        # noqa
        x = pts(rng)
        ck.count(("generic", i), bucket="generic")
        tf, tg = Transform(f), Transform(g)
        if not close(tf.compose(tg).apply(x), f(g(x))):
            ck.fail("generic/compose", "Transform(f).compose(Transform(g)).apply(x) != f(g(x))", {"points": x.tolist()})
        a = make(e, rng, str(rng.choice(CLASSES)), "any")
        if not close(a.compose(tg).apply(x), a.apply(g(x))):
            ck.fail("generic/affine-onto-callable", "Affine.compose(Transform(g)).apply(x) != a(g(x))", {"points": x.tolist()})
        if not close(tf.compose(a).apply(x), f(a.apply(x))):
            ck.fail("generic/callable-onto-affine", "Transform(f).compose(a).apply(x) != f(a(x))", {"points": x.tolist()})
        # PolyAffine bookkeeping
        nc = int(rng.integers(1, 4))
        centers = rng.uniform(-10, 10, (nc, 3))
        locs = [make(e, rng, "Affine", "any") for _ in range(nc)]
        sigma = float(rng.uniform(3, 10))
        ck.count(("polyaffine", i), bucket="polyaffine")
        P = PolyAffine(centers, locs, sigma)
        b = make(e, rng, str(rng.choice(CLASSES)), "any")
        rp = {"centers": centers.tolist(), "sigma": sigma, "affines": [t._vec12.tolist() for t in locs], "other": [type(b).__name__, b._vec12.tolist()],
              "points": x.tolist()}
        Pb = P.compose(b)
        if not close(Pb.apply(x), P.apply(b.apply(x)), 1e-8):
            ck.fail("polyaffine/compose", "PolyAffine.compose(b).apply(x) != P(b(x))", rp)
        bP = b.compose(P)          # dispatches to P.left_compose(b)
        if not close(bP.apply(x), b.apply(P.apply(x)), 1e-8):
            ck.fail("polyaffine/left_compose", "b.compose(PolyAffine).apply(x) != b(P(x))", rp)
        b2 = make(e, rng, "Rigid", "any")
        if not close(Pb.compose(b2).apply(x), P.apply(b.apply(b2.apply(x))), 1e-8):
            ck.fail("polyaffine/compose-twice", "PolyAffine composed twice loses the first global affine", rp)
        # the bookkeeping of polyaffine_compose_apply: glob' = A, then G.A
        if not (close(Pb.glob_affine, b.as_affine(), 1e-12) and close(Pb.compose(b2).glob_affine, b.as_affine() @ b2.as_affine(), 1e-12)):
            ck.fail("polyaffine/glob-affine-bookkeeping", "PolyAffine.compose does not set glob_affine to G.A", rp)
        if not np.allclose(np.array(Pb.affines()), np.array(P.affines()), atol=0, rtol=0):
            ck.fail("polyaffine/compose-changes-local-affines", "compose changed the local affines", rp)
        if not close(P.compose(tg).apply(x), P.apply(g(x)), 1e-8):
            ck.fail("polyaffine/compose-callable", "PolyAffine.compose(Transform(g)) wrong", rp)
        # a PolyAffine with / without a global affine in every composition position
        Pg, fP, dP = rand_part(e, rng, "polyaffine")
        a1, fa1, da1 = rand_part(e, rng, "affine")
        b1, fb1, db1 = rand_part(e, rng, str(rng.choice(["affine", "affine", "callable"])))
        rpp = {"P": dP, "a": da1, "b": db1, "points": x.tolist()}
        glob = "with-glob" if dP["polyaffine"]["glob_affine"] else "no-glob"
        ck.count(("polyaffine-pos", i, glob), bucket="polyaffine:" + glob)
        positions = [
            ("P", lambda: Pg, lambda q: fP(q)),
            ("a.compose(P)", lambda: a1.compose(Pg), lambda q: fa1(fP(q))),
            ("P.compose(b)", lambda: Pg.compose(b1), lambda q: fP(fb1(q))),
            ("a.compose(P.compose(b))", lambda: a1.compose(Pg.compose(b1)), lambda q: fa1(fP(fb1(q)))),
            ("a.compose(P).compose(b)", lambda: a1.compose(Pg).compose(b1), lambda q: fa1(fP(fb1(q)))),
            ("b.compose(a.compose(P))", lambda: b1.compose(a1.compose(Pg)), lambda q: fb1(fa1(fP(q)))),
            ("P again", lambda: Pg, lambda q: fP(q)),
        ]
        for name, build, ref in positions:
            e.pa_unnormalised = 0
            try:
                got = build().apply(x)
            except Exception as ex:  # noqa
                ck.fail("polyaffine/position-raises/" + glob, "%s raised %s: %s" % (name, type(ex).__name__, ex), dict(rpp, expression=name))
                continue
            want = ref(x)
            if not close(got, want, 1e-8):
                ck.fail(PA_FAR if e.pa_unnormalised else "polyaffine/composition-differs-from-sequential/%s" % glob,
                        "%s (PolyAffine %s) differs from the sequential application by %g" % (name, glob, maxerr(got, want)),
                        dict(rpp, expression=name))
        # normalised weights: T(x) = sum_i w_i(x) T_i x with sum_i w_i = 1, so T(x) lies in the bounding box of the
        # T_i x - also far away from every centre (distance 12, 25, 45 sigma)
        for far in (12.0, 25.0, 45.0):
            u = rng.normal(size=3)
            xf = (centers[0] + u / np.linalg.norm(u) * far * sigma)[None, :]
            each = np.array([apply_affine_(t.as_affine(), xf)[0] for t in locs])
            got = P.apply(xf)[0]
            lo, hi = each.min(axis=0), each.max(axis=0)
            slack = 1e-9 * max(1.0, float(np.max(np.abs(each))))
            ck.count(("polyaffine-far", i, far), bucket="polyaffine:far%d" % int(far))
            if not (np.all(got >= lo - slack) and np.all(got <= hi + slack)):
                rpf = dict(rp, point=xf[0].tolist(), distance_in_sigma=far, result=got.tolist(), local_images=each.tolist())
                if far >= 30:
                    ck.fail(PA_FAR, "PolyAffine.apply maps a point %g sigma away from every centre to %s, outside the range %s..%s of the "
                            "local affines' images (all Gaussian weights underflow; the kernel divides by TINY)" % (far, got.tolist(), lo.tolist(), hi.tolist()), rpf)
                else:
                    ck.fail("polyaffine/not-a-convex-combination", "PolyAffine.apply(x) outside the range of the local affines' images at %g sigma" % far, rpf)
            # and the composition laws hold there too
            e.pa_unnormalised = 0
            if not close(bP.apply(xf), b.apply(P.apply(xf)), 1e-8):
                ck.fail(PA_FAR if e.pa_unnormalised else "polyaffine/left_compose", "b.compose(PolyAffine).apply(x) != b(P(x)) at %g sigma from the centres" % far,
                        dict(rp, point=xf[0].tolist(), distance_in_sigma=far))
    ck.section("generic", cases=N)


def sec_clip(ck, e, T, rng):
    """`threshold` and the translation column of `to_matrix44` on integer-valued floats (exact in double below 2^53):
    property oracle on the implementation (range, identity inside, saturation outside) and the model clip_vec /
    m44_translation built on the function translated from the source."""
    from ..kit import czl, cz
    am = e.am
    md = float(am.MAX_DIST)
    if md != int(md) or md < 0:
        ck.fail("clip/max-dist-not-integral", "MAX_DIST = %r is not a non-negative integer value" % am.MAX_DIST, {"MAX_DIST": repr(am.MAX_DIST)})
        return
    MD = int(md)
    T.add("max_dist_agrees %s" % cz(MD), "clip/model-vs-impl/MAX_DIST", {"MAX_DIST": MD}, exact=True)
    N = ck.n(40, 600)
    n = 0
    for i in range(N):
        th = [0, 1, 7, MD, int(rng.integers(0, 50)), int(rng.integers(0, 2 ** 40))][i % 6]
        ln = int(rng.integers(0, 7)) if i % 5 else 3
        kind = ["inside", "around", "far", "edge"][i % 4]
        if kind == "inside":
            x = rng.integers(-th, th + 1, ln)
        elif kind == "around":
            x = rng.integers(-2 * th - 3, 2 * th + 4, ln)
        elif kind == "far":
            x = rng.integers(-2 ** 50, 2 ** 50, ln)
        else:
            x = rng.choice(np.array([-th - 1, -th, -th + 1, 0, th - 1, th, th + 1], dtype=np.int64), ln)
        x = np.asarray(x, dtype=np.int64)
        xf_ = x.astype(float)
        out = np.asarray(am.threshold(xf_, float(th)))
        ck.count(("clip", th, tuple(x.tolist())), nontrivial=bool(np.any(np.abs(x) > th)), bucket="clip:%s" % kind)
        n += 1
        replay = {"x": x.tolist(), "th": th}
        want = np.where(x > th, th, np.where(x < -th, -th, x)).astype(float)
        if out.shape != xf_.shape or not np.array_equal(out, want):
            sub = "outside" if out.shape == xf_.shape and np.array_equal(out[np.abs(x) <= th], xf_[np.abs(x) <= th]) else "inside"
            ck.fail("threshold/not-the-clip-to-[-th,th]/%s-range" % sub, "threshold(%s, %s) = %s" % (x.tolist(), th, out.tolist()), replay)
            if out.shape != xf_.shape or not np.all(out == np.round(out)):
                continue
        T.add("clip_agrees %s %s %s" % (cz(th), czl(x.tolist()), czl([int(v) for v in out.tolist()])),
              "threshold/model-vs-impl", replay, show="clip_vec %s %s" % (cz(th), czl(x.tolist())), exact=True)
    # to_matrix44: translation column, every size, translations inside / at / beyond MAX_DIST
    M = ck.n(18, 180)
    for i in range(M):
        size = (6, 7, 12)[i % 3]
        t = np.zeros(size)
        if size == 7:
            t[6] = 2.0
        cand = np.array([0, 5, -5, MD - 1, MD, MD + 1, -MD + 1, -MD, -MD - 1, 3 * MD, -3 * MD, int(rng.integers(-2 * MD, 2 * MD))], dtype=np.int64)
        tr = rng.choice(cand, 3) if i >= 3 else cand[[3 * i, 3 * i + 1, 3 * i + 2]]
        t[0:3] = tr.astype(float)
        t[3:6] = quarter_vec(rng, False)
        ck.count(("clip44", size, tuple(tr.tolist())), nontrivial=bool(np.any(np.abs(tr) > MD)), bucket="clip:m44-size%d" % size)
        n += 1
        A = am.to_matrix44(t)
        col = A[:3, 3]
        replay = {"t": t.tolist()}
        want = np.clip(tr, -MD, MD).astype(float)
        if not np.array_equal(col, want):
            ck.fail("to_matrix44/translation-not-clipped-at-MAX_DIST/%s" % ("beyond" if np.array_equal(col[np.abs(tr) <= MD], want[np.abs(tr) <= MD]) else "within"),
                    "to_matrix44(%s)[:3, 3] = %s" % (t.tolist(), col.tolist()), replay)
            if not np.all(col == np.round(col)):
                continue
        # Affine object: as_affine()/apply carry the clipped translation
        if size == 12:
            a = e.cls["Affine"](t.copy())
            if not np.array_equal(a.as_affine()[:3, 3], want):
                ck.fail("as_affine/translation-not-clipped-at-MAX_DIST", "Affine(%s).as_affine()[:3, 3] = %s" % (t.tolist(), a.as_affine()[:3, 3].tolist()), replay)
        tz = [int(v) for v in tr.tolist()] + [0] * (size - 3)
        T.add("m44_translation_agrees %s %s" % (czl(tz), czl([int(v) for v in col.tolist()])),
              "to_matrix44/model-vs-impl/translation-clip", replay, show="m44_translation %s" % czl(tz), exact=True)
    ck.section("clip", cases=n, MAX_DIST=MD)


def sec_fold(ck, e, T, rng):
    """Right-nested compose chains t1.compose(t2.compose(... z)) of 3..7 transforms of mixed classes: property oracle
    (apply = sequential application; inverse of the chain maps back) and the model's compose_right fed with the SciPy
    values recorded at every step; also the model's sequential application against the implementation's composed object."""
    N = ck.n(10, 150)
    done = 0
    for i in range(N):
        mode = "quarter" if i % 2 == 0 else "any"
        k = int(rng.integers(2, 7))
        ts = [make(e, rng, str(rng.choice(CLASSES)), mode) for _ in range(k + 1)]
        names = [type(t).__name__ for t in ts]
        x = pts(rng)
        cur = ts[-1]
        steps = []
        devsum = 0.0
        replay = {"chain": names, "vec12": [t._vec12.tolist() for t in ts], "direct": [bool(t.is_direct) for t in ts], "points": x.tolist()}
        ck.count(("fold", tuple(names), tuple(ts[0]._vec12)), bucket="fold:len%d" % (k + 1))
        for t in ts[-2::-1]:
            begin(e)
            Mt = t.as_affine() @ cur.as_affine()
            try:
                cur = t.compose(cur)
            except Exception as ex:  # noqa
                ck.fail("fold/compose-raises", "%s raised inside a compose chain: %s: %s" % (names, type(ex).__name__, ex), replay)
                cur = None
                break
            devsum += m2v_dev(e)
            steps.append((e.fx_owner.get(type(cur).__name__), Mt, e.proxy.svds[-1] if e.proxy.svds else None))
        if cur is None:
            continue
        want = x
        big = 1.0
        for t in ts[::-1]:
            want = t.apply(want)
            big = max(big, float(np.max(np.abs(want))))
        big = max(big, float(np.max(np.abs(cur.as_affine()))))
        got = cur.apply(x)
        if not close(got, want, 1e-8):
            attribute(ck, e, devsum, maxerr(got, want), big * big, "fold/apply-differs-from-sequential/length-%d" % (k + 1),
                      "compose chain %s differs from sequential application by %g" % (names, maxerr(got, want)), replay)
        begin(e)
        try:
            ci = cur.inv()
            back = ci.apply(want)
            devi = m2v_dev(e)
            if not close(back, x, 1e-8 * big):
                attribute(ck, e, devsum + devi, maxerr(back, x), big * big, "fold/inverse-of-chain-does-not-map-back",
                          "inverse of compose chain %s maps the transformed points back with error %g" % (names, maxerr(back, x)), replay)
        except Exception as ex:  # noqa
            ck.fail("fold/inv-raises", "inverse of compose chain %s raised %s: %s" % (names, type(ex).__name__, ex), replay)
        done += 1
        # model
        for exact in ([True, False] if mode == "quarter" else [False]):
            vws = [view(e, t, exact) for t in ts]
            os_ = [oracle_for(e, ow, Mt, svd, exact) for (ow, Mt, svd) in steps][::-1]
            if any(v is None for v in vws) or any(o is None for o in os_):
                continue
            tsl, zl, ol = clist([cxf(v) for v in vws[:-1]]), cxf(vws[-1]), clist(os_)
            mt = "(qcompose_right %s %s %s)" % (tsl, zl, ol)
            terms = obs_terms(e, mt, cur, exact, devsum)
            if terms is None:
                continue
            # points are decimal floats: their images are compared at a tolerance in both modes
            xs, gs = x, got
            scale = max(1.0, big)
            eps = cq(EPS * int(scale) * 10 + frac(8 * devsum * scale if devsum > 1e-10 else 0.0))
            terms = terms + ["fold_pts_agree %s %s %s %s %s %s" % (eps, tsl, zl, ol, cmatq(xs), cmatq(gs)),
                             "seq_pts_agree %s %s %s %s %s" % (eps, tsl, zl, cmatq(xs), cmatq(gs))]
            for tm in terms:
                T.add(tm, "fold/model-vs-impl", replay,
                      show="option_map (fun c => (x_class c, x_direct c, qas_affine c)) %s" % mt, exact=exact)
            break
        else:
            T.skipped += 1
    ck.section("fold", chains=N, completed=done)


class Terms:
    """Collects Coq boolean terms with the failure signature / replay to report when one is false."""

    def __init__(self):
        self.terms = []
        self.meta = []
        self.skipped = 0

    def add(self, term, sig, replay, show=None, exact=None):
        self.terms.append(term)
        self.meta.append((sig, replay, show, exact))


def run(ck):
    ck.cov["rule"] = ("all 36 ordered class pairs x parameter vectors (quarter-turn rotations and power-of-two scalings: exact; "
                      "arbitrary angles incl. near 0 and near pi: 1e-9), with/without reflection flag; integer 4x4 matrices of both "
                      "determinant signs per class; param vectors on dyadic grids for 5 radii; ChainTransform triples and compose/inv "
                      "chains of length 2..5; right-nested compose chains of 3..7 transforms through the model's compose_right; threshold / to_matrix44 "
                      "translation clip on integer vectors inside, at and beyond the bound; distinct by (section, classes, parameter vectors)")
    ck.coq_build()
    ck.overlay()
    e = setup(ck)
    T = Terms()
    sec_select(ck, e, T)
    sec_vec2mat(ck, e, T, ck.rng("vec2mat"))
    sec_m44(ck, e, T, ck.rng("m44"))
    sec_compose(ck, e, T, ck.rng("compose"))
    sec_inv(ck, e, T, ck.rng("inv"))
    sec_from44(ck, e, T, ck.rng("from44"))
    sec_param(ck, e, T, ck.rng("param"))
    sec_chain(ck, e, T, ck.rng("chain"))
    sec_chain_mixed(ck, e, ck.rng("chain-mixed"))
    sec_stateful(ck, e, T, ck.rng("stateful"))
    sec_generic(ck, e, ck.rng("generic"))
    sec_pool(ck, e, ck.rng("pool"))
    sec_clip(ck, e, T, ck.rng("clip"))
    sec_fold(ck, e, T, ck.rng("fold"))
    ck.trust += [
        "oracle contracts (C08): spl.svd returns U, s, V with U diag(s) V = A (hypothesis of svd_sign_fix_reconstructs; the recorded "
        "values are threaded into the model); spl.inv returns a two-sided inverse (hypothesis of inv_apply); "
        "rotation_vec2mat(rotation_mat2vec(R)) = R for proper rotations R and exp(log s) = s for 1e-10 <= s <= 1e10 "
        "(the model stores the matrices/scales instead of their logarithms; checked numerically at 1e-9 in sections vec2mat/compose/from44); "
        "sin^2 + cos^2 = 1 and sqrt from Coq's Reals for rotation_vec2mat_is_rotation; exact division (floating point error not modelled)",
        "the harness reads _vec12/_direct of implementation objects and replaces nipy.algorithms.registration.affine.spl by a recording proxy",
    ]
    ck.assume += ["log-scales within LOG_MAX_DIST (that threshold is part of the oracle-evaluated view; the translation clip at MAX_DIST is "
                  "modelled: threshold_clips / clip_vec_clips / to_matrix44_translation_clipped, integer-valued inputs)",
                  "matrices handed to from_matrix44 are non-singular with singular values in [1e-10, 1e10]"]
    if ck.build is not None and ck.build.ok:
        res = ck.coq_bools(HDR, T.terms, shard=ck.n(90, 250))
        ck.cov["traces_validated_against_impl"] += len(res)
        nexact = sum(1 for m in T.meta if m[3])
        ck.section("correspondence", terms=len(res), exact_terms=nexact, cases_without_model_literal=T.skipped, disagreements=sum(1 for r in res if not r))
        shown = set()
        for ok, term, (sig, replay, show, exact) in zip(res, T.terms, T.meta):
            if ok:
                continue
            rp = dict(replay)
            rp["coq_term"] = term[:4000]
            if show and sig not in shown:
                shown.add(sig)
                try:
                    rp["model_value"] = ck.coq_show(HDR, show)[:3000]
                except Exception as ex:  # noqa
                    rp["model_value"] = "coq_show failed: %s" % ex
            ck.fail(sig, "model and implementation disagree (%s)" % sig, rp)
    else:
        ck.section("correspondence", terms=0, skipped="coq build broken")
