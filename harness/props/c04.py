"""C04 - resampling samples the source at the mapped world location.

Sections (each: exact correspondence with the Coq model + property oracles
evaluated directly on the implementation):

  resample      nipy.algorithms.resample.resample / resample_img2img: the
                (matrix, offset) handed to scipy.ndimage.affine_transform and the
                coordinates handed to map_coordinates (callable mapping ->
                ImageInterpolator) are captured by wrapping those names in the
                importing nipy module and compared exactly with the model.
  interpolator  ImageInterpolator.evaluate: coordinates incl. pre-pad offset.
  registration  nipy.algorithms.registration.resample.resample: Tvox handed to
                _cspline_resample3d / (matrix, offset) handed to affine_transform,
                four voxel/world flag combinations, short-cut predicate.
  volumeimg     VolumeImg.as_volume_img / values_in_world / xyz_ordered / _swapaxes.
  xyz_loop      axis-swap while loop of VolumeImg.xyz_ordered: recorded _swapaxes calls vs ModelSwap.swap_loop.
  realign4d     scanner_coords, Realign4dAlgorithm.resample_full_data identity.

All exact cases live on an exact-arithmetic island: signed permutations,
power-of-two zooms, unit shears, half-integer shifts; numpy.linalg.inv of each
matrix is checked to be the exact rational inverse (otherwise the case is
re-drawn) and is an oracle input of the model (Exec.inv_check re-validates it).
"""
import contextlib
import itertools
from fractions import Fraction

import numpy as np

from ..kit import cnat, cstr, cbool, clist, frac

HDR = ("From Coq Require Import String.\nFrom Coq Require Import List ZArith QArith Qcanon.\n"
       "From NV.Lib Require Import RingMat Harness.\nFrom NV.C01 Require Import Model.\n"
       "From NV.C04 Require Import Model ModelSwap Exec.\nClose Scope Q_scope.\nClose Scope Qc_scope.\nOpen Scope string_scope.\n")

MODES = {"constant": "MConstant", "nearest": "MNearest", "reflect": "MReflect", "wrap": "MWrap",
         "mirror": "MMirror", "grid-constant": "MGridConstant", "grid-wrap": "MGridWrap"}
DT = {np.dtype(np.int64): 0, np.dtype(np.float64): 1, np.dtype(object): 2}


# ---------------------------------------------------------------- Coq literals
def cqc(x):
    f = frac(x)
    return "(qc (%d)%%Z %d%%positive)" % (f.numerator, f.denominator)


def cqv(v):
    return clist([cqc(x) for x in np.asarray(v).ravel().tolist()])


def cqm(M):
    return clist([cqv(r) for r in np.asarray(M)])


def cstrl(xs):
    return clist([cstr(x) for x in xs])


def ccs(cs):
    return "{| cnames := %s; cname := %s; cdt := %d |}" % (cstrl(cs.coord_names), cstr(cs.name), DT[np.dtype(cs.coord_dtype)])


def caff(a):
    return "(Build_aff %s %s %s)" % (ccs(a.function_domain), ccs(a.function_range), cqm(a.affine))


# ---------------------------------------------------------------- exact arithmetic helpers
def fmat(M):
    return [[frac(x) for x in row] for row in np.asarray(M).tolist()]


def fmm(A, B):
    return [[sum(a * b for a, b in zip(row, col)) for col in zip(*B)] for row in A]


def fident(n):
    return [[Fraction(int(i == j)) for j in range(n)] for i in range(n)]


def finv(M):
    """Exact inverse of a square Fraction matrix (Gauss-Jordan)."""
    n = len(M)
    A = [list(r) + e for r, e in zip(M, fident(n))]
    for c in range(n):
        p = next(r for r in range(c, n) if A[r][c] != 0)
        A[c], A[p] = A[p], A[c]
        pv = A[c][c]
        A[c] = [x / pv for x in A[c]]
        for r in range(n):
            if r != c and A[r][c] != 0:
                f = A[r][c]
                A[r] = [x - f * y for x, y in zip(A[r], A[c])]
    return [r[n:] for r in A]


def tofloat(F):
    M = np.array([[float(x) for x in r] for r in F])
    assert fmat(M) == F, "not exactly representable"
    return M


def exact_inverse(S, Sinv):
    n = len(S)
    return fmm(fmat(S), fmat(Sinv)) == fident(n) and fmm(fmat(Sinv), fmat(S)) == fident(n)


def rand_lin(rng, n, shear=0.3, zooms=(-1, 0, 0, 0, 1, 1, 2)):
    """signed permutation x power-of-two zooms, optionally times a unit shear"""
    perm = rng.permutation(n)
    M = np.zeros((n, n))
    for i in range(n):
        M[i, perm[i]] = (1.0 if rng.random() < 0.65 else -1.0) * 2.0 ** int(rng.choice(zooms))
    if n > 1 and rng.random() < shear:
        L = np.eye(n)
        i, j = rng.choice(n, 2, replace=False)
        L[max(i, j), min(i, j)] = float(rng.integers(-2, 3))
        M = L @ M
    return M


def hom(A, b):
    n = A.shape[0]
    H = np.eye(n + 1)
    H[:n, :A.shape[1]] = A
    H[:n, -1] = b
    return H


def rand_aff_exact(rng, n, shear=0.3):
    """(n+1)x(n+1) affine whose numpy inverse is the exact rational inverse"""
    for _ in range(50):
        H = hom(rand_lin(rng, n, shear), rng.integers(-6, 7, n) * 0.5)
        if exact_inverse(H, np.linalg.inv(H)):
            return H
    return np.eye(n + 1)


def rand_voxmap(rng, n, nt, src_shape):
    """integer target-voxel -> source-voxel map: signed permutation, steps 1..2, integer shift"""
    perm = rng.permutation(n)[:nt]
    A = np.zeros((n, nt))
    b = np.zeros(n)
    for j, ax in enumerate(perm):
        step = int(rng.choice([1, 1, 2]))
        sgn = 1 if rng.random() < 0.6 else -1
        A[ax, j] = sgn * step
        b[ax] = (src_shape[ax] - 1 if sgn < 0 else 0) + int(rng.integers(-1, 2))
    for ax in range(n):
        if ax not in perm:
            b[ax] = int(rng.integers(0, src_shape[ax]))
    N = np.zeros((n + 1, nt + 1))
    N[:n, :nt] = A
    N[:n, -1] = b
    N[-1, -1] = 1
    return N


def lookup(data, N, tshape, cval):
    """expected output of a grid-to-grid resampling: data[N v] or cval when N v is outside"""
    nt = len(tshape)
    idx = np.indices(tshape).reshape(nt, -1)
    src = (N[:-1, :nt] @ idx + N[:-1, -1:]).round().astype(int)
    inb = np.all((src >= 0) & (src < np.array(data.shape)[:, None]), axis=0)
    out = np.full(idx.shape[1], float(cval))
    out[inb] = data[tuple(src[:, inb])]
    return out.reshape(tshape), inb.reshape(tshape)


def interior_mask(data, N, tshape):
    """target voxels whose source voxel is strictly inside the array (not on its boundary)"""
    nt = len(tshape)
    idx = np.indices(tshape).reshape(nt, -1)
    src = (N[:-1, :nt] @ idx + N[:-1, -1:]).round().astype(int)
    return np.all((src >= 1) & (src < np.array(data.shape)[:, None] - 1), axis=0).reshape(tshape)


@contextlib.contextmanager
def patched(obj, name, new):
    old = getattr(obj, name)
    setattr(obj, name, new)
    try:
        yield
    finally:
        setattr(obj, name, old)


class NdimageProxy:
    """stands in for the `ndimage` module attribute of the labs volume modules"""
    def __init__(self, real, log):
        self._real, self._log = real, log

    def __getattr__(self, k):
        return getattr(self._real, k)

    def affine_transform(self, input, matrix, offset=0.0, **kw):
        self._log.append(("affine_transform", np.array(matrix, dtype=float), np.array(offset, dtype=float), dict(kw)))
        return self._real.affine_transform(input, matrix, offset=offset, **kw)

    def map_coordinates(self, input, coordinates, **kw):
        self._log.append(("map_coordinates", np.array(coordinates, dtype=float), dict(kw)))
        return self._real.map_coordinates(input, coordinates, **kw)


def close(a, b, tol=1e-9):
    a, b = np.asarray(a, float), np.asarray(b, float)
    return a.shape == b.shape and np.all(np.abs(a - b) <= tol * (1.0 + np.abs(b)))


IN_NAMES = ["i", "j", "k", "l"]
OUT_NAMES = ["x", "y", "z", "t"]
# boundary modes on which scipy honours "exact at in-bounds lattice points" for every order
LATTICE_MODES = ["constant", "nearest", "reflect", "mirror", "grid-wrap", "grid-constant"]


# ---------------------------------------------------------------- source storage (memory layout x dtype)
# Every entry point must see the same *logical* array whatever its storage: the expectations are computed from
# `values` (float64, C order), the implementation is handed `stored`.
LAYOUTS = ["C", "C", "F", "swapped-axes", "strided", "reversed", "readonly"]
DTYPES = ["float64", "float64", "float64", "float32", "int16", "int64", "uint8"]


def relayout(a, kind):
    """array equal to `a` element by element, stored differently"""
    a = np.asarray(a)
    nd = a.ndim
    if kind == "F":
        return np.asfortranarray(a)
    if kind == "swapped-axes" and nd >= 2:      # neither C- nor F-contiguous for nd >= 3, F for nd == 2
        return np.ascontiguousarray(np.swapaxes(a, 0, nd - 1)).swapaxes(0, nd - 1)
    if kind == "strided":                        # every second element of a larger block
        big = np.zeros(tuple(2 * n for n in a.shape), dtype=a.dtype)
        view = big[(slice(None, None, 2),) * nd]
        view[...] = a
        return view
    if kind == "reversed":                       # negative strides on every axis
        rev = (slice(None, None, -1),) * nd
        return np.ascontiguousarray(a[rev])[rev]
    c = np.array(a, order="C", copy=True)
    if kind == "readonly":
        c.flags.writeable = False
    return c


def draw_source(rng, shape, plain=False, dtypes=DTYPES, layouts=LAYOUTS):
    """(values float64 C-order, stored array, layout, dtype name): integers in -9..9 (0..18 for unsigned), exact in every dtype"""
    dtype = "float64" if plain else str(rng.choice(dtypes))
    layout = "C" if plain else str(rng.choice(layouts))
    lo, hi = (0, 19) if dtype.startswith("u") else (-9, 10)
    values = rng.integers(lo, hi, shape).astype(float)
    stored = relayout(values.astype(dtype), layout)
    assert np.array_equal(stored, values)
    return values, stored, layout, dtype


def plain_storage(layout, dtype):
    return layout == "C" and dtype == "float64"


def storage_suffix(layout, dtype, rerun_plain_ok):
    """'' or '/source-storage-dependent': the failing call passes when the same values are handed over as a plain
    C-contiguous float64 array"""
    if plain_storage(layout, dtype):
        return ""
    try:
        return "/source-storage-dependent" if rerun_plain_ok() else ""
    except Exception:  # noqa
        return ""


def int_cval(dtype, cval):
    """integer-typed sources give integer-typed outputs (scipy / cast_array round): use integral fill values there"""
    return float(np.ceil(cval)) if np.dtype(dtype).kind in "iu" else cval


def guarded(ck, sig, rep, fn):
    """run one implementation call of an oracle; an exception is a failure of that oracle, not of the harness"""
    try:
        return fn()
    except Exception as e:  # noqa
        ck.fail(sig + "/raises", "%s: %s" % (type(e).__name__, e), rep)
        return None


class Terms:
    def __init__(self):
        self.terms, self.metas = [], []

    def add(self, term, sig, what, replay):
        self.terms.append(term)
        self.metas.append((sig, what, replay))


# ================================================================== resample
def sec_resample(ck, T):
    from nipy.core.api import AffineTransform, CoordinateSystem as CS, Image
    import nipy.algorithms.resample as rmod
    import nipy.algorithms.interpolation as imod
    rng = ck.rng("resample")
    ncase = ck.n(420, 4000)
    n_exact = n_interp = 0
    for it in range(ncase):
        n = int(rng.choice([2, 3, 3, 3, 4])) if it > 8 else 2 + it % 2
        nt = n if rng.random() < 0.8 else n - 1
        sshape = tuple(int(s) for s in rng.integers(3, 6 if n < 4 else 4, n))
        tshape = tuple(int(s) for s in rng.integers(2, 6 if n < 4 else 4, nt))
        data, stored, layout, dtype = draw_source(rng, sshape, plain=it < 12)
        S = rand_aff_exact(rng, n)
        Tw = rand_aff_exact(rng, n) if rng.random() < 0.75 else np.eye(n + 1)
        g2g = rng.random() < 0.6
        if g2g:
            N = rand_voxmap(rng, n, nt, sshape)
            G = tofloat(fmm(finv(fmat(Tw)), fmm(fmat(S), fmat(N))))
        else:
            G = rand_aff_exact(rng, n)[:, list(range(nt)) + [n]] if nt < n else rand_aff_exact(rng, n)
            N = None
        in_names = [str(x) for x in rng.permutation(IN_NAMES[:n])] if rng.random() < 0.4 else IN_NAMES[:n]
        wnames = [str(x) for x in rng.permutation(OUT_NAMES[:n])] if rng.random() < 0.4 else OUT_NAMES[:n]
        tnames = [str(x) for x in rng.permutation(IN_NAMES[:n])][:nt]
        # target world names: usually the same list object; sometimes a permuted / different set
        twnames = wnames if rng.random() < 0.8 else [str(x) for x in rng.permutation(OUT_NAMES[:n])]
        icm = AffineTransform(CS(in_names, "voxels"), CS(wnames, "world"), S)
        target = AffineTransform(CS(tnames, "tvox"), CS(twnames, "tworld"), G)
        img = Image(stored, icm)
        form = str(rng.choice(["tuple", "matrix", "affobj", "callable", "img2img"]))
        order = int(rng.integers(0, 6))
        mode = str(rng.choice(LATTICE_MODES + ["wrap"]))
        cval = int_cval(dtype, float(rng.integers(-3, 4)) * 0.5)
        if dtype.startswith("u"):
            cval = abs(cval)
        Sinv = icm.inverse().affine
        if form == "img2img":
            # resample_img2img: identity world map, so make the target consistent with it
            Tw = np.eye(n + 1)
            if g2g:
                G = tofloat(fmm(fmat(S), fmat(N)))
                target = AffineTransform(CS(tnames, "tvox"), CS(twnames, "tworld"), G)
        log = []

        def spy_at(input, matrix, offset=0.0, **kw):
            log.append((np.array(matrix, float), np.array(offset, float), dict(kw)))
            return real_at(input, matrix, offset=offset, **kw)

        def spy_mc(input, coordinates, **kw):
            log.append((np.array(input), np.array(coordinates, float), dict(kw)))
            return real_mc(input, coordinates, **kw)
        real_at, real_mc = rmod.affine_transform, imod.map_coordinates
        frac_lost = False
        if form == "tuple":
            A_, b_ = Tw[:n, :n].copy(), Tw[:n, n].copy()
            intA = bool(rng.random() < 0.3 and np.all(A_ == np.round(A_)))
            if intA:
                A_ = A_.astype(np.int64)      # integer-typed matrix, b stays float (possibly fractional)
            frac_lost = bool(intA and np.any(b_ != np.trunc(b_)))
            mapping = (A_, b_)
            if intA and not frac_lost and rng.random() < 0.5:
                b_ = b_.astype(np.int64)
            cmap = "(MapTuple %s %s %d %d)" % (cqm(A_), cqv(b_), DT[A_.dtype], DT[b_.dtype])
        elif form == "matrix":
            mapping = Tw.copy()
            cmap = "(MapMatrix %s 1)" % cqm(Tw)
        elif form == "affobj":
            wrong = rng.random() < 0.25
            dom = CS(list(reversed(twnames)) if wrong and n > 1 else twnames, "tworld" if not wrong or n > 1 else "other")
            mobj = AffineTransform(dom, CS(wnames, "world"), Tw)
            mapping = mobj
            cmap = "(MapAffine %s)" % caff(mobj)
        elif form == "callable":
            At, bt = Tw[:n, :n].copy(), Tw[:n, n].copy()
            mapping = (lambda At, bt: (lambda x: np.dot(np.asarray(x), At.T) + bt))(At, bt)
            cmap = None
        else:
            mapping, cmap = None, None
        err = None
        try:
            with patched(rmod, "affine_transform", spy_at), patched(imod, "map_coordinates", spy_mc):
                if form == "img2img":
                    timg = Image(np.zeros(tshape), target)
                    res = rmod.resample_img2img(img, timg, order=order, mode=mode, cval=cval)
                else:
                    res = rmod.resample(img, target, mapping, tshape, order=order, mode=mode, cval=cval)
        except ValueError as e:
            err = e
        except Exception as e:  # noqa
            ck.fail("resample/%s/unexpected-exception" % form, "%s raised %s: %s" % ("resample_img2img" if form == "img2img" else "resample", type(e).__name__, e),
                    {"mapping_form": form, "source_affine": S.tolist(), "target_affine": G.tolist(), "mapping_affine": Tw.tolist(),
                     "source_shape": sshape, "target_shape": tshape, "order": order, "mode": mode, "cval": cval})
            continue
        key = ("resample", form, n, nt, S.tobytes(), G.tobytes(), Tw.tobytes(), order, mode, layout, dtype)
        ck.dist["storage:%s:%s" % (layout, dtype)] = ck.dist.get("storage:%s:%s" % (layout, dtype), 0) + 1
        if not np.array_equal(stored, data):
            ck.fail("resample/mutates-source-data", "resample changed the source image's data array", {"source_layout": layout, "source_dtype": dtype})
        ck.count(key, nontrivial=not (np.array_equal(S, np.eye(n + 1)) and np.array_equal(G, np.eye(n + 1))),
                 bucket="resample:%s:%s" % (form, "raises" if err else ("grid" if g2g else "dyadic")))
        rep = {"entry": "resample_img2img" if form == "img2img" else "resample", "mapping_form": form, "source_affine": S.tolist(),
               "target_affine": G.tolist(), "mapping_affine": Tw.tolist(), "source_shape": sshape, "target_shape": tshape,
               "in_names": in_names, "world_names": wnames, "target_in_names": tnames, "target_world_names": twnames,
               "order": order, "mode": mode, "cval": cval, "data": data.tolist(), "source_layout": layout, "source_dtype": dtype}
        if it < 3:
            ck.sample({k: rep[k] for k in ("entry", "mapping_form", "source_affine", "target_affine", "mapping_affine", "order", "mode")})
        inv_ok = exact_inverse(S, Sinv)
        # ---------------- exact correspondence
        if form != "callable":
            if err is not None:
                obs = "ObsRaise"
            elif len(log) == 1:
                obs = "(ObsCall %s %s)" % (cqm(log[0][0]), cqv(log[0][1]))
            else:
                ck.fail("resample/sampler-calls", "expected exactly one affine_transform call, saw %d" % len(log), rep)
                continue
            if inv_ok:
                if form == "img2img":
                    term = "img2img_agrees %s %s %s %s" % (caff(icm), caff(target), cqm(Sinv), obs)
                else:
                    term = "resample_agrees %s %s %s %s %s" % (caff(icm), caff(target), cmap, cqm(Sinv), obs)
                T.add(term + " && inv_check %d %s %s" % (n, cqm(S), cqm(Sinv)),
                      "model-vs-impl/resample/%s" % form,
                      "matrix/offset handed to affine_transform (or the raised error) differs from the model", rep)
                n_exact += 1
            if err is None:
                kw = log[0][2]
                if (kw.get("order"), kw.get("mode"), kw.get("cval"), tuple(kw.get("output_shape"))) != (order, mode, cval, tshape):
                    ck.fail("resample/options-not-passed-through", "order/mode/cval/output_shape altered on the way to affine_transform", rep)
        else:
            if err is not None:
                ck.fail("resample/callable-raises", "resample with a callable mapping raised %r" % (err,), rep)
                continue
            if len(log) != 1:
                ck.fail("resample/sampler-calls", "expected exactly one map_coordinates call, saw %d" % len(log), rep)
                continue
            pdata, coords, kw = log[0]
            pad = (pdata.shape[0] - sshape[0]) // 2
            if tuple(np.array(pdata.shape) - 2 * pad) != sshape or (kw.get("order"), kw.get("mode"), kw.get("cval")) != (order, mode, cval):
                ck.fail("interpolator/options-or-padding", "padded array shape / options handed to map_coordinates are inconsistent", rep)
            T.add("prepad_agrees %d %s %d" % (order, MODES[mode], pad), "model-vs-impl/interpolator/prepad",
                  "pre-pad width differs from the model", rep)
            if inv_ok:
                vs = np.indices(tshape).reshape(nt, -1).T
                pick = rng.choice(len(vs), size=min(len(vs), 6), replace=False)
                Gf = fmat(G)
                for kidx in pick:
                    v = vs[kidx]
                    gv = [sum(Gf[r][c] * int(v[c]) for c in range(nt)) + Gf[r][nt] for r in range(n)]
                    fw = mapping(np.array([float(x) for x in gv]))
                    T.add("callable_world_agrees %s %s %s && interp_agrees %s (%d)%%Z %s %s" % (
                        caff(target), cqv(v), cqv(gv), cqm(Sinv), pad, cqv(fw), cqv(coords[:, kidx])),
                        "model-vs-impl/resample/callable", "coordinates handed to map_coordinates differ from the model",
                        dict(rep, voxel=v.tolist(), coords=coords[:, kidx].tolist()))
                    n_interp += 1
        if err is not None:
            continue
        # ---------------- property oracles on the implementation
        out = np.asarray(res.get_fdata())
        if res.coordmap != target or out.shape != tshape:
            ck.fail("resample/output-coordmap", "result does not carry the target coordinate map / shape", rep)
        if g2g and mode in LATTICE_MODES:
            exp, inb = lookup(data, N, tshape, cval)
            tol = 0.0 if order == 0 else 1e-9

            def rerun_plain():
                if form == "img2img":
                    r2 = rmod.resample_img2img(Image(data.copy(), icm), Image(np.zeros(tshape), target), order=order, mode=mode, cval=cval)
                else:
                    r2 = rmod.resample(Image(data.copy(), icm), target, mapping, tshape, order=order, mode=mode, cval=cval)
                o2 = np.asarray(r2.get_fdata())
                return close(o2, exp, tol) if mode == "constant" else close(o2[inb], exp[inb], tol)
            if mode == "constant":
                good = close(out, exp, tol) if tol else np.array_equal(out, exp)
                if not good:
                    sub = "outside-not-cval" if close(out[inb], exp[inb]) else "lattice-value"
                    sub += storage_suffix(layout, dtype, rerun_plain)
                    ck.fail("resample/tuple-int-matrix-fractional-offset" if frac_lost else
                            "grid-to-grid/%s/%s" % ("resample_img2img" if form == "img2img" else "resample", sub),
                            "grid-to-grid resampling (order %d, mode %s) differs from the looked-up source values" % (order, mode),
                            dict(rep, voxel_map=N.tolist(), got=out.tolist(), expected=exp.tolist()))
            elif not close(out[inb], exp[inb], tol):
                ck.fail("resample/tuple-int-matrix-fractional-offset" if frac_lost else
                        "grid-to-grid/%s/lattice-value%s" % ("resample_img2img" if form == "img2img" else "resample", storage_suffix(layout, dtype, rerun_plain)),
                        "grid-to-grid resampling (order %d, mode %s) differs from the looked-up source values at in-bounds points" % (order, mode),
                        dict(rep, voxel_map=N.tolist(), got=out.tolist(), expected=exp.tolist()))
    ck.section("resample", cases=ncase, exact_affine_cases=n_exact, exact_interpolator_points=n_interp)


def probe_int_tuple(ck):
    """(A, b) with an integer-typed A must denote the same map as with a float-typed A"""
    from nipy.core.api import AffineTransform, CoordinateSystem as CS, Image
    import nipy.algorithms.resample as rmod
    data = np.arange(10.)[:, None] * np.ones((10, 4))
    cm = AffineTransform(CS("ij"), CS("xy"), np.eye(3))
    img = Image(data, cm)
    b = np.array([0.5, 0.0])
    rep0 = {"entry": "resample", "source_affine": np.eye(3).tolist(), "target_affine": np.eye(3).tolist(), "mapping": "(np.eye(2), [0.5, 0])"}
    r_int = guarded(ck, "resample/tuple/identity-call", rep0, lambda: np.asarray(rmod.resample(img, cm, (np.eye(2, dtype=int), b), (10, 4), order=1).get_fdata()))
    r_flt = guarded(ck, "resample/tuple/identity-call", rep0, lambda: np.asarray(rmod.resample(img, cm, (np.eye(2), b), (10, 4), order=1).get_fdata()))
    ck.count(("int-tuple-probe",), bucket="resample:tuple:int-matrix-probe")
    if r_int is None or r_flt is None:
        return
    if not np.array_equal(r_int, r_flt):
        ck.fail("resample/tuple-int-matrix-fractional-offset",
                "resample(img, cm, (np.eye(2, dtype=int), [0.5, 0]), order=1) gives %s..., with np.eye(2) (float) %s..." % (r_int[:3, 0].tolist(), r_flt[:3, 0].tolist()),
                {"entry": "resample", "mapping": "(np.eye(2, dtype=int), np.array([0.5, 0.]))", "source_affine": np.eye(3).tolist(), "target_affine": np.eye(3).tolist(),
                 "data": "np.arange(10.)[:,None]*np.ones((10,4))", "order": 1})


def sec_linear(ck):
    """order-1 interpolation of an intensity affine in world position, arbitrary (non-dyadic) affine maps,
    through resample (all mapping forms), ImageInterpolator, registration resample, values_in_world."""
    from nipy.core.api import AffineTransform, CoordinateSystem as CS, Image
    import nipy.algorithms.resample as rmod
    from nipy.algorithms.interpolation import ImageInterpolator
    from nipy.algorithms.registration.resample import resample as rresample
    from nipy.core.image.image_spaces import make_xyz_image
    rng = ck.rng("linear")
    ncase = ck.n(150, 1500)
    for it in range(ncase):
        n = 3 if it % 3 else 2
        sshape = tuple(int(s) for s in rng.integers(4, 8, n))

        def rnd_aff():
            while True:
                A = rng.normal(size=(n, n)) + np.eye(n) * rng.choice([-2, 2])
                if abs(np.linalg.det(A)) > 0.3:
                    return hom(A, rng.normal(size=n) * 2)
        S, Tw, G = rnd_aff(), rnd_aff(), rnd_aff()
        a, c = rng.normal(size=n), float(rng.normal())
        idx = np.indices(sshape).reshape(n, -1)
        world = S[:n, :n] @ idx + S[:n, n:]
        data = (a @ world + c).reshape(sshape)
        layout = str(rng.choice(LAYOUTS))
        stored = relayout(data, layout)
        # choose the target so that most target voxels land inside the source: G = Tw^-1 S (small perturbation of identity voxel map)
        V = hom(np.eye(n) * rng.uniform(0.4, 0.9) + rng.normal(size=(n, n)) * 0.05, rng.uniform(0.2, 1.0, n))
        G = np.linalg.inv(Tw) @ S @ V
        tshape = tuple(int(s) for s in rng.integers(3, 6, n))
        names = OUT_NAMES[:n]
        icm = AffineTransform(CS(IN_NAMES[:n], "voxels"), CS(names, "world"), S)
        target = AffineTransform(CS(IN_NAMES[:n], "tvox"), CS(names, "tworld"), G)
        img = Image(stored, icm)
        tidx = np.indices(tshape).reshape(n, -1)
        tw = Tw[:n, :n] @ (G[:n, :n] @ tidx + G[:n, n:]) + Tw[:n, n:]
        expect = (a @ tw + c).reshape(tshape)
        sv = np.linalg.solve(S[:n, :n], tw - S[:n, n:])
        inside = np.all((sv >= 1e-6) & (sv <= np.array(sshape)[:, None] - 1 - 1e-6), axis=0).reshape(tshape)
        rep = {"source_affine": S.tolist(), "mapping_affine": Tw.tolist(), "target_affine": G.tolist(), "field_a": a.tolist(),
               "field_c": c, "source_shape": sshape, "target_shape": tshape, "source_layout": layout}
        ck.count(("linear", it, S.tobytes()), bucket="linear-field:%dD" % n)
        forms = {"tuple": (Tw[:n, :n], Tw[:n, n]), "matrix": Tw,
                 "affobj": AffineTransform(target.function_range, icm.function_range, Tw),
                 "callable": (lambda x: np.dot(np.asarray(x), Tw[:n, :n].T) + Tw[:n, n])}
        for form, mapping in forms.items():
            out = guarded(ck, "linear-field/resample/%s" % form, dict(rep, mapping_form=form),
                          lambda: np.asarray(rmod.resample(img, target, mapping, tshape, order=1, mode="nearest").get_fdata()))
            if out is not None and inside.any() and not close(out[inside], expect[inside]):
                ck.fail("linear-field/resample/%s" % form,
                        "order-1 resampling of an intensity affine in world position does not reproduce it (max err %.3g)"
                        % np.max(np.abs(out[inside] - expect[inside])), dict(rep, mapping_form=form))
        # world-space interpolator at arbitrary world points inside the field of view
        pts_v = rng.uniform(0, 1, (n, 20)) * (np.array(sshape)[:, None] - 1)
        pts_w = S[:n, :n] @ pts_v + S[:n, n:]
        for order, mode in ((1, "constant"), (1, "nearest")):
            val = guarded(ck, "linear-field/ImageInterpolator", rep, lambda: ImageInterpolator(img, order=order, mode=mode).evaluate(pts_w))
            if val is not None and not close(val, a @ pts_w + c):
                ck.fail("linear-field/ImageInterpolator", "ImageInterpolator(order=1).evaluate does not reproduce an affine intensity",
                        dict(rep, points=pts_w.tolist()))
        if n == 3:
            for rv, mv in itertools.product([False, True], repeat=2):
                Tt = Tw
                if rv:
                    Tt = Tt @ G
                if mv:
                    Tt = np.linalg.inv(S) @ Tt
                rimg = guarded(ck, "linear-field/registration-resample", rep,
                               lambda: rresample(make_xyz_image(stored, S, "scanner"), Tt, reference=(tshape, G), mov_voxel_coords=mv,
                                                 ref_voxel_coords=rv, interp_order=1, mode="nearest"))
                if rimg is None:
                    continue
                out = np.asarray(rimg.get_fdata())
                if inside.any() and not close(out[inside], expect[inside]):
                    ck.fail("linear-field/registration-resample/flags",
                            "registration resample (order 1, ref_voxel_coords=%s, mov_voxel_coords=%s) does not reproduce an affine intensity" % (rv, mv),
                            dict(rep, ref_voxel_coords=rv, mov_voxel_coords=mv))
                if not np.allclose(rimg.affine, G):
                    ck.fail("registration-resample/output-affine", "result does not carry the reference affine", rep)


# ================================================================== ImageInterpolator
def sec_interpolator(ck, T):
    from nipy.core.api import AffineTransform, CoordinateSystem as CS, Image
    import nipy.algorithms.interpolation as imod
    rng = ck.rng("interp")
    ncase = ck.n(180, 1500)
    npts = 0
    for it in range(ncase):
        n = int(rng.choice([2, 3]))
        sshape = tuple(int(s) for s in rng.integers(3, 6, n))
        data, stored, layout, dtype = draw_source(rng, sshape, plain=it < 6)
        S = rand_aff_exact(rng, n)
        icm = AffineTransform(CS(IN_NAMES[:n], "voxels"), CS(OUT_NAMES[:n], "world"), S)
        img = Image(stored, icm)
        order = int(rng.integers(0, 6))
        mode = str(rng.choice(list(MODES)))
        cval = float(rng.integers(-3, 4))
        Sinv = icm.inverse().affine
        # lattice points (inside and outside) and half-integer positions, as world points
        vox = rng.integers(-2, max(sshape) + 2, (n, 8)).astype(float)
        vox[:, 4:] += rng.integers(0, 2, (n, 4)) * 0.5
        pts = S[:n, :n] @ vox + S[:n, n:]
        log = []
        real_mc = imod.map_coordinates

        def spy_mc(input, coordinates, **kw):
            log.append((np.array(input), np.array(coordinates, float), dict(kw)))
            return real_mc(input, coordinates, **kw)
        with patched(imod, "map_coordinates", spy_mc):
            interp = imod.ImageInterpolator(img, order=order, mode=mode, cval=cval)
            vals = interp.evaluate(pts)
        ck.count(("interp", S.tobytes(), order, mode, vox.tobytes()), bucket="interpolator:order%d" % order)
        rep = {"entry": "ImageInterpolator.evaluate", "source_affine": S.tolist(), "source_shape": sshape, "order": order, "mode": mode,
               "cval": cval, "world_points": pts.T.tolist(), "data": data.tolist(), "source_layout": layout, "source_dtype": dtype}
        pdata, coords, kw = log[0]
        pad = (pdata.shape[0] - sshape[0]) // 2
        T.add("prepad_agrees %d %s %d" % (order, MODES[mode], pad), "model-vs-impl/interpolator/prepad", "pre-pad width differs from the model", rep)
        if pad != interp._n_prepad or tuple(np.array(pdata.shape) - 2 * pad) != sshape:
            ck.fail("interpolator/padding", "array handed to map_coordinates is not the image padded by _n_prepad", rep)
        if exact_inverse(S, Sinv):
            for k in range(pts.shape[1]):
                T.add("interp_agrees %s (%d)%%Z %s %s && inv_check %d %s %s" % (cqm(Sinv), pad, cqv(pts[:, k]), cqv(coords[:, k]), n, cqm(S), cqm(Sinv)),
                      "model-vs-impl/interpolator/coords", "coordinates handed to map_coordinates differ from the model", dict(rep, point=pts[:, k].tolist()))
                npts += 1
        # oracle: lattice points inside the array return the stored value (every order, lattice-exact modes);
        # lattice points at least one voxel outside return cval in 'constant' mode
        if mode in LATTICE_MODES:
            for k in range(4):
                z = vox[:, k].astype(int)
                if np.all(z >= 0) and np.all(z < np.array(sshape)):
                    if not close(vals[k], data[tuple(z)]):
                        ck.fail("grid-to-grid/ImageInterpolator/lattice-value",
                                "ImageInterpolator (order %d, mode %s) at the world position of voxel %s returns %r, stored value %r" % (order, mode, z.tolist(), float(vals[k]), float(data[tuple(z)])),
                                dict(rep, voxel=z.tolist()))
                elif mode == "constant" and not close(vals[k], cval):
                    ck.fail("outside-cval/ImageInterpolator", "point outside the field of view does not get cval", dict(rep, voxel=z.tolist()))
    ck.section("interpolator", cases=ncase, exact_points=npts)


# ================================================================== registration resample
class StubTransform:
    """transform object exposing only as_affine (exact matrix)"""
    def __init__(self, M):
        self._M = M

    def as_affine(self):
        return self._M


class StubNonAffine:
    """transform object without as_affine/shape: apply + compose (the non-affine path)"""
    def __init__(self, fs):
        self.fs = fs

    def apply(self, xyz):
        xyz = np.asarray(xyz, float)
        for f in self.fs:
            xyz = f(xyz)
        return xyz

    def compose(self, other):      # self o other
        return StubNonAffine([other.apply] + self.fs)


def sec_registration(ck, T):
    import importlib
    rr = importlib.import_module("nipy.algorithms.registration.resample")
    from nipy.core.image.image_spaces import make_xyz_image
    from nipy.algorithms.registration.affine import Affine
    rng = ck.rng("registration")
    ncase = ck.n(360, 3500)
    nex = 0
    for it in range(ncase):
        sshape = tuple(int(s) for s in rng.integers(3, 7, 3))
        tshape = tuple(int(s) for s in rng.integers(2, 6, 3))
        data, stored, layout, dtype = draw_source(rng, sshape, plain=it < 12)
        Ma = rand_aff_exact(rng, 3, shear=0.15)
        W = rand_aff_exact(rng, 3, shear=0.15) if rng.random() < 0.7 else np.eye(4)
        N = rand_voxmap(rng, 3, 3, sshape)
        g2g = rng.random() < 0.7
        Ra = tofloat(fmm(finv(fmat(W)), fmm(fmat(Ma), fmat(N)))) if g2g else rand_aff_exact(rng, 3)
        rv, mv = bool(rng.random() < 0.5), bool(rng.random() < 0.5)
        Tt = fmat(W)
        if rv:
            Tt = fmm(Tt, fmat(Ra))
        if mv:
            Tt = fmm(finv(fmat(Ma)), Tt)
        Tt = tofloat(Tt)
        order = 3 if rng.random() < 0.4 else int(rng.integers(0, 6))
        mode = "constant" if rng.random() < 0.6 else str(rng.choice(["nearest", "reflect", "mirror", "grid-wrap"]))
        cval = 0.0 if rng.random() < 0.6 else float(rng.integers(1, 4)) * 0.5
        if rng.random() < 0.1:
            cval = 0
        cval = int_cval(dtype, cval)
        tform = str(rng.choice(["array", "as_affine", "none" if (np.array_equal(Tt, np.eye(4))) else "array"]))
        transform = {"array": Tt, "as_affine": StubTransform(Tt), "none": None}[tform]
        moving = make_xyz_image(stored, Ma, "scanner")
        reference = (tshape, Ra) if rng.random() < 0.5 else make_xyz_image(np.zeros(tshape), Ra, "scanner")
        Mi = rr.inverse_affine(Ma)
        log = []
        real_cs, real_at = rr._cspline_resample3d, rr.affine_transform

        def spy_cs(im_resampled, im, dims, Tvox, *a, **kw):
            log.append(("cspline", np.array(Tvox, float), tuple(dims), a, kw))
            return real_cs(im_resampled, im, dims, Tvox, *a, **kw)

        def spy_at(input, matrix, offset=0.0, **kw):
            log.append(("ndimage", np.array(matrix, float), np.array(offset, float), {k: v for k, v in kw.items() if k != "output"}))
            return real_at(input, matrix, offset=offset, **kw)
        rep = {"entry": "registration.resample", "moving_affine": Ma.tolist(), "reference_affine": Ra.tolist(), "transform": Tt.tolist(),
               "transform_form": tform, "ref_voxel_coords": rv, "mov_voxel_coords": mv, "moving_shape": sshape, "reference_shape": tshape,
               "interp_order": order, "mode": mode, "cval": cval, "data": data.tolist(), "source_layout": layout, "source_dtype": dtype}
        try:
            with patched(rr, "_cspline_resample3d", spy_cs), patched(rr, "affine_transform", spy_at):
                res = rr.resample(moving, transform, reference=reference, mov_voxel_coords=mv, ref_voxel_coords=rv,
                                  interp_order=order, mode=mode, cval=cval)
        except Exception as e:  # noqa
            ck.fail("registration-resample/unexpected-exception", "registration resample raised %s: %s" % (type(e).__name__, e), rep)
            continue
        ck.dist["storage:%s:%s" % (layout, dtype)] = ck.dist.get("storage:%s:%s" % (layout, dtype), 0) + 1
        if not np.array_equal(stored, data):
            ck.fail("registration-resample/mutates-moving-data", "registration resample changed the moving image's data array", rep)
        ck.count(("reg", Ma.tobytes(), Ra.tobytes(), Tt.tobytes(), rv, mv, order, mode, cval, layout, dtype),
                 bucket="registration:%s:rv%d-mv%d" % ("shortcut" if log and log[0][0] == "cspline" else "generic", rv, mv))
        if it < 2:
            ck.sample({k: rep[k] for k in ("entry", "moving_affine", "reference_affine", "transform", "ref_voxel_coords", "mov_voxel_coords", "interp_order")})
        if len(log) != 1:
            ck.fail("registration-resample/sampler-calls", "expected exactly one sampler call, saw %d" % len(log), rep)
            continue
        used_short = log[0][0] == "cspline"
        T.add("reg_path_agrees %d %s %s %s" % (order, MODES[mode], cbool(cval == 0), cbool(used_short)),
              "model-vs-impl/registration/shortcut-predicate", "fast cubic-spline path taken under a different condition than the model's", rep)
        if exact_inverse(Ma, Mi):
            if used_short:
                T.add("reg_shortcut_agrees %s %s %s %s %s %s && inv_check 3 %s %s" % (cqm(Tt), cqm(Ra), cqm(Mi), cbool(rv), cbool(mv), cqm(log[0][1]), cqm(Ma), cqm(Mi)),
                      "model-vs-impl/registration/Tvox", "Tvox handed to _cspline_resample3d differs from the model", rep)
            else:
                T.add("reg_generic_agrees %s %s %s %s %s %s %s && inv_check 3 %s %s" % (cqm(Tt), cqm(Ra), cqm(Mi), cbool(rv), cbool(mv), cqm(log[0][1]), cqv(log[0][2]), cqm(Ma), cqm(Mi)),
                      "model-vs-impl/registration/matrix-offset", "matrix/offset handed to affine_transform differs from the model", rep)
            nex += 1
        if used_short and tuple(log[0][2]) != tshape:
            ck.fail("registration-resample/dims", "dims handed to _cspline_resample3d are not the reference shape", rep)
        if not used_short:
            kw = log[0][3]
            if (kw.get("order"), kw.get("mode"), kw.get("cval"), tuple(kw.get("output_shape"))) != (order, mode, cval, tshape):
                ck.fail("registration-resample/options-not-passed-through", "order/mode/cval/output_shape altered on the way to affine_transform", rep)
        out = np.asarray(res.get_fdata())
        if not np.array_equal(res.affine, Ra) or out.shape != tshape:
            ck.fail("registration-resample/output-affine", "result does not carry the reference affine / shape", rep)
        if out.dtype != stored.dtype:
            ck.fail("registration-resample/output-dtype", "dtype=None: result dtype %s is not the moving data's dtype %s" % (out.dtype, stored.dtype), rep)
        if g2g:
            exp, inb = lookup(data, N, tshape, cval)
            tol = 0.0 if order == 0 else 1e-9

            def rerun_plain(transform=transform):
                r2 = rr.resample(make_xyz_image(data.copy(), Ma, "scanner"), transform, reference=reference, mov_voxel_coords=mv,
                                 ref_voxel_coords=rv, interp_order=order, mode=mode, cval=cval)
                o2 = np.asarray(r2.get_fdata())
                return close(o2, exp, tol) if mode == "constant" else close(o2[inb], exp[inb], tol)
            if mode == "constant":
                if not (close(out, exp, tol) if tol else np.array_equal(out, exp)):
                    sub = "outside-not-cval" if close(out[inb], exp[inb]) else "lattice-value"
                    sub += storage_suffix(layout, dtype, rerun_plain)
                    ck.fail("grid-to-grid/registration-resample/%s/%s" % ("shortcut" if used_short else "generic", sub),
                            "grid-to-grid registration resample (order %d) differs from the looked-up moving-image values" % order,
                            dict(rep, voxel_map=N.tolist(), got=out.tolist(), expected=exp.tolist()))
            elif not close(out[inb], exp[inb], tol):
                ck.fail("grid-to-grid/registration-resample/generic/lattice-value" + storage_suffix(layout, dtype, rerun_plain),
                        "grid-to-grid registration resample (order %d, mode %s) differs at in-bounds points" % (order, mode),
                        dict(rep, voxel_map=N.tolist(), got=out.tolist(), expected=exp.tolist()))
            # non-affine transform path (apply/compose protocol) must give the same image
            if it % 3 == 0:
                Tm = Tt.copy()
                na = StubNonAffine([lambda xyz, Tm=Tm: xyz @ Tm[:3, :3].T + Tm[:3, 3]])
                res2 = rr.resample(moving, na, reference=reference, mov_voxel_coords=mv, ref_voxel_coords=rv,
                                   interp_order=order, mode=mode, cval=cval)
                out2 = np.asarray(res2.get_fdata())
                # Affine(ref_aff) goes through a parameter decomposition (1e-15 noise) and 'constant' mode does not
                # interpolate beyond the edge, so boundary voxels are excluded there
                sel = interior_mask(data, N, tshape) if mode == "constant" else inb
                if not close(out2[sel], exp[sel], 1e-7):
                    def rerun_na():
                        r3 = rr.resample(make_xyz_image(data.copy(), Ma, "scanner"), na, reference=reference, mov_voxel_coords=mv,
                                         ref_voxel_coords=rv, interp_order=order, mode=mode, cval=cval)
                        return close(np.asarray(r3.get_fdata())[sel], exp[sel], 1e-7)
                    ck.fail("grid-to-grid/registration-resample/non-affine-path" + storage_suffix(layout, dtype, rerun_na),
                            "non-affine (apply/compose) path differs from the looked-up moving-image values", dict(rep, voxel_map=N.tolist()))
    # fast path vs generic path on smooth data, interior points (both are cubic splines with mirror prefilter)
    nfp = ck.n(20, 150)
    for it in range(nfp):
        sshape = tuple(int(s) for s in rng.integers(8, 12, 3))
        g = np.indices(sshape).astype(float)
        data = np.sin(g[0] * 0.5) + np.cos(g[1] * 0.4) * g[2] * 0.2 + rng.normal(size=sshape) * 0.1
        Ma = hom(np.diag(rng.uniform(0.8, 2.0, 3)) @ (np.eye(3) + rng.normal(size=(3, 3)) * 0.05), rng.normal(size=3))
        Ra = Ma @ hom(np.eye(3) * 0.8 + rng.normal(size=(3, 3)) * 0.05, np.ones(3) * 1.7)
        aff = Affine(rng.normal(size=12) * np.array([0.3] * 3 + [0.02] * 3 + [0.02] * 3 + [0.01] * 3))
        moving = make_xyz_image(data, Ma, "scanner")
        tshape = (5, 5, 5)
        fast = np.asarray(rr.resample(moving, aff, reference=(tshape, Ra)).get_fdata())
        slow = np.asarray(rr.resample(moving, aff, reference=(tshape, Ra), cval=1e-300).get_fdata())
        Tv = np.linalg.inv(Ma) @ aff.as_affine() @ Ra
        sv = Tv[:3, :3] @ np.indices(tshape).reshape(3, -1) + Tv[:3, 3:]
        interior = np.all((sv >= 0) & (sv <= np.array(sshape)[:, None] - 1), axis=0).reshape(tshape)
        ck.count(("fastslow", it), bucket="registration:fast-vs-generic")
        if interior.any() and not close(fast[interior], slow[interior], 1e-6):
            ck.fail("registration-resample/fast-vs-generic", "cubic-spline short cut and ndimage path disagree inside the field of view (max %.3g)"
                    % np.max(np.abs(fast[interior] - slow[interior])),
                    {"moving_affine": Ma.tolist(), "reference_affine": Ra.tolist(), "transform": aff.as_affine().tolist(), "data_seed_case": it})
    ck.section("registration", cases=ncase, exact_cases=nex, fast_vs_generic=nfp)


# ================================================================== cubic-spline kernels vs source storage
def sec_cspline_storage(ck):
    """_cspline_transform / _cspline_sampleNd / _cspline_resample3d are handed whatever array the image holds:
    (a) the coefficients do not depend on how the array is stored (layout x dtype), (b) sampling the coefficients at
    the lattice points returns the array (any dimension 1..4), (c) resample3d with the identity returns it."""
    from nipy.algorithms.registration import _registration as reg
    rng = ck.rng("cspline-storage")
    ncase = ck.n(120, 1200)
    samplers = {1: reg._cspline_sample1d, 2: reg._cspline_sample2d, 3: reg._cspline_sample3d, 4: reg._cspline_sample4d}
    for it in range(ncase):
        nd = 1 + it % 4
        shape = tuple(int(v) for v in rng.integers(3, 7 if nd < 4 else 5, nd))
        values, stored, layout, dtype = draw_source(rng, shape, plain=it < 4)
        rep = {"entry": "_cspline_transform", "shape": shape, "source_layout": layout, "source_dtype": dtype, "data": values.tolist()}
        ck.count(("cspline", nd, layout, dtype, values.tobytes()), bucket="cspline-storage:%dD:%s" % (nd, layout))
        ref = guarded(ck, "cspline-storage/transform", rep, lambda: reg._cspline_transform(values.copy()))
        c = guarded(ck, "cspline-storage/transform", rep, lambda: reg._cspline_transform(stored))
        if ref is None or c is None:
            continue
        if not np.array_equal(stored, values):
            ck.fail("cspline-storage/mutates-input", "_cspline_transform changed its input", rep)
        if c.shape != shape or not np.array_equal(c, ref):
            ck.fail("cspline-storage/transform-depends-on-storage/%s" % ("layout" if dtype == "float64" else "dtype-or-layout"),
                    "_cspline_transform of a %s %s array differs from that of the same values stored C-contiguous float64 (max %.3g)"
                    % (layout, dtype, np.max(np.abs(c - ref)) if c.shape == ref.shape else float("nan")), rep)
        grid = [g.astype(float) for g in np.indices(shape)]
        back = guarded(ck, "cspline-storage/sample", rep, lambda: samplers[nd](np.zeros(shape), c, *grid))
        if back is not None and not close(back, values, 1e-9):
            ck.fail("cspline-storage/lattice-sample-%dD" % nd, "sampling the cubic-spline coefficients at the lattice points does not return the array (max %.3g)"
                    % np.max(np.abs(back - values)), rep)
        if nd == 3:
            out = guarded(ck, "cspline-storage/resample3d", rep, lambda: reg._cspline_resample3d(np.zeros(shape), stored, shape, np.eye(4)))
            if out is not None and not close(out, values, 1e-9):
                ck.fail("cspline-storage/resample3d-identity", "_cspline_resample3d with the identity does not return the %s %s array (max %.3g)"
                        % (layout, dtype, np.max(np.abs(out - values))), rep)
    ck.section("cspline_storage", cases=ncase)


# ================================================================== VolumeImg
def sec_volumeimg(ck, T):
    import nipy.labs.datasets.volumes.volume_img as vi
    import nipy.labs.datasets.volumes.volume_grid as vg
    from scipy import ndimage as real_ndimage
    VolumeImg = vi.VolumeImg
    rng = ck.rng("volumeimg")
    ncase = ck.n(300, 2500)
    nex = 0
    for it in range(ncase):
        sshape = tuple(int(s) for s in rng.integers(3, 6, 3))
        data, stored, layout, dtype = draw_source(rng, sshape, plain=it < 12)
        S = rand_aff_exact(rng, 3, shear=0.1) if it >= 6 else np.eye(4)
        kind = ["flip", "zoom", "shift", "perm", "same", "any"][it % 6]
        N = np.eye(4)
        if kind == "flip":
            ax = int(rng.integers(0, 3))
            N[ax, ax], N[ax, 3] = -1, sshape[ax] - 1
        elif kind == "zoom":
            N[:3, :3] = np.diag(rng.choice([1, 2], 3))
            N[:3, 3] = rng.integers(0, 2, 3)
        elif kind == "shift":
            N[:3, 3] = rng.integers(-1, 2, 3)
        elif kind in ("perm", "any"):
            N = rand_voxmap(rng, 3, 3, sshape)
        G = tofloat(fmm(fmat(S), fmat(N)))
        tshape = tuple(int(s) for s in rng.integers(2, 5, 3))
        interp = "nearest" if rng.random() < 0.5 else "continuous"
        img = VolumeImg(stored, S, "world", interpolation=interp)
        log = []
        try:
            with patched(vi, "ndimage", NdimageProxy(real_ndimage, log)):
                res = img.as_volume_img(affine=G, shape=tshape)
        except Exception as e:  # noqa
            ck.fail("as_volume_img/unexpected-exception", "as_volume_img raised %s: %s" % (type(e).__name__, e),
                    {"self_affine": S.tolist(), "target_affine": G.tolist(), "shape": sshape, "target_shape": tshape})
            continue
        Sinv = np.linalg.inv(S)
        Tm = np.eye(4) if np.all(G == S) else np.dot(Sinv, G)
        A = Tm[:3, :3]
        isdiag = bool(np.all(np.diag(np.diag(A)) == A))
        rep = {"entry": "VolumeImg.as_volume_img", "self_affine": S.tolist(), "target_affine": G.tolist(), "voxel_map": N.tolist(),
               "shape": sshape, "target_shape": tshape, "interpolation": interp, "data": data.tolist(), "source_layout": layout, "source_dtype": dtype}
        ck.count(("avi", layout, dtype, S.tobytes(), G.tobytes(), interp), nontrivial=not np.array_equal(N, np.eye(4)),
                 bucket="as_volume_img:%s" % ("diag" if isdiag else "full"))
        if len(log) != 1 or log[0][0] != "affine_transform":
            ck.fail("as_volume_img/sampler-calls", "expected exactly one affine_transform call", rep)
            continue
        _, M, off, kw = log[0]
        if exact_inverse(S, Sinv):
            T.add("avi_agrees %s %s %s %s %s %s %s && inv_check 3 %s %s" % (cqm(S), cqm(G), cqm(Sinv), cbool(M.ndim == 1),
                                                       cqm(M) if M.ndim == 2 else "[]", cqv(M) if M.ndim == 1 else "[]", cqv(off), cqm(S), cqm(Sinv)),
                  "model-vs-impl/as_volume_img", "matrix/offset handed to ndimage.affine_transform differs from the model", rep)
            nex += 1
        if kw.get("order") != (0 if interp == "nearest" else 3) or tuple(kw.get("output_shape")) != tshape:
            ck.fail("as_volume_img/options", "interpolation order / output shape altered", rep)
        out = np.asarray(res.get_fdata())
        if not np.array_equal(res.affine, G):
            ck.fail("as_volume_img/output-affine", "result does not carry the requested affine", rep)
        exp, inb = lookup(data, N, tshape, 0.0)
        if not close(out, exp, 0.0 if interp == "nearest" else 1e-9):
            feature = "diagonal-matrix-with-offset" if (isdiag and np.any(Tm[:3, 3] != 0) and not np.array_equal(A, np.eye(3))) else \
                ("diagonal" if isdiag else "full-matrix")
            ck.fail("as_volume_img/%s" % feature,
                    "VolumeImg.as_volume_img: grid-to-grid resampling differs from the looked-up values "
                    "(offset handed to affine_transform %s, voxel map offset %s)" % (off.tolist(), N[:3, 3].tolist()),
                    dict(rep, got=out.tolist(), expected=exp.tolist()))
        # values_in_world: coordinates handed to map_coordinates, and the values at lattice points
        vox = rng.integers(0, min(sshape), (3, 5)).astype(float)
        w = S[:3, :3] @ vox + S[:3, 3:]
        log2 = []
        with patched(vg, "ndimage", NdimageProxy(real_ndimage, log2)):
            vals = img.values_in_world(w[0], w[1], w[2])
        if len(log2) == 1 and exact_inverse(S, Sinv):
            for k in range(5):
                T.add("viw_agrees %s %s %s" % (cqm(Sinv), cqv(w[:, k]), cqv(log2[0][1][:, k])), "model-vs-impl/values_in_world",
                      "coordinates handed to map_coordinates differ from the model", dict(rep, world_point=w[:, k].tolist()))
        if not close(vals, data[tuple(vox.astype(int))]):
            ck.fail("grid-to-grid/values_in_world", "values_in_world at the world positions of voxels differs from the stored values",
                    dict(rep, world_points=w.T.tolist()))
    ck.section("as_volume_img", cases=ncase, exact_cases=nex)
    # ---------------- xyz_ordered / _swapaxes
    nxyz = ck.n(240, 2000)
    for it in range(nxyz):
        sshape = tuple(int(s) for s in rng.integers(2, 6, 3))
        data, stored, layout, dtype = draw_source(rng, sshape, plain=it < 16)
        signs = [(-1.0 if (it >> k) & 1 else 1.0) for k in range(3)]
        pix = np.array([s * (2.0 ** int(rng.integers(-1, 2)) if it >= 8 else 1.0) for s in signs])
        b = rng.integers(-6, 7, 3) * 0.5 if it >= 8 else np.zeros(3)
        perm = rng.permutation(3) if it >= 8 and rng.random() < 0.5 else np.arange(3)
        A = np.zeros((3, 3))
        for i in range(3):
            A[perm[i], i] = pix[i]
        S = hom(A, b)
        img = VolumeImg(stored, S, "world", interpolation="nearest")
        rep = {"entry": "VolumeImg.xyz_ordered", "affine": S.tolist(), "shape": sshape, "data": data.tolist(), "source_layout": layout, "source_dtype": dtype}
        ck.count(("xyz", S.tobytes(), sshape), nontrivial=bool(np.any(pix < 0) or np.any(perm != np.arange(3))),
                 bucket="xyz_ordered:flips=%d%s" % (int(np.sum(pix < 0)), ":perm" if np.any(perm != np.arange(3)) else ""))
        res = img.xyz_ordered()
        if not np.array_equal(img.affine, S) or not np.array_equal(img.get_fdata(), data):
            ck.fail("xyz_ordered/mutates-self", "xyz_ordered(copy=True) changed the original image", rep)
        R = np.asarray(res.affine)
        if not (np.all(np.diag(R)[:3] > 0) and np.array_equal(R[:3, :3], np.diag(np.diag(R)[:3]))):
            ck.fail("xyz_ordered/not-diagonal-positive", "result affine is not diagonal positive", dict(rep, result_affine=R.tolist()))
            continue
        # model of the flip step, per world axis (after the axis swaps pixdim/b/shape are those of the permuted image)
        for wax in range(3):
            vax = int(np.argmax(np.abs(A[wax])))
            p = A[wax, vax]
            T.add("xyz_agrees %s %s %s %s %s %s" % (cqc(p), cqc(b[wax]), cqc(sshape[vax] - 1), cqc(R[wax, wax]), cqc(R[wax, 3]), cbool(p < 0)),
                  "model-vs-impl/xyz_ordered", "pixdim/offset after xyz_ordered differ from the model", dict(rep, world_axis=wax, result_affine=R.tolist()))
        # property: every stored value keeps its world position
        rd = np.asarray(res.get_fdata())
        idx = np.indices(sshape).reshape(3, -1)
        w = A @ idx + b[:, None]
        new_idx = (w - R[:3, 3:]) / np.diag(R)[:3, None]
        ok = np.all(new_idx == np.round(new_idx)) and np.all(new_idx >= 0) and np.all(new_idx < np.array(rd.shape)[:, None])
        same = ok and np.array_equal(rd[tuple(new_idx.astype(int))], data[tuple(idx)])
        if not same:
            shifted = [int(k) for k in range(3) if A[k, int(np.argmax(np.abs(A[k])))] < 0]
            if set(shifted) & {1, 2}:
                sig = "xyz_ordered/flip-y-or-z-offset-plus-one"
            else:
                sig = "xyz_ordered/world-positions-change"
            ck.fail(sig, "VolumeImg.xyz_ordered moves the data in world space (flipped world axes %s): affine %s -> %s" % (shifted, S.tolist(), R.tolist()),
                    dict(rep, result_affine=R.tolist()))
        # _swapaxes: affine columns swapped
        a1, a2 = [int(x) for x in rng.choice(3, 2, replace=False)]
        sw = img._swapaxes(a1, a2)
        T.add("swap_cols_agrees %d %d %s %s" % (a1, a2, cqm(S), cqm(sw.affine)), "model-vs-impl/_swapaxes", "affine after _swapaxes differs from the model", rep)
        if not np.array_equal(np.asarray(sw.get_fdata()), np.swapaxes(data, a1, a2)):
            ck.fail("_swapaxes/data", "data after _swapaxes is not the axis-swapped array", rep)
    ck.section("xyz_ordered", cases=nxyz)


def sec_xyz_loop(ck, T):
    """VolumeImg.xyz_ordered axis-swap loop (volume_img.py:270-275): every `_swapaxes` call of a real xyz_ordered() run is recorded
    (axis pair, resulting image) and compared exactly with ModelSwap.swap_loop (trace of first inversions, affine columns and data-axis
    order after the loop); direct oracles: adjacent swaps only, as many as the initial axis order has inversions, the image after the
    loop has its world axes in order and shows every datum at its old world position."""
    import itertools
    import nipy.labs.datasets.volumes.volume_img as vi
    VolumeImg = vi.VolumeImg
    rng = ck.rng("xyz_loop")
    perms = list(itertools.permutations(range(3)))
    ncase = ck.n(96, 960)
    for it in range(ncase):
        perm = perms[it % 6]
        signs = [(-1.0 if (it // 6 >> k) & 1 else 1.0) for k in range(3)]
        sshape = tuple(int(x) for x in rng.permutation([2, 3, 4])) if it < 48 else tuple(int(x) for x in rng.integers(2, 6, 3))
        pix = np.array([sg * 2.0 ** int(rng.integers(-1, 3)) for sg in signs])
        b = rng.integers(-6, 7, 3) * 0.5
        A = np.zeros((3, 3))
        for i in range(3):
            A[perm[i], i] = pix[i]
        if it % 5 == 4:      # small off-axis terms below the 0.001 threshold of the rotation guard still take part in argmax
            A = A + (A == 0) * 2.0 ** -11 * rng.integers(-1, 2, (3, 3))
        S = hom(A, b)
        data = np.arange(float(np.prod(sshape))).reshape(sshape)          # distinct values: the axis order of the result is observable
        img = VolumeImg(data.copy(), S, "world", interpolation="nearest")
        rep = {"entry": "VolumeImg.xyz_ordered/swap-loop", "affine": S.tolist(), "shape": sshape}
        an0 = [int(x) for x in np.argmax(np.abs(A), axis=0)]
        ninv = sum(1 for i in range(3) for k in range(i + 1, 3) if an0[i] > an0[k])
        ck.count(("xyz_loop", S.tobytes(), sshape), nontrivial=ninv > 0, bucket="xyz_loop:inversions=%d" % ninv)
        calls = []
        real_swap = VolumeImg._swapaxes

        def logged(self, axis1, axis2, _real=real_swap, _calls=calls):
            out = _real(self, axis1, axis2)
            # snapshot now: the flip step of xyz_ordered later rewrites _data / affine of this very object
            _calls.append((int(axis1), int(axis2), np.array(out.affine, dtype=float), np.array(out.get_fdata())))
            return out
        with patched(VolumeImg, "_swapaxes", logged):
            try:
                res = img.xyz_ordered()
            except Exception as e:  # noqa
                ck.fail("xyz_ordered/swap-loop/raises", "xyz_ordered raised %s: %s on a signed-permutation affine" % (type(e).__name__, e), rep)
                continue
        aff2, d2 = (calls[-1][2], calls[-1][3]) if calls else (S, data)
        A2 = aff2[:3, :3]
        rep = dict(rep, swapaxes_calls=[c[:2] for c in calls], affine_after_loop=aff2.tolist())
        # ---- direct oracles
        if any(abs(c[0] - c[1]) != 1 for c in calls):
            ck.fail("xyz_ordered/swap-loop/non-adjacent-swap", "xyz_ordered swapped a non-adjacent axis pair", rep)
        if len(calls) != ninv:
            ck.fail("xyz_ordered/swap-loop/number-of-swaps", "xyz_ordered made %d axis swaps, the axis order has %d inversions" % (len(calls), ninv), rep)
        an2 = [int(x) for x in np.argmax(np.abs(A2), axis=0)]
        if an2 != sorted(an2):
            ck.fail("xyz_ordered/swap-loop/not-sorted", "world axes are not in order after the swap loop", rep)
        if not np.array_equal(aff2[:, 3], S[:, 3]):
            ck.fail("xyz_ordered/swap-loop/offset-changed", "the swap loop changed the translation column", rep)
        axes = [ax for ax in perms if d2.shape == tuple(sshape[a] for a in ax) and np.array_equal(d2, np.transpose(data, ax))]
        if len(axes) != 1:
            ck.fail("xyz_ordered/swap-loop/data-not-an-axis-permutation", "data after the swap loop is not a transposition of the input", rep)
            continue
        axes = list(axes[0])
        idx = np.indices(sshape).reshape(3, -1)
        if not np.array_equal(A2 @ idx[axes] + b[:, None], A @ idx + b[:, None]):
            ck.fail("xyz_ordered/swap-loop/world-positions-change", "after the axis swaps a datum is shown at another world position", dict(rep, data_axes=axes))
        rd = np.asarray(res.get_fdata())
        if sorted(rd.shape) != sorted(sshape) or not np.array_equal(np.sort(rd.ravel()), data.ravel()):
            ck.fail("xyz_ordered/swap-loop/result-values", "xyz_ordered result does not hold the input values", rep)
        # ---- model (exact)
        trace = [min(c[0], c[1]) if abs(c[0] - c[1]) == 1 else 99 for c in calls]     # _swapaxes is symmetric in its arguments
        T.add("xyz_loop_agrees %s %s %s %s" % (cqm(A.T), clist([cnat(k) for k in trace]), cqm(A2.T), clist([cnat(a) for a in axes])),
              "model-vs-impl/xyz_ordered/swap-loop", "trace of _swapaxes calls / affine columns / data axes after the loop differ from ModelSwap.swap_loop",
              dict(rep, data_axes=axes))
    ck.section("xyz_loop", cases=ncase)


def lookup_nd(data, N, tshape, cval=0.0):
    """like lookup, for data with extra (non-spatial) trailing axes"""
    idx = np.indices(tshape).reshape(3, -1)
    src = (N[:3, :3] @ idx + N[:3, 3:]).round().astype(int)
    inb = np.all((src >= 0) & (src < np.array(data.shape[:3])[:, None]), axis=0)
    out = np.full((idx.shape[1],) + data.shape[3:], float(cval))
    out[inb] = data[tuple(src[:, inb])]
    return out.reshape(tuple(tshape) + data.shape[3:]), inb.reshape(tshape)


def sec_volumes_more(ck):
    """values_in_world / as_volume_img / resampled_to_img across VolumeImg and VolumeGrid (generic Transform with
    mapping + inverse_mapping), 3-D and 4-D data, composed_with_transform: grid-to-grid lookups."""
    from nipy.labs.datasets.volumes.volume_img import VolumeImg
    from nipy.labs.datasets.volumes.volume_grid import VolumeGrid
    from nipy.labs.datasets.transforms.transform import Transform, CompositionError
    from nipy.labs.datasets.transforms.affine_transform import AffineTransform as LabsAffine
    from nipy.labs.datasets.transforms.affine_utils import apply_affine
    rng = ck.rng("volumes-more")
    ncase = ck.n(120, 1000)

    def as_transform(M, name_in="voxels"):
        Mi = np.linalg.inv(M)
        return Transform(name_in, "world", mapping=lambda x, y, z, M=M: apply_affine(x, y, z, M),
                         inverse_mapping=lambda x, y, z, Mi=Mi: apply_affine(x, y, z, Mi))
    for it in range(ncase):
        sshape = tuple(int(v) for v in rng.integers(3, 6, 3))
        extra = (2,) if it % 3 == 2 else ()
        data, stored, layout, dtype = draw_source(rng, sshape + extra, plain=it < 6)
        S = rand_aff_exact(rng, 3, shear=0.1) if it >= 4 else np.eye(4)
        N = rand_voxmap(rng, 3, 3, sshape)
        G = tofloat(fmm(fmat(S), fmat(N)))
        tshape = tuple(int(v) for v in rng.integers(2, 5, 3))
        interp = "nearest" if rng.random() < 0.5 else "continuous"
        tol = 0.0 if interp == "nearest" else 1e-9
        exp, inb = lookup_nd(data, N, tshape)
        rep = {"self_affine": S.tolist(), "target_affine": G.tolist(), "voxel_map": N.tolist(), "shape": list(sshape + extra),
               "target_shape": tshape, "interpolation": interp, "data": data.tolist(), "source_layout": layout, "source_dtype": dtype}
        ck.count(("volmore", layout, dtype, S.tobytes(), G.tobytes(), interp, extra), bucket="volumes:%dD-data:%s" % (3 + len(extra), interp))
        img = VolumeImg(stored, S, "world", interpolation=interp)
        grid = VolumeGrid(stored, as_transform(S), interpolation=interp)
        tgt_img = VolumeImg(np.zeros(tshape), G, "world")
        tgt_grid = VolumeGrid(np.zeros(tshape), as_transform(G))
        calls = {
            "VolumeImg.resampled_to_img(VolumeImg)": lambda: img.resampled_to_img(tgt_img),
            "VolumeImg.resampled_to_img(VolumeGrid)": lambda: img.resampled_to_img(tgt_grid),
            "VolumeGrid.resampled_to_img(VolumeImg)": lambda: grid.resampled_to_img(tgt_img),
            "VolumeGrid.resampled_to_img(VolumeGrid)": lambda: grid.resampled_to_img(tgt_grid),
            "VolumeGrid.as_volume_img": lambda: grid.as_volume_img(affine=G, shape=tshape),
            "VolumeImg.as_volume_img": lambda: img.as_volume_img(affine=G, shape=tshape),
        }
        for name, fn in calls.items():
            r = guarded(ck, "grid-to-grid/%s" % name, dict(rep, entry=name), fn)
            if r is None:
                continue
            out = np.asarray(r.get_fdata())
            if out.shape != exp.shape or not close(out, exp, tol):
                ck.fail("grid-to-grid/%s/%s" % (name, "4D-data" if extra else "3D-data"),
                        "%s (interpolation %s): resampled data differs from the looked-up source values" % (name, interp),
                        dict(rep, entry=name, got=out.tolist(), expected=exp.tolist()))
            if hasattr(r, "affine") and not np.array_equal(r.affine, G):
                ck.fail("output-affine/%s" % name, "%s: result does not carry the target affine" % name, dict(rep, entry=name))
            if r.world_space != "world":
                ck.fail("output-world-space/%s" % name, "%s: result world space changed" % name, dict(rep, entry=name))
        # values_in_world at lattice world positions, array-shaped input, both classes
        vox = np.stack([rng.integers(0, sshape[k], (2, 3)) for k in range(3)]).astype(float)
        w = np.einsum("ij,j...->i...", S[:3, :3], vox) + S[:3, 3][:, None, None]
        want = data[tuple(vox.astype(int))]
        for name, obj in (("VolumeImg.values_in_world", img), ("VolumeGrid.values_in_world", grid)):
            vals = guarded(ck, "grid-to-grid/%s" % name, dict(rep, entry=name), lambda: obj.values_in_world(w[0], w[1], w[2]))
            if vals is not None and (np.shape(vals) != want.shape or not close(vals, want, tol)):
                ck.fail("grid-to-grid/%s/%s" % (name, "4D-data" if extra else "3D-data"),
                        "%s at the world positions of voxels differs from the stored values" % name,
                        dict(rep, entry=name, world_points=w.tolist()))
        # composed_with_transform: same data, world positions mapped by W
        W = rand_aff_exact(rng, 3, shear=0.1)
        moved = guarded(ck, "composed_with_transform", rep, lambda: img.composed_with_transform(LabsAffine("world", "w2", W)))
        if moved is not None:
            w2 = np.einsum("ij,j...->i...", W[:3, :3], w) + W[:3, 3][:, None, None]
            vals = guarded(ck, "composed_with_transform/values_in_world", rep, lambda: moved.values_in_world(w2[0], w2[1], w2[2]))
            if moved.world_space != "w2" or vals is None or not close(vals, want, tol):
                ck.fail("composed_with_transform/values-move", "VolumeImg.composed_with_transform(W): value at W(world position) differs from the stored value",
                        dict(rep, world_transform=W.tolist()))
        # ---- lattice transforms given as python callables that keep the dtype of their arguments (integer world
        # coordinates stay integers all the way to the sampler), targets reaching beyond the field of view on both sides,
        # and world coordinates queried as int64 / int32 / float64 / float32 arrays and python scalars
        def lattice_transform(perm, shift):
            inv = np.argsort(perm)

            def mapping(x, y, z):
                c = (x, y, z)
                return tuple(c[perm[k]] + int(shift[k]) for k in range(3))

            def inverse_mapping(x, y, z):
                w = (x, y, z)
                return tuple(w[inv[j]] - int(shift[inv[j]]) for j in range(3))
            M = np.zeros((4, 4))
            for k in range(3):
                M[k, perm[k]] = 1
            M[:3, 3] = shift
            M[3, 3] = 1
            return Transform("voxels", "world", mapping=mapping, inverse_mapping=inverse_mapping), M
        perm_s = rng.permutation(3) if rng.random() < 0.5 else np.arange(3)
        perm_t = rng.permutation(3) if rng.random() < 0.5 else np.arange(3)
        tr_s, Sl = lattice_transform(perm_s, rng.integers(-3, 4, 3))
        tr_t, Gl = lattice_transform(perm_t, Sl[:3, 3] + rng.integers(-2, 3, 3))
        Nl = np.round(np.linalg.inv(Sl) @ Gl)
        tshape_l = tuple(int(v) for v in rng.integers(3, 6, 3))
        exp_l, inb_l = lookup_nd(data, Nl, tshape_l)
        rep_l = {"source_lattice_affine": Sl.tolist(), "target_lattice_affine": Gl.tolist(), "voxel_map": Nl.tolist(), "shape": list(sshape + extra),
                 "target_shape": tshape_l, "interpolation": interp, "data": data.tolist(), "source_layout": layout, "source_dtype": dtype,
                 "note": "transforms are python callables that keep integer coordinates integer"}
        ck.count(("volmore-lattice", Sl.tobytes(), Gl.tobytes(), interp, layout, dtype), bucket="volumes:lattice-transform:%s" % ("some-outside" if not inb_l.all() else "all-inside"))
        lgrid = VolumeGrid(stored, tr_s, interpolation=interp)
        lcalls = {
            "VolumeGrid.resampled_to_img(VolumeGrid)": lambda: lgrid.resampled_to_img(VolumeGrid(np.zeros(tshape_l), tr_t)),
            "VolumeGrid.resampled_to_img(VolumeImg)": lambda: lgrid.resampled_to_img(VolumeImg(np.zeros(tshape_l), Gl, "world")),
            "VolumeImg.resampled_to_img(VolumeGrid)": lambda: VolumeImg(stored, Sl, "world", interpolation=interp).resampled_to_img(VolumeGrid(np.zeros(tshape_l), tr_t)),
            "VolumeGrid.as_volume_img": lambda: lgrid.as_volume_img(affine=Gl, shape=tshape_l),
        }
        for name, fn in lcalls.items():
            r = guarded(ck, "grid-to-grid/%s/lattice-transform" % name, dict(rep_l, entry=name), fn)
            if r is None:
                continue
            out = np.asarray(r.get_fdata())
            if out.shape != exp_l.shape or not close(out, exp_l, tol):
                okin = out.shape == exp_l.shape and close(out[inb_l], exp_l[inb_l], tol)
                ck.fail("%s/%s/lattice-transform" % ("outside-not-zero" if okin else "grid-to-grid", name),
                        "%s between integer-preserving lattice transforms (interpolation %s): %s" % (
                            name, interp, "target points outside the source field of view do not get 0" if okin else "resampled data differs from the looked-up source values"),
                        dict(rep_l, entry=name, got=out.tolist(), expected=exp_l.tolist()))
        # values_in_world at lattice points inside and outside the field of view, every coordinate type
        vq = np.stack([rng.integers(-sshape[k] - 1, 2 * sshape[k] + 1, 8) for k in range(3)])
        vq[:, :3] = np.stack([rng.integers(0, sshape[k], 3) for k in range(3)])          # three inside
        vq[:, 3] = -1 - rng.integers(0, 2, 3) * 0                                          # just below every axis
        vq[:, 4] = np.array(sshape)                                                         # just above every axis
        inside_q = np.all((vq >= 0) & (vq < np.array(sshape)[:, None]), axis=0)
        want_q = np.zeros((vq.shape[1],) + extra)
        want_q[inside_q] = data[tuple(vq[:, inside_q])]
        wq = np.stack([vq[perm_s[k]] + int(Sl[k, 3]) for k in range(3)])
        for ctype in ("int64", "int32", "float64", "float32", "python-int"):
            for name, obj in (("VolumeGrid.values_in_world", lgrid), ("VolumeImg.values_in_world", VolumeImg(stored, Sl, "world", interpolation=interp))):
                def query(obj=obj, ctype=ctype):
                    if ctype == "python-int":
                        return np.array([np.asarray(obj.values_in_world(int(wq[0, q]), int(wq[1, q]), int(wq[2, q])))[0] for q in range(wq.shape[1])])
                    return np.asarray(obj.values_in_world(wq[0].astype(ctype), wq[1].astype(ctype), wq[2].astype(ctype)))
                vals = guarded(ck, "%s/%s-coordinates" % (name, ctype), dict(rep_l, entry=name, world_points=wq.T.tolist()), query)
                if vals is None:
                    continue
                if vals.shape != want_q.shape or not close(vals, want_q, tol):
                    okin = vals.shape == want_q.shape and close(vals[inside_q], want_q[inside_q], tol)
                    ck.fail("%s/%s/%s-coordinates" % ("outside-not-zero" if okin else "grid-to-grid", name, "integer" if "int" in ctype else "float"),
                            "%s with %s world coordinates: %s (voxel positions %s)" % (
                                name, ctype, "a point outside the field of view does not get 0" if okin else "lattice values differ from the stored values", vq.T.tolist()),
                            dict(rep_l, entry=name, coordinate_type=ctype, world_points=wq.T.tolist(), got=np.asarray(vals).tolist(), expected=want_q.tolist()))
        if it % 10 == 0:
            try:
                img.resampled_to_img(VolumeImg(np.zeros(tshape), G, "elsewhere"))
                ck.fail("resampled_to_img/world-space-not-checked", "resampling onto an image of another world space did not raise", rep)
            except CompositionError:
                pass
    ck.section("volumes_more", cases=ncase)


# ================================================================== Realign4d
def sec_realign(ck, T):
    import nipy.algorithms.registration.groupwise_registration as gr
    from nipy.algorithms.registration.affine import Rigid
    from nipy.core.image.image_spaces import make_xyz_image
    rng = ck.rng("realign")
    ncase = ck.n(100, 800)
    for it in range(ncase):
        Tw = rand_aff_exact(rng, 3, shear=0.1)
        Fw = np.linalg.inv(Tw)
        Am = rand_aff_exact(rng, 3, shear=0.1) if it % 3 else np.eye(4)
        xyz = rng.integers(-3, 6, (4, 3)).astype(float)
        X, Y, Z = gr.scanner_coords(xyz, Am, Fw, Tw)
        ck.count(("scanner", Tw.tobytes(), Am.tobytes()), bucket="realign4d:scanner_coords")
        if exact_inverse(Tw, Fw):
            for k in range(4):
                T.add("scanner_pt_agrees %s %s %s %s %s" % (cqm(Fw), cqm(Am), cqm(Tw), cqv(xyz[k]), cqv([X[k], Y[k], Z[k]])),
                      "model-vs-impl/scanner_coords", "scanner_coords differs from the model",
                      {"from_world": Fw.tolist(), "affine": Am.tolist(), "to_world": Tw.tolist(), "xyz": xyz[k].tolist()})
        # property: scanner_coords = from_world o affine o to_world, applied one after the other
        seq = xyz
        for Mx in (Tw, Am, Fw):
            seq = seq @ Mx[:3, :3].T + Mx[:3, 3]
        if not np.array_equal(np.c_[X, Y, Z], seq):
            ck.fail("realign4d/scanner_coords-composition-order", "scanner_coords is not from_world(affine(to_world(xyz)))",
                    {"from_world": Fw.tolist(), "affine": Am.tolist(), "to_world": Tw.tolist(), "xyz": xyz.tolist()})
        if it % 3 == 0 and not np.array_equal(np.c_[X, Y, Z], xyz):
            ck.fail("realign4d/scanner_coords-identity", "scanner_coords with the identity transform moves grid points",
                    {"to_world": Tw.tolist(), "xyz": xyz.tolist()})
    # identity transforms reproduce the input (no time interpolation)
    nid = ck.n(4, 25)
    for it in range(nid):
        shape = tuple(int(s) for s in rng.integers(5, 8, 3)) + (3,)
        data = rng.normal(size=shape)
        layout = LAYOUTS[it % len(LAYOUTS)]
        aff = hom(np.diag(rng.uniform(1.0, 3.0, 3)), rng.normal(size=3) * 5)
        im4d = gr.Image4d(relayout(data, layout), aff, tr=2.0, slice_times=0, slice_info=(2, 1))
        res = gr.resample4d(im4d, [Rigid() for _ in range(shape[3])], time_interp=False)
        ck.count(("resample4d", it), bucket="realign4d:identity")
        if not close(res, data, 1e-8):
            ck.fail("realign4d/identity-does-not-reproduce-input", "resample4d with identity transforms and no time interpolation changes the data (max %.3g)"
                    % np.max(np.abs(res - data)), {"shape": shape, "affine": aff.tolist(), "source_layout": layout})
    # resample4d (Realign4dAlgorithm.resample_full_data) with a DIFFERENT non-identity transform per scan on a grid whose
    # affine is not the identity (anisotropic, flipped, offset): (a) world translations by whole voxels look the shifted
    # voxel up; (b) arbitrary small rigid motions agree with an independent evaluation of the property statement
    # (scipy cubic spline at inv(affine).T_t.affine.v) away from the border
    from scipy.ndimage import map_coordinates as ref_map_coordinates
    nfull = ck.n(6, 40)
    for it in range(nfull):
        shape = tuple(int(s) for s in rng.integers(7, 10, 3)) + (3,)
        g = np.indices(shape).astype(float)
        data = np.sin(g[0] * 0.6 + g[3]) + np.cos(g[1] * 0.5) * 0.5 + g[2] * 0.1 + rng.normal(size=shape) * 0.05
        layout = LAYOUTS[it % len(LAYOUTS)]
        stored = relayout(data, layout)
        zooms = rng.uniform(1.0, 3.0, 3) * np.array(rng.choice([-1, 1], 3))
        aff = hom(np.diag(zooms), rng.normal(size=3) * 5)
        for kind in ("voxel-shifts", "rigid"):
            vecs, shifts = [], []
            for t in range(shape[3]):
                vec = np.zeros(12)
                if kind == "voxel-shifts":
                    sft = rng.integers(-1, 2, 3)
                    if t == 0 and not sft.any():
                        sft[int(rng.integers(0, 3))] = 1
                    shifts.append(sft)
                    vec[:3] = aff[:3, :3] @ sft
                else:
                    vec[:3] = rng.normal(size=3) * 0.8
                    vec[3:6] = rng.normal(size=3) * 0.04
                vecs.append(vec)
            for time_interp in (False, True):
                rep = {"entry": "resample4d", "shape": shape, "affine": aff.tolist(), "transform_params": [v.tolist() for v in vecs],
                       "time_interp": time_interp, "source_layout": layout, "kind": kind}
                ck.count(("resample4d-moving", it, kind, time_interp), bucket="realign4d:resample4d:%s" % kind)
                transforms = [Rigid(v) for v in vecs]
                res = guarded(ck, "realign4d/resample4d/%s" % kind, rep,
                              lambda: gr.resample4d(gr.Image4d(stored, aff, tr=2.0, slice_times=0, slice_info=(2, 1)), transforms, time_interp=time_interp))
                if res is None:
                    continue
                xyz = np.indices(shape[:3]).reshape(3, -1)
                for t in range(shape[3]):
                    Tv = np.linalg.inv(aff) @ transforms[t].as_affine() @ aff
                    sv = Tv[:3, :3] @ xyz + Tv[:3, 3:]
                    if kind == "voxel-shifts":
                        src = np.round(sv).astype(int)
                        sel = np.all((src >= 0) & (src < np.array(shape[:3])[:, None]), axis=0)
                        want = data[..., t][tuple(src[:, sel])]
                        tol_t = 1e-7
                    else:
                        sel = np.all((sv >= 2) & (sv <= np.array(shape[:3])[:, None] - 3), axis=0)
                        want = ref_map_coordinates(data[..., t], sv[:, sel], order=3, mode="mirror")
                        tol_t = 1e-6
                    got = res[..., t].reshape(-1)[sel]
                    if sel.any() and not close(got, want, tol_t):
                        bad = np.abs(got - want) > tol_t * (1 + np.abs(want))
                        zsrc = sv[2, sel][bad]
                        if time_interp and np.all(np.abs(zsrc) < 1e-6):
                            # every wrong voxel samples the first slice plane (scanner z = 0 up to rounding): the slice-time
                            # correction jumps there (see the interp_slice_times oracle below)
                            ck.fail("realign4d/resample4d/time-interp/scanner-z-at-first-slice",
                                    "resample4d with time interpolation: voxels whose scanner z coordinate is 0 up to rounding (%.3g) are sampled at the wrong time (scan %d, max err %.3g)"
                                    % (float(np.min(zsrc)), t, np.max(np.abs(got - want))), dict(rep, scan=t))
                            break
                        ck.fail("realign4d/resample4d/%s/%s" % (kind, "time-interp" if time_interp else "no-time-interp"),
                                "resample4d with per-scan %s on a non-identity grid: scan %d is not the source sampled at inv(affine).T.affine.v (max %.3g)"
                                % (kind, t, np.max(np.abs(got - want))), dict(rep, scan=t))
                        break
    # slice-time model used by the time interpolation: interp_slice_times(Z, slice_times, tr) is the acquisition time of
    # (fractional) slice Z within a repetition; beyond the volume the acquisition repeats every tr, so the function must
    # return slice_times[k] at slice k, be continuous in Z and satisfy f(Z + nslices) = f(Z) + tr
    nst = ck.n(20, 200)
    for it in range(nst):
        ns = int(rng.integers(2, 9))
        tr = float(rng.choice([1.0, 2.0, 2.5, 3.0, float(ns)]))
        st = np.sort(rng.integers(0, 64, ns)) / 64.0 * tr if it % 4 else np.zeros(ns)
        rep = {"entry": "interp_slice_times", "slice_times": st.tolist(), "tr": tr}
        ck.count(("slice-times", it, ns, tr), bucket="realign4d:interp_slice_times")
        f = lambda Z: np.asarray(gr.interp_slice_times(np.asarray(Z, float), st, tr))
        k = np.arange(ns)
        if not close(f(k), st, 1e-12):
            ck.fail("realign4d/interp_slice_times/in-volume-slice-time", "interp_slice_times at slice k is not slice_times[k]", rep)
        Zs = np.concatenate([np.arange(-ns, 2 * ns + 1), rng.uniform(-ns, 2 * ns, 6)])
        periodic = close(f(Zs + ns), f(Zs) + tr, 1e-9)
        cont = close(f(np.arange(-ns, 2 * ns + 1) - 1e-9), f(np.arange(-ns, 2 * ns + 1)), 1e-6)
        inside = np.arange(1, ns)
        cont_inside = close(f(inside - 1e-9), f(inside), 1e-6)
        if not cont_inside:
            ck.fail("realign4d/interp_slice_times/discontinuous-inside-volume", "interp_slice_times jumps at an interior slice", rep)
        elif not (periodic and cont):
            ck.fail("realign4d/interp_slice_times/not-tr-periodic-outside-volume",
                    "interp_slice_times(Z) outside [0, nslices): f(Z+nslices) = f(Z)+tr %s, continuity at the volume border %s (e.g. f(-1e-9)=%.6g, f(0)=%.6g)"
                    % ("holds" if periodic else "fails", "holds" if cont else "fails", float(f([-1e-9])[0]), float(f([0.0])[0])), rep)
    # Realign4dAlgorithm.resample(t) on the working grid: identity transforms reproduce the input at the grid points;
    # a world translation by an integer number of voxels looks the shifted voxel up (interior points)
    nra = ck.n(6, 30)
    for it in range(nra):
        shape = tuple(int(s) for s in rng.integers(6, 9, 3)) + (3,)
        data = rng.normal(size=shape)
        aff = hom(np.diag(rng.uniform(1.0, 3.0, 3)) * np.array(rng.choice([-1, 1], 3)), rng.normal(size=3) * 5)
        sub = tuple(int(v) for v in rng.integers(1, 3, 3))
        layout = LAYOUTS[(it + 2) % len(LAYOUTS)]
        stored = relayout(data, layout)
        for time_interp in (False, True):
            ck.count(("realign-resample", it, time_interp), bucket="realign4d:resample-identity")
            rep = {"shape": shape, "affine": aff.tolist(), "subsampling": sub, "time_interp": time_interp, "source_layout": layout}

            def run_id():
                im4d = gr.Image4d(stored, aff, tr=2.0, slice_times=0, slice_info=(2, 1))
                r = gr.Realign4dAlgorithm(im4d, time_interp=time_interp, subsampling=sub)
                for t in range(shape[3]):
                    r.resample(t)
                return r
            r = guarded(ck, "realign4d/resample-identity", rep, run_id)
            if r is None:
                continue
            x, y, z = r.xyz[:, 0], r.xyz[:, 1], r.xyz[:, 2]
            want = data[x, y, z, :]
            if not close(r.data, want, 1e-8):
                ck.fail("realign4d/resample-identity-does-not-reproduce-input/%s" % ("time-interp" if time_interp else "no-time-interp"),
                        "Realign4dAlgorithm.resample with identity transforms differs from the input at the grid points (max %.3g)" % np.max(np.abs(r.data - want)), rep)
        # integer voxel shift along x given as a world translation
        shift = np.array([1, 0, 0])
        tw = aff[:3, :3] @ shift
        vec = np.zeros(12)
        vec[:3] = tw

        def run_shift():
            im4d = gr.Image4d(stored, aff, tr=2.0, slice_times=0, slice_info=(2, 1))
            r = gr.Realign4dAlgorithm(im4d, time_interp=False, transforms=[Rigid(vec) for _ in range(shape[3])], borders=(2, 2, 2))
            for t in range(shape[3]):
                r.resample(t)
            return r
        rep = {"shape": shape, "affine": aff.tolist(), "world_translation": tw.tolist(), "source_layout": layout}
        r = guarded(ck, "realign4d/resample-voxel-shift", rep, run_shift)
        ck.count(("realign-shift", it), bucket="realign4d:resample-voxel-shift")
        if r is not None:
            x, y, z = r.xyz[:, 0] + 1, r.xyz[:, 1], r.xyz[:, 2]
            if not close(r.data, data[x, y, z, :], 1e-7):
                ck.fail("realign4d/resample-voxel-shift", "Realign4dAlgorithm.resample with a one-voxel world translation does not look the shifted voxel up "
                        "(max %.3g)" % np.max(np.abs(r.data - data[x, y, z, :])), rep)
    ck.section("realign4d", scanner_cases=ncase, identity_runs=nid, algorithm_resample_runs=nra, resample4d_moving_runs=nfull)


def run(ck):
    ck.cov["rule"] = ("per entry point, random source/target grids on an exact-arithmetic island (signed axis permutations, power-of-two zooms, "
                      "unit shears, half-integer shifts, permuted axis names, 2-4 D, target of lower dimension), every mapping argument form "
                      "(tuple, matrix, AffineTransform incl. ill-typed, callable, img2img), both voxel/world flags, orders 0..5, all boundary modes; "
                      "60-70% of cases are grid-to-grid by construction (G = T^-1 S N with N an integer voxel map) so the expected output is a lookup; "
                      "plus non-dyadic random affine maps for the order-1 affine-field oracle.  A case = one call of an entry point; "
                      "non-trivial = not the identity-on-identity call; distinct by (entry, matrices, options)")
    ck.coq_build(extra_dirs=["C01"])
    ck.overlay()
    import time
    T = Terms()
    timing = {}

    def timed(name, fn, *a):
        t0 = time.time()
        try:
            fn(*a)
        except Exception as e:  # noqa  (an entry point raising on a valid input; the other sections still run)
            import traceback
            ck.fail("%s/unexpected-exception" % name, "section %s stopped: %s: %s" % (name, type(e).__name__, e),
                    {"kind": "exception-in-entry-point", "trace": traceback.format_exc()[-2500:]})
        timing[name] = round(time.time() - t0, 1)
    timed("int_tuple_probe", probe_int_tuple, ck)
    timed("resample", sec_resample, ck, T)
    timed("interpolator", sec_interpolator, ck, T)
    timed("registration", sec_registration, ck, T)
    timed("cspline_storage", sec_cspline_storage, ck)
    timed("volumeimg", sec_volumeimg, ck, T)
    timed("xyz_loop", sec_xyz_loop, ck, T)
    timed("volumes_more", sec_volumes_more, ck)
    timed("realign4d", sec_realign, ck, T)
    timed("linear_field", sec_linear, ck)
    t0 = time.time()
    if ck.build.ok:
        res = ck.coq_bools(HDR, T.terms, shard=150)
        ck.cov["traces_validated_against_impl"] += len(res)
        for ok, term, (sig, what, rep) in zip(res, T.terms, T.metas):
            if not ok:
                ck.fail(sig, what, dict(rep, coq_term=term))
    timing["coq_vm_compute"] = round(time.time() - t0, 1)
    ck.section("timing_s", **timing)
    ck.section("correspondence", coq_terms=len(T.terms))
    ck.trust.append("oracle contracts (hypotheses of the theorems, sampled by the harness, never proved): numpy.linalg.inv returns a two-sided inverse "
                    "(re-validated exactly per case by Exec.inv_check); scipy.ndimage.affine_transform(input, matrix, offset) samples input at "
                    "matrix.o+offset (1-D matrix: matrix*o+offset), map_coordinates samples at the given coordinates, _cspline_resample3d samples at Tvox.o; "
                    "interpolation contract: exact at in-bounds lattice points for every order, cval outside in 'constant' mode, order 1 exact on data "
                    "affine in voxel position")
    ck.trust.append("C01's model of compose/AffineTransform construction (NV.C01.Model) is reused; its own correspondence is C01's check")
