"""C03 - NIfTI save/load round trip preserves data and geometry, or refuses.

Sections
  corr/nipy2nifti   generated images (3..6(7) dims, all axis/coordinate orders, every space, every
                    time-like configuration, couplings, offsets, strict/fix0) -> nipy2nifti and
                    nifti2nipy(nipy2nifti) of the implementation vs the Coq model (vm_compute),
                    with the answers of nibabel.io_orientation recorded and handed to the model
  corr/find_time_like  _find_time_like decision table, all name combinations
  corr/nifti2nipy   hand-built NIfTI headers (codes, units, dim_info, unit 4th axis) -> nifti2nipy vs model
  corr/filenames    _type_from_filename vs model
  oracle/*          the property statement evaluated on the implementation alone
"""
import itertools
import os
from fractions import Fraction

import numpy as np

from ..kit import cnat, cnatl, cq, cql, cstr, cbool, clist, cz, frac

HDR = ("From Coq Require Import String.\nFrom Coq Require Import List ZArith QArith.\n"
       "From NV.Lib Require Import Harness.\nFrom NV.Generated Require Import NiftiTables NiftiUnits.\n"
       "From NV.C03 Require Import Model Exec UnitsModel ExecUnits.\nOpen Scope string_scope.\n")

SPACES = ["scanner", "aligned", "talairach", "mni", "unknown"]
SUF = ["x=L->R", "y=P->A", "z=I->S"]
TL = {"t": ["t", "time"], "hz": ["hz", "frequency-hz"], "ppm": ["ppm", "concentration-ppm"],
      "rads": ["rads", "radians/s"]}
TL_UNITS = {"t": "sec", "hz": "hz", "ppm": "ppm", "rads": "rads"}
ALL_TL = [a for v in TL.values() for a in v]
ZOOMS = [0.5, 1.0, 1.5, 2.0, 2.5, 3.0, 0.75, 4.0]
ERRKEYS = [("cannot be reordered", 1), ("not orthogonal to space", 2), ("not orthogonal to each other", 3),
           ("not a NIFTI world", 4), ("'unknown' but affine", 5), ("Too many dimensions", 6),
           ("found in input and output", 7), ("in input matches axis type", 8), ("in output matches axis type", 8),
           ("Time input and output do not match", 9), ("less than 3 dimensions", 11)]
ERRNAME = {0: "NiftiError(other)", 1: "reorder", 2: "space-coupled", 3: "nonspace-coupled", 4: "world", 5: "unknown-affine",
           6: "too-many-dims", 7: "timelike-mismatch", 8: "timelike-cross", 9: "toffset-unmatched", 10: "TypeError", 11: "ndim<3"}


# ------------------------------------------------------------------ literals
def cstrl(xs):
    return clist([cstr(x) for x in xs])


def cqmat(M):
    return clist([cql([frac(v) for v in row]) for row in M])


def copt(x):
    return "None" if x is None else "(Some %s)" % cnat(x)


def coptl(xs):
    return clist([copt(x) for x in xs])


def cimg(c):
    return "(mk_img %s %s %s %s %s %s)" % (cstrl(c["inn"]), cstrl(c["outn"]), cqmat(c["A"]),
                                           cql([frac(v) for v in c["trans"]]), cnatl(c["shape"]), cq(frac(c["meta_toffset"])))


def ctab(calls):
    return clist(["(%s, %s)" % (cqmat(M), coptl(o)) for M, o in calls])


def cnobs(o):
    return ("(inl {| o_aff := %s; o_sform := %s; o_qform := %s; o_dim_info := %s; o_tunits := %s; o_pixdim := %s; "
            "o_toffset := %s; o_shape := %s; o_data := %s |})" % (
                cqmat(o["aff"]), cstr(o["sform"]), cstr(o["qform"]), coptl(o["dim_info"]), cstr(o["tunits"]),
                cql(o["pixdim"]), cq(o["toffset"]), cnatl(o["shape"]), clist([cz(v) for v in o["data"]])))


def ciobs(o):
    return ("(inl {| i_inn := %s; i_outn := %s; i_lin := %s; i_trn := %s; i_shp := %s; i_data := %s |})" % (
        cstrl(o["inn"]), cstrl(o["outn"]), cqmat(o["lin"]), cql(o["trn"]), cnatl(o["shp"]),
        clist([cz(v) for v in o["data"]])))


def cerr(code):
    return "(inr %s)" % cnat(code)


# ------------------------------------------------------------------ implementation access
class Impl:
    def __init__(self, ck):
        import nibabel as nib
        from nipy.core.api import Image, AffineTransform, CoordinateSystem
        from nipy.core.image import image_spaces
        from nipy.core.reference import spaces, coordinate_map
        from nipy.io import nifti_ref, files
        self.nib, self.Image, self.AT, self.CS = nib, Image, AffineTransform, CoordinateSystem
        self.nr, self.files, self.spaces = nifti_ref, files, spaces
        self.calls = []
        orig = nib.io_orientation
        self.state0 = self.hidden_state()

        def recorded(aff, *a, **k):
            r = orig(aff, *a, **k)
            A = np.asarray(aff, dtype=float)
            q, p = A.shape[0] - 1, A.shape[1] - 1
            self.calls.append((A[:q, :p].copy(), [None if np.isnan(v) else int(v) for v in r[:, 0]]))
            return r
        # np.argsort inside as_xyz_image: the default sort kind gives no promise for ties (several nan -> inf
        # orientation entries); its answers are recorded and handed to the model as the sort oracle
        self.sorts = []
        outer = self

        class NPProxy:
            def __getattr__(self, name):
                return getattr(np, name)

            def argsort(self, a, *args, **kw):
                r = np.argsort(a, *args, **kw)
                vals = [float(v) for v in np.asarray(a, dtype=float)]
                fin = [int(v) for v in vals if np.isfinite(v)]
                big = 1 + max(fin + [0])
                outer.sorts.append(([int(v) if np.isfinite(v) else big for v in vals], [int(v) for v in r]))
                return r
        if getattr(image_spaces, "np", None) is not np:
            ck.fail("harness/argsort-hook", "image_spaces no longer uses `np`", {}, found_input=False)
        image_spaces.np = NPProxy()
        for m in (image_spaces, spaces, coordinate_map):
            if getattr(m, "io_orientation", None) is None:
                ck.fail("harness/io_orientation-hook", "module %s no longer imports io_orientation by name" % m.__name__,
                        {"module": m.__name__}, found_input=False)
            m.io_orientation = recorded

    def hidden_state(self):
        """module-level tables the conversions consult: a conversion must not change them"""
        st = {"spaces.known_names": dict(self.spaces.known_names),
              "spaces.known_spaces": [s.name for s in self.spaces.known_spaces]}
        for nm in ("XFORM2SPACE", "TIME_LIKE_AXES", "TIME_LIKE_MAP", "TIME_LIKE_ORDERED", "TIME_LIKE_UNITS"):
            v = getattr(self.nr, nm, None)
            st["nifti_ref." + nm] = repr(sorted(v.items(), key=repr)) if isinstance(v, dict) else repr(v)
        return st

    def state_changes(self):
        now = self.hidden_state()
        return {k: {"before": str(self.state0[k])[:600], "after": str(now[k])[:600]} for k in now if now[k] != self.state0[k]}

    def errcode(self, e):
        if isinstance(e, self.nr.NiftiError):
            m = str(e)
            for key, code in ERRKEYS:
                if key in m:
                    return code
            return 0
        if isinstance(e, TypeError):
            return 10
        return None

    def image(self, c, dtype=np.float64):
        n_in, n_out = len(c["inn"]), len(c["outn"])
        aff = np.zeros((n_out + 1, n_in + 1))
        aff[:n_out, :n_in] = np.array(c["A"], dtype=float).reshape(n_out, n_in)
        aff[:n_out, -1] = c["trans"]
        aff[-1, -1] = 1
        data = np.arange(int(np.prod(c["shape"]))).reshape(c["shape"]).astype(dtype)
        md = {}
        if c.get("meta_header"):
            h = self.nib.Nifti1Header()
            h["toffset"] = c["meta_toffset"]
            h.set_data_dtype(np.float64)
            st = c.get("meta_stale")
            if st:      # a header as left behind by an earlier load: every geometry field may be stale
                h.set_xyzt_units(xyz=st["xyz_units"], t=st["t_units"])
                h.set_dim_info(*st["dim_info"])
                h["pixdim"][1:8] = st["pixdim"]
                h["sform_code"] = st["sform_code"]
                h["qform_code"] = st["qform_code"]
            md = {"header": h}
        return self.Image(data, self.AT(self.CS(c["inn"], "voxels"), self.CS(c["outn"], "world"), aff), md)

    def uniq_calls(self):
        out = []
        for M, o in self.calls:
            if not any(M.shape == M2.shape and np.array_equal(M, M2) for M2, _ in out):
                out.append((M, o))
            else:
                for M2, o2 in out:
                    if M.shape == M2.shape and np.array_equal(M, M2) and o2 != o:
                        raise RuntimeError("io_orientation is not a function of the matrix")
        return [(M.tolist(), o) for M, o in out]

    def uniq_sorts(self):
        out = []
        for k, v in self.sorts:
            if (k, v) not in out:
                if any(k == k2 for k2, _ in out):
                    raise RuntimeError("np.argsort is not a function of the keys")
                out.append((k, v))
        return out

    def observe_n(self, ni):
        hdr = ni.header
        shape = [int(s) for s in ni.shape]
        n_ns = len(shape) - 3
        return {"aff": [[frac(v) for v in row] for row in np.asarray(ni.affine)[:3, :]],
                "sform": str(hdr.get_value_label("sform_code")), "qform": str(hdr.get_value_label("qform_code")),
                "dim_info": [None if v is None else int(v) for v in hdr.get_dim_info()],
                "tunits": str(hdr.get_xyzt_units()[1]),
                "pixdim": [frac(float(v)) for v in hdr["pixdim"][4:4 + n_ns]],
                "toffset": frac(float(hdr["toffset"])), "shape": shape,
                "data": [int(v) for v in np.asarray(ni.get_fdata()).ravel()]}

    def observe_i(self, img):
        A = np.asarray(img.affine, dtype=float)
        return {"inn": list(img.coordmap.function_domain.coord_names), "outn": list(img.coordmap.function_range.coord_names),
                "lin": [[frac(v) for v in row] for row in A[:-1, :-1]], "trn": [frac(v) for v in A[:-1, -1]],
                "shp": [int(s) for s in img.shape], "data": [int(round(float(v))) for v in np.asarray(img.get_fdata()).ravel()]}


# ------------------------------------------------------------------ generator
def space_names(kind):
    if kind in SPACES:
        return [kind + "-" + s for s in SUF]
    if kind == "plain":
        return ["x", "y", "z"]
    if kind == "bogus":
        return ["bogus-" + s for s in SUF]
    if kind == "mixed":
        return ["mni-" + SUF[0], "mni-" + SUF[1], "scanner-" + SUF[2]]
    raise KeyError(kind)


def signed_perm(rng):
    P = np.eye(3)[rng.permutation(3)]
    return P * rng.choice([-1.0, 1.0], size=3)[None, :]


TL_CONFIGS = ["none", "both_same", "in_only", "out_only", "cross", "split", "two", "in_a_out_b"]


def canonical(rng, n, space=None, tlc=None, force=None):
    """Ground truth image in canonical order: xyz first, non-spatial axis a of the input tied to
    non-spatial output a by zoom z[a]."""
    force = force or {}
    m = n - 3
    g = {"n": n, "m": m}
    g["space"] = space if space is not None else str(rng.choice(SPACES + ["plain", "bogus", "mixed"],
                                                                p=[.15, .12, .12, .15, .16, .14, .08, .08]))
    shape = [int(rng.choice([1, 2, 3], p=[.15, .55, .3])) for _ in range(n)]
    while int(np.prod(shape)) > 72:
        shape[int(np.argmax(shape))] -= 1
    g["shape"] = shape
    # spatial block
    D = np.diag(rng.choice(ZOOMS, size=3))
    kind = force.get("spatial", rng.choice(["diag", "sperm", "shear"], p=[.3, .4, .3]))
    if g["space"] == "unknown" and rng.random() < 0.6:
        kind = "base"
    if kind == "base":
        S = D.copy()
        S[0, 0] *= -1
        txyz = [-(shape[i] - 1) / 2.0 * S[i, i] for i in range(3)]
        if rng.random() < 0.2:
            txyz[int(rng.integers(0, 3))] += 1.0      # not the base affine after all
            kind = "base-off"
    else:
        S = D.copy()
        if kind == "shear":
            U = np.eye(3)
            for (i, j) in [(0, 1), (0, 2), (1, 2)]:
                if rng.random() < 0.5:
                    U[i, j] = float(rng.choice([-0.5, 0.25, 0.5]))
            S = U @ S
        if kind in ("sperm", "shear"):
            S = signed_perm(rng) @ S
        txyz = [float(rng.choice([0, -3.5, 10.25, 7, -12])) for _ in range(3)]
    g["spatial"] = str(kind)
    g["S"] = S
    g["txyz"] = txyz
    # non-spatial zooms / offsets
    z = [float(rng.choice(ZOOMS)) for _ in range(m)]
    off = [0.0] * m
    # names
    ipool = ["l", "m", "n", "o", "p"]
    opool = ["u", "v", "w", "q", "r"]
    inames = ipool[:m]
    onames = opool[:m]
    if rng.random() < 0.25:
        inames = onames[:]       # same names on both sides, as nifti2nipy produces
    tl = tlc if tlc is not None else (str(rng.choice(TL_CONFIGS, p=[.2, .25, .12, .12, .07, .07, .09, .08])) if m else "none")
    if m < 2 and tl in ("split", "two", "in_a_out_b"):
        tl = "both_same"
    if m == 0:
        tl = "none"
    a = int(rng.integers(0, m)) if m else None
    T1 = str(rng.choice(list(TL)))
    T2 = str(rng.choice([t for t in TL if t != T1]))
    g["tl"] = tl
    g["tl_axis"] = None
    g["tl_name"] = None
    if tl == "both_same":
        inames[a] = str(rng.choice(TL[T1])); onames[a] = str(rng.choice(TL[T1])); g["tl_axis"], g["tl_name"] = a, T1
    elif tl == "in_only":
        inames[a] = str(rng.choice(TL[T1])); g["tl_axis"], g["tl_name"] = a, T1
    elif tl == "out_only":
        onames[a] = str(rng.choice(TL[T1])); g["tl_axis"], g["tl_name"] = a, T1
    elif tl == "cross":
        inames[a] = str(rng.choice(TL[T1])); onames[a] = str(rng.choice(TL[T2]))
    elif tl in ("split", "two", "in_a_out_b"):
        b = int(rng.choice([k for k in range(m) if k != a]))
        if tl == "split":
            inames[a] = str(rng.choice(TL[T1])); onames[b] = str(rng.choice(TL[T1]))
        elif tl == "two":
            inames[a] = str(rng.choice(TL[T1])); onames[a] = str(rng.choice(TL[T1]))
            inames[b] = str(rng.choice(TL[T2])); onames[b] = str(rng.choice(TL[T2]))
            first = [t for t in TL if t in (T1, T2)][0]
            g["tl_axis"], g["tl_name"] = (a if first == T1 else b), first
        else:
            inames[a] = str(rng.choice(TL[T1])); onames[b] = str(rng.choice(TL[T2]))
            first = [t for t in TL if t in (T1, T2)][0]
            g["tl_axis"], g["tl_name"] = (a if first == T1 else b), first
    # zero / negative zooms, offsets
    g["zero_tr"] = False
    g["degenerate"] = False
    if m and rng.random() < force.get("p_zero", 0.22):
        k = g["tl_axis"] if (g["tl_axis"] is not None and rng.random() < 0.85) else int(rng.integers(0, m))
        z[k] = 0.0
        g["zero_tr"] = (k == g["tl_axis"])
        g["degenerate"] = g["degenerate"] or (k != g["tl_axis"])
        if m > 1 and rng.random() < 0.2:
            k2 = int(rng.choice([j for j in range(m) if j != k]))
            z[k2] = 0.0
            g["degenerate"] = True
    if m and rng.random() < 0.06:
        k = int(rng.integers(0, m))
        z[k] = -z[k]
        if z[k] != 0:
            g["degenerate"] = True
    g["offset_kind"] = "none"
    if m and rng.random() < 0.45:
        if g["tl_axis"] is not None and rng.random() < 0.8:
            off[g["tl_axis"]] = float(rng.choice([7.0, -2.5, 0.125, 100.0]))
            g["offset_kind"] = "timelike"
        else:
            k = int(rng.integers(0, m))
            off[k] = float(rng.choice([3.0, -1.5]))
            g["offset_kind"] = "timelike" if k == g["tl_axis"] else "elsewhere"
        if rng.random() < 0.1:
            k = int(rng.integers(0, m))
            if off[k] == 0:
                off[k] = 5.0
                g["offset_kind"] = "timelike" if (k == g["tl_axis"] and g["offset_kind"] == "none") else "elsewhere"
    g["z"], g["off"] = z, off
    # couplings
    A = np.zeros((n, n))
    A[:3, :3] = S
    for k in range(m):
        A[3 + k, 3 + k] = z[k]
    g["coupling"] = "none"
    r = rng.random()
    if m and r < 0.07:
        if rng.random() < 0.5:
            A[int(rng.integers(0, 3)), 3 + int(rng.integers(0, m))] = 0.5
        else:
            A[3 + int(rng.integers(0, m)), int(rng.integers(0, 3))] = 0.5
        g["coupling"] = "space-nonspace"
    elif m > 1 and r < 0.14:
        i, j = rng.choice(m, size=2, replace=False)
        A[3 + int(i), 3 + int(j)] = 0.5
        g["coupling"] = "nonspace-nonspace"
    g["A"] = A
    sp_in = ["i", "j", "k"]
    if rng.random() < 0.3:
        sp_in = [str(v) for v in rng.permutation(["freq", "phase", "slice"])]
        for k in range(3):
            if rng.random() < 0.3:
                sp_in[k] = "ijk"[k]
    # a non-spatial coordinate may carry any name, also one that is a spatial name in another mode
    # ('x', 'y', 'z' are spatial only for strict=False)
    g["extra_xyz"] = None
    free = [k for k in range(m) if onames[k] in opool]
    if free and g["space"] != "plain" and rng.random() < 0.12:
        k = int(rng.choice(free))
        nm = str(rng.choice(["x", "y", "z"]))
        if inames[k] == onames[k] and rng.random() < 0.5:
            inames[k] = nm
        onames[k] = nm
        g["extra_xyz"] = nm
    g["inn"] = sp_in + inames
    g["outn"] = space_names(g["space"]) + onames
    g["trans"] = list(txyz) + off
    return g


STALE_XYZ = ["unknown", "mm", "micron", "meter"]
STALE_T = ["unknown", "sec", "msec", "usec", "hz", "ppm", "rads"]


def stale_header(rng):
    """stale geometry fields of a metadata header (as an earlier load of another file leaves them)"""
    di = [None, None, None]
    if rng.random() < 0.5:
        p = [int(v) for v in rng.permutation(3)]
        di = [p[k] if rng.random() < 0.7 else None for k in range(3)]
    return {"xyz_units": str(rng.choice(STALE_XYZ)), "t_units": str(rng.choice(STALE_T)), "dim_info": di,
            "pixdim": [float(v) for v in rng.choice(ZOOMS, size=7)],
            "sform_code": int(rng.integers(0, 5)), "qform_code": int(rng.integers(0, 5))}


def permuted(g, p_in, p_out, strict, fix0, meta=None, stale=None):
    A = g["A"][list(p_out), :][:, list(p_in)]
    c = {"inn": [g["inn"][i] for i in p_in], "outn": [g["outn"][i] for i in p_out],
         "A": A.tolist(), "trans": [g["trans"][i] for i in p_out], "shape": [g["shape"][i] for i in p_in],
         "strict": bool(strict), "fix0": bool(fix0), "meta_header": meta is not None, "meta_toffset": float(meta or 0.0),
         "p_in": [int(i) for i in p_in], "p_out": [int(i) for i in p_out]}
    if stale is not None:
        c["meta_header"] = True
        c["meta_stale"] = stale
    return c


def describe(g, c):
    return {"ndim": g["n"], "space": g["space"], "spatial": g["spatial"], "timelike_config": g["tl"],
            "timelike": g["tl_name"], "zero_tr": g["zero_tr"], "offset": g["offset_kind"], "coupling": g["coupling"],
            "strict": c["strict"], "fix0": c["fix0"], "meta_header": c["meta_header"],
            "input_names": c["inn"], "output_names": c["outn"], "affine_matrix_part": c["A"], "translation": c["trans"],
            "shape": c["shape"], "meta_toffset": c["meta_toffset"], "meta_stale_header_fields": c.get("meta_stale"),
            "extra_axis_named_like_space": g.get("extra_xyz")}


# ------------------------------------------------------------------ property oracle (implementation only)
def expressible(g, c):
    """Ground-truth classification per the property statement: 'yes' (must round trip), 'no:<class>'
    (must raise NiftiError), 'open' (outside the quantifier, or legitimately refused; nothing required)."""
    A = g["A"]
    m = g["m"]
    if np.any(A[3:, :3] != 0) or np.any(A[:3, 3:] != 0):
        return "no:space-coupled"
    B = A[3:, 3:] != 0
    if m and (np.any(B.sum(0) > 1) or np.any(B.sum(1) > 1)):
        return "no:nonspace-coupled"
    if g["space"] in ("bogus", "mixed"):
        return "no:world"
    if g["space"] == "plain" and c["strict"]:
        return "no:plain-xyz-strict"
    if m > 4 or (m == 4 and g["tl_axis"] is None and g["tl"] == "none"):
        return "no:too-many-dims"
    if g["space"] == "unknown" and g["spatial"] != "base":
        return "no:unknown-world-affine"
    if g["coupling"] != "none" or g["degenerate"] or not c["fix0"]:
        return "open"
    if g.get("extra_xyz") and not c["strict"]:
        return "open"      # non-strict: the extra axis name is itself a spatial name (two 'x' axes): nothing required
    if g["tl"] in ("cross", "split"):
        return "no:timelike-contradictory"
    if g["space"] == "unknown" and c["p_out"][:3] == [0, 1, 2] and sorted(c["p_in"][:3]) == [0, 1, 2] \
            and c["p_in"][:3] != [0, 1, 2]:
        return "open"      # xyz_affine already "makes sense": no reordering is attempted, the permuted affine is not the base affine
    if g["offset_kind"] == "elsewhere" or g["tl"] in ("two", "in_a_out_b"):
        return "open"
    return "yes"


def table_expected(g, c, by="output"):
    """(xyz position, (time index, time coordinate), ((index, coordinate) of the other axes in the order of
    their output coordinates / of their array axes)) -> value, computed from the ground truth only."""
    n, m = g["n"], g["m"]
    a = g["tl_axis"]
    inv_in = {ci: pos for pos, ci in enumerate(c["p_in"])}          # canonical input axis -> position in img
    extras = [k for k in (c["p_out"] if by == "output" else c["p_in"]) if k >= 3 and (a is None or k != 3 + a)]
    shape = g["shape"]
    data = np.arange(int(np.prod(c["shape"]))).reshape(c["shape"])
    tab = {}
    for cidx in itertools.product(*[range(s) for s in shape]):
        idx = [0] * n
        for ci in range(n):
            idx[inv_in[ci]] = cidx[ci]
        val = int(data[tuple(idx)])
        xyz = tuple(frac(v) for v in (g["S"] @ np.array(cidx[:3], dtype=float) + np.array(g["txyz"])))
        tcoord = None
        if a is not None:
            tcoord = (cidx[3 + a], frac(g["z"][a] * cidx[3 + a] + g["off"][a]))
        ex = tuple((cidx[k], frac(abs(g["z"][k - 3]) * cidx[k])) for k in extras)
        tab[(xyz, tcoord, ex)] = val
    return tab


def table_of_loaded(img, xyz_only=False):
    names_in = list(img.coordmap.function_domain.coord_names)
    names_out = list(img.coordmap.function_range.coord_names)
    A = np.asarray(img.affine, dtype=float)
    n = len(names_in)
    data = np.asarray(img.get_fdata())
    has_t = n > 3 and names_out[3] in TL
    tab = {}
    for idx in itertools.product(*[range(s) for s in data.shape]):
        w = A[:-1, :-1] @ np.array(idx, dtype=float) + A[:-1, -1]
        xyz = tuple(frac(v) for v in w[:3])
        tcoord = (idx[3], frac(w[3])) if has_t else None
        ex = tuple((idx[k], frac(w[k])) for k in range(4 if has_t else 3, n))
        key = (xyz, tcoord, ex) if not xyz_only else (xyz, idx[3:])
        tab[key] = float(data[idx])
    return tab, (names_out[3] if has_t else None)


def oracle_roundtrip(ck, impl, g, c, back, where):
    """property statement on an image that came back from NIfTI"""
    exp = table_expected(g, c)
    got, tname = table_of_loaded(back)
    rep = describe(g, c)
    names_out = list(back.coordmap.function_range.coord_names)
    if g["space"] in SPACES and names_out[:3] != space_names(g["space"]):
        ck.fail("%s/space-changed" % where, "image in space %s came back in %s" % (g["space"], names_out[:3]), rep)
    if tname != g["tl_name"]:
        ck.fail("%s/timelike-kind-changed" % where, "time-like axis %r came back as %r" % (g["tl_name"], tname), rep)
        return
    if got == exp or got == table_expected(g, c, "input"):
        return      # the remaining axes keep the order of their output coordinates or of their array axes
    # classify the difference structurally
    kx = sorted(k[0] for k in exp)
    if sorted(k[0] for k in got) != kx or {k[0]: v for k, v in exp.items()} .keys() != {k[0]: v for k, v in got.items()}.keys():
        sig = "xyz-positions-changed"
    elif sorted((k[0], k[1]) for k in got) != sorted((k[0], k[1]) for k in exp):
        t_exp = sorted(set(k[1] for k in exp))
        t_got = sorted(set(k[1] for k in got))
        if g["tl_name"] != "t" and g["offset_kind"] == "timelike" and \
                [(i, v - frac(g["off"][g["tl_axis"]])) for i, v in t_exp] == t_got:
            sig = "non-time-timelike-offset-dropped"
        elif g["tl_name"] == "t" and c["meta_header"] and c["meta_toffset"] != 0 and g["offset_kind"] == "none" and \
                [(i, v + frac(c["meta_toffset"])) for i, v in t_exp] == t_got:
            sig = "stale-header-toffset"
        else:
            sig = "time-coordinate-changed"
    elif sorted(got) != sorted(exp):
        sig = "extra-axes-order-or-scaling-changed"
    else:
        sig = "data-moved"
    if sig in ("non-time-timelike-offset-dropped", "stale-header-toffset"):
        where = "roundtrip"       # format-independent defects of nipy2nifti: one signature
    ck.fail("%s/%s" % (where, sig),
            "round trip changed the (xyz, time, extra coordinates) -> value table (%s); %d-D image, space %s, time-like %s"
            % (sig, g["n"], g["space"], g["tl_name"]), rep)


# ------------------------------------------------------------------ sections
def run_image_cases(ck, impl, cases, label):
    """cases: list of (g, c).  Runs nipy2nifti / nifti2nipy, the oracles and the model comparison."""
    terms, meta = [], []
    for g, c in cases:
        rep = describe(g, c)
        key = (c["inn"], c["outn"], c["A"], c["trans"], c["shape"], c["strict"], c["fix0"], c["meta_header"], c["meta_toffset"],
               repr(c.get("meta_stale")))
        cls = expressible(g, c)
        ck.count(key, nontrivial=(g["n"] > 3 or c["p_in"] != sorted(c["p_in"]) or c["p_out"] != sorted(c["p_out"])),
                 bucket="%s:%dD:%s" % (label, g["n"], cls.split(":")[0]))
        img = impl.image(c)
        impl.calls = []
        impl.sorts = []
        ni = back = None
        code = None
        try:
            ni = impl.nr.nipy2nifti(img, strict=c["strict"], fix0=c["fix0"])
        except Exception as e:  # noqa
            code = impl.errcode(e)
            if code is None:
                ck.fail("nipy2nifti/unexpected-exception", "nipy2nifti raised %s: %s" % (type(e).__name__, e), rep)
                continue
            exc = e
        ni2 = code2 = None
        if ni is not None:
            try:
                back = impl.nr.nifti2nipy(ni)
            except Exception as e:  # noqa
                ck.fail("nifti2nipy/raises-on-own-output", "nifti2nipy(nipy2nifti(img)) raised %s: %s" % (type(e).__name__, e), rep)
                continue
            # idempotence path: convert what came back once more (strict: it now carries canonical names)
            try:
                ni2 = impl.nr.nipy2nifti(back, strict=True, fix0=c["fix0"])
            except Exception as e:  # noqa
                code2 = impl.errcode(e)
                if code2 is None:
                    ck.fail("idempotence/unexpected-exception", "nipy2nifti(nifti2nipy(ni)) raised %s: %s" % (type(e).__name__, e), rep)
                    continue
                exc2 = e
        calls = impl.uniq_calls()
        # ---- oracles on the implementation
        ch = impl.state_changes()
        if ch:
            ck.fail("hidden-state/%s-changed-by-conversion/strict=%s" % ("+".join(sorted(ch)), c["strict"]),
                    "nipy2nifti/nifti2nipy changed module-level tables: later conversions in the same process depend on this call",
                    dict(rep, changed=ch))
            impl.state0 = impl.hidden_state()     # report each change once, at the call that made it
        if ni is None:
            if code == 10:
                ck.fail("nipy2nifti/timelike-input-zero-scale-unmatched-TypeError",
                        "nipy2nifti raised TypeError (None - 3 in _find_time_like) instead of converting or raising NiftiError", rep)
            elif cls == "yes":
                ck.fail("refuses-expressible/%s" % ERRNAME.get(code, code),
                        "an image NIfTI can express was refused: %s" % exc, rep)
        else:
            if cls.startswith("no:"):
                ck.fail("accepts-inexpressible/%s" % cls[3:],
                        "an image with inexpressible geometry (%s) was converted instead of raising NiftiError" % cls[3:], rep)
            elif cls == "yes":
                oracle_roundtrip(ck, impl, g, c, back, "roundtrip")
                # nipy2nifti(nifti2nipy(h)) = h on what nipy2nifti produced
                if ni2 is None:
                    ck.fail("idempotence/refused-%s" % ERRNAME.get(code2, code2),
                            "the image that came back from NIfTI is refused when converted again: %s" % exc2, rep)
                else:
                    o1, o2 = impl.observe_n(ni), impl.observe_n(ni2)
                    for fld in sorted(o1):
                        if o1[fld] != o2[fld]:
                            ck.fail("idempotence/%s-changed" % fld,
                                    "nipy2nifti(nifti2nipy(h)) differs from h in %s: %s -> %s" % (fld, str(o1[fld])[:200], str(o2[fld])[:200]), rep)
            # contract of the orientation oracle assumed by the theorems (sampled)
            for M, o in calls:
                bad = oracle_contract_violation(np.array(M), o)
                if bad:
                    ck.fail("oracle-contract/io_orientation", "io_orientation contract assumed by roundtrip theorems fails: %s" % bad,
                            {"matrix": M, "orientation": o})
        # ---- model terms
        exp_n = cerr(code) if ni is None else cnobs(impl.observe_n(ni))
        exp_r = cerr(code) if ni is None else ciobs(impl.observe_i(back))
        sorts = impl.uniq_sorts()
        args = "%s %s %s %s %s" % (cbool(c["strict"]), cbool(c["fix0"]), ctab(calls),
                                   clist(["(%s, %s)" % (cnatl(k), cnatl(v)) for k, v in sorts]), cimg(c))
        terms.append("n2n_agrees %s %s" % (args, exp_n))
        meta.append(("nipy2nifti", g, c, args, code, calls))
        terms.append("roundtrip_agrees %s %s" % (args, exp_r))
        meta.append(("roundtrip", g, c, args, code, calls))
        exp_i = cerr(code) if ni is None else (cerr(code2) if ni2 is None else cnobs(impl.observe_n(ni2)))
        terms.append("idem_agrees %s %s" % (args, exp_i))
        meta.append(("idem", g, c, args, code if ni is None else code2, calls))
        if len(ck.cov["samples"]) < 4 and g["n"] >= 5 and ni is not None and g["tl_axis"] is not None:
            o = impl.observe_n(ni)
            ck.sample({"input_names": c["inn"], "output_names": c["outn"], "shape": c["shape"],
                       "nifti_shape": o["shape"], "pixdim[4:]": [float(v) for v in o["pixdim"]],
                       "toffset": float(o["toffset"]), "tunits": o["tunits"], "sform": o["sform"],
                       "back_names": impl.observe_i(back)["inn"]})
    compare_terms(ck, terms, meta, label)
    return len(cases)


def oracle_contract_violation(M, o):
    """For a matrix whose rows/columns >= 3 are decoupled from the first three and carry at most one
    non-zero per row and column: a column's orientation is the row of its non-zero entry (None if zero)."""
    q, p = M.shape
    if q < 3 or p < 3:
        return None
    if np.any(M[3:, :3] != 0) or np.any(M[:3, 3:] != 0):
        return None
    B = M[3:, 3:] != 0
    if np.any(B.sum(0) > 1) or np.any(B.sum(1) > 1):
        return None
    for j in range(3, p):
        nzr = np.nonzero(M[:, j])[0]
        want = int(nzr[0]) if len(nzr) else None
        if o[j] != want:
            return "column %d has its non-zero in row %s but orientation says %s" % (j, want, o[j])
    return None


def compare_terms(ck, terms, meta, label):
    if not (ck.build is not None and ck.build.ok) or not terms:
        return
    res = ck.coq_bools(HDR, terms, shard=120, name=label.replace("/", "_"))
    ck.cov["traces_validated_against_impl"] += len(res)
    for ok, (kind, g, c, args, code, calls) in zip(res, meta):
        if ok:
            continue
        try:
            show = {"nipy2nifti": "show_n2n %s", "roundtrip": "show_rt %s", "load": "show_load_u %s", "idem": "show_idem %s",
                    "ftl": "find_time_like Z %s", "ftype": "type_from_filename %s"}[kind] % args
            mv = ck.coq_show(HDR, show)[:1500]
        except Exception as e:  # noqa
            mv = "(model value unavailable: %s)" % e
        if (g is not None and g.get("extra_xyz") and not c["strict"]
                and kind in ("nipy2nifti", "roundtrip", "idem")):
            # non-strict mode with a non-spatial axis that carries a spatial name ('x'/'y'/'z' twice): the property requires
            # nothing here (expected() = open) and the model is not claimed to follow the implementation's choice between
            # the two candidate axes (it refuses with EReorder where nipy may accept or refuse with another error)
            ck.cov["model_not_compared_duplicate_spatial_name_nonstrict"] = \
                ck.cov.get("model_not_compared_duplicate_spatial_name_nonstrict", 0) + 1
            continue
        rep = describe(g, c) if g is not None else dict(c)
        rep["model"] = mv
        rep["impl_error"] = ERRNAME.get(code, code) if code is not None else None
        rep["io_orientation_answers"] = calls
        rep["coq_args"] = args[:4000]
        feature = ("%dD" % g["n"]) if g is not None else ""
        ck.fail("model-vs-impl/%s/%s" % (kind, feature if kind in ("nipy2nifti", "roundtrip", "idem") else label),
                "Coq model and implementation disagree on %s (%s)" % (kind, label), rep)


def gen_random_cases(ck, rng, N, dims):
    cases = []
    for _ in range(N):
        n = int(rng.choice(dims))
        g = canonical(rng, n)
        p_in = [int(v) for v in rng.permutation(n)] if rng.random() < 0.8 else list(range(n))
        p_out = [int(v) for v in rng.permutation(n)] if rng.random() < 0.7 else list(range(n))
        strict = rng.random() < 0.6
        fix0 = rng.random() < 0.8
        meta = float(rng.choice([4.0, -1.5])) if rng.random() < 0.1 else None
        stale = stale_header(rng) if rng.random() < 0.2 else None
        cases.append((g, permuted(g, p_in, p_out, strict, fix0, meta, stale)))
    return cases


def gen_exhaustive_perm_cases(ck, rng, dims, per_dim_bases, limit=None):
    """all permutations of the input axes x all permutations of the output coordinates"""
    cases = []
    for n in dims:
        for b in range(per_dim_bases):
            while True:     # a base image the property requires to round trip (zero TR allowed)
                g = canonical(rng, n, space=str(rng.choice(SPACES[:4])),
                              tlc=str(rng.choice(["both_same", "in_only", "out_only", "none"])) if n > 3 else "none",
                              force={"p_zero": 0.3})
                if expressible(g, permuted(g, list(range(n)), list(range(n)), True, True)) == "yes":
                    break
            perms = list(itertools.permutations(range(n)))
            pairs = [(pi, po) for pi in perms for po in perms]
            if limit is not None and len(pairs) > limit:
                sel = rng.choice(len(pairs), size=limit, replace=False)
                pairs = [pairs[int(i)] for i in sorted(sel)]
            for pi, po in pairs:
                cases.append((g, permuted(g, list(pi), list(po), True, True)))
    return cases


def section_find_time_like(ck, impl):
    """decision table of _find_time_like over all (input, output) name combinations"""
    rng = ck.rng("ftl")
    pool = ALL_TL + [None]
    mats = {"diag": [[1.0, 0], [0, 2.0]], "swap": [[0, 1.0], [2.0, 0]], "zero0": [[0.0, 0], [0, 2.0]],
            "zero1swap": [[0, 0.0], [2.0, 0]], "zero-both": [[0.0, 0], [0, 0.0]]}
    combos = list(itertools.product(pool, repeat=4))
    combos = [cb for cb in combos if not (cb[0] is not None and cb[0] == cb[1]) and not (cb[2] is not None and cb[2] == cb[3])]
    if not ck.thorough():
        keep = rng.choice(len(combos), size=500, replace=False)
        combos = [combos[int(i)] for i in sorted(keep)]
    terms, meta = [], []
    mni = space_names("mni")
    for cb in combos:
        for mname, B in ([list(mats.items())[i] for i in (0, 1, 2, 4)] if ck.thorough() else [list(mats.items())[int(rng.integers(0, 5))]]):
            for fix0 in ((True, False) if mname.startswith("zero") else (True,)):
                inn = ["i", "j", "k", cb[0] or "l", cb[1] or "m"]
                outn = mni + [cb[2] or "u", cb[3] or "v"]
                A = np.zeros((5, 5))
                A[:3, :3] = np.diag([2.0, 3.0, 4.0])
                A[3:, 3:] = np.array(B)
                c = {"inn": inn, "outn": outn, "A": A.tolist(), "trans": [0.0] * 5, "shape": [1, 1, 1, 2, 3],
                     "strict": True, "fix0": fix0, "meta_header": False, "meta_toffset": 0.0}
                img = impl.image(c)
                impl.calls = []
                code = None
                try:
                    r = impl.nr._find_time_like(img.coordmap, fix0)
                except Exception as e:  # noqa
                    code = impl.errcode(e)
                    if code is None:
                        ck.fail("find_time_like/unexpected-exception", "%s: %s" % (type(e).__name__, e), c)
                        continue
                calls = impl.uniq_calls()
                ck.count(("ftl", cb, mname, fix0), nontrivial=any(v is not None for v in cb), bucket="ftl:%s" % mname)
                # soundness oracle on the implementation: the returned pair is consistent with the names
                if code is None and r[0] is not None:
                    in_ax, out_ax, name = r
                    cin = TLMAP.get(inn[in_ax])
                    cout = TLMAP.get(outn[out_ax]) if out_ax is not None else None
                    if not (3 <= in_ax < 5 and name in TL and (cin == name or cout == name)
                            and cin in (None, name) and cout in (None, name)
                            and (out_ax is None or A[out_ax, in_ax] != 0 or (fix0 and not A[out_ax].any() and not A[:, in_ax].any()))):
                        ck.fail("find_time_like/unsound-pair", "_find_time_like returned %r inconsistent with names / affine" % (r,), c)
                if code is None:
                    exp = "(inl None)" if r[0] is None else "(inl (Some (%s, %s, %s)))" % (cnat(r[0]), copt(r[1]), cstr(r[2]))
                else:
                    exp = cerr(code)
                args = "%s %s %s" % (cbool(fix0), ctab(calls), cimg(c))
                terms.append("ftl_agrees %s %s" % (args, exp))
                meta.append(("ftl", None, dict(c, impl=repr(r) if code is None else ERRNAME.get(code)), args, code, calls))
    compare_terms(ck, terms, meta, "find_time_like")
    ck.section("find_time_like", name_combinations=len(combos), cases=len(terms))


TLMAP = {a: k for k, v in TL.items() for a in v}


def section_nifti2nipy(ck, impl):
    """hand-built NIfTI images -> nifti2nipy vs the model"""
    rng = ck.rng("load")
    nib = impl.nib
    N = ck.n(250, 2500)
    terms, meta = [], []
    chain = {"compared": 0, "refused": 0, "outside": 0}
    for _ in range(N):
        ndim = int(rng.choice([3, 4, 5, 6, 7], p=[.15, .3, .3, .15, .1]))
        shape = [int(rng.choice([1, 2, 3])) for _ in range(ndim)]
        if ndim > 3 and rng.random() < 0.5:
            shape[3] = 1
        while int(np.prod(shape)) > 48:
            shape[int(np.argmax(shape))] -= 1
        S = signed_perm(rng) @ np.diag(rng.choice(ZOOMS, size=3))
        aff = np.eye(4)
        aff[:3, :3] = S
        aff[:3, 3] = rng.choice([0, -3.5, 10.25, 7], size=3)
        hdr = nib.Nifti1Header()
        data = np.arange(int(np.prod(shape))).reshape(shape).astype(np.float64)
        hdr.set_data_shape(shape)
        hdr.set_data_dtype(np.float64)
        sf, qf = [str(v) for v in rng.choice(["unknown", "scanner", "aligned", "talairach", "mni"], size=2)]
        hdr.set_sform(aff, sf)
        hdr.set_qform(aff, qf)
        tu = str(rng.choice(["unknown", "sec", "msec", "usec", "hz", "ppm", "rads"]))
        xu = str(rng.choice(["mm", "unknown", "micron", "meter"], p=[.5, .14, .18, .18]))
        hdr.set_xyzt_units(xyz=xu, t=tu)
        di = [None, None, None]
        if rng.random() < 0.5:
            p = [int(v) for v in rng.permutation(3)]
            for k in range(3):
                if rng.random() < 0.7:
                    di[k] = p[k]
        hdr.set_dim_info(*di)
        zooms = [float(rng.choice(ZOOMS + [0.0])) for _ in range(ndim - 3)]
        hdr["pixdim"][4:4 + ndim - 3] = zooms
        hdr["toffset"] = float(rng.choice([0.0, 0.0, 7.0, -2.5]))
        ni = nib.Nifti1Image(data, aff, hdr)
        ck.count(("load", shape, sf, qf, tu, xu, di, zooms, aff.tolist()), nontrivial=True, bucket="load:%dD:xyz-%s" % (ndim, xu))
        code = None
        try:
            img = impl.nr.nifti2nipy(ni)
        except Exception as e:  # noqa
            code = impl.errcode(e)
            if code is None:
                ck.fail("nifti2nipy/unexpected-exception", "%s: %s" % (type(e).__name__, e), {"shape": shape})
                continue
        o = impl.observe_n(ni)
        rep = {"nifti": {k: (str(v) if k != "data" else "arange") for k, v in o.items()}, "xyz_units": xu}
        if code is None:
            io = impl.observe_i(img)
            chain_oracle(ck, impl, img, io, zooms, xu, tu, rep, chain)
            # msec/usec scaling is one float multiplication by an inexact constant: canonicalise to the exact product
            scale = {"msec": Fraction(1, 1000), "usec": Fraction(1, 1000000)}.get(o["tunits"])
            squeezed = (shape[3] == 1 and ndim > 4 and o["tunits"] == "unknown") if ndim > 3 else False
            if scale is not None and ndim > 3 and not squeezed:
                exact = o["pixdim"][0] * scale
                gotv = io["lin"][3][3]
                # (performed in float32: get_zooms() returns float32 scalars) - stated tolerance 3e-7 relative
                if abs(gotv - exact) <= abs(exact) * Fraction(3, 10 ** 7):
                    io["lin"][3][3] = exact
            # property oracle on the implementation: data untouched, xyz affine as given, zooms on the diagonal
            # (documented: micron / meter space units are converted to mm, one float operation per entry)
            tomm = {"micron": lambda v: frac(float(v) / 1000.), "meter": lambda v: frac(float(v) * 1000.)}.get(xu, lambda v: v)
            if io["data"] != o["data"] or [r[:3] for r in io["lin"][:3]] != [[tomm(v) for v in r[:3]] for r in o["aff"]] \
                    or io["trn"][:3] != [tomm(r[3]) for r in o["aff"]]:
                ck.fail("nifti2nipy/data-or-xyz-changed", "nifti2nipy changed data order or the xyz affine", rep)
            # micron: one float division by 1000. per entry; canonicalised to the exact quotient the model computes
            # when within 2^-50 relative (meter: the product is exact for the generator's dyadic entries)
            if xu == "micron":
                for i in range(3):
                    for j in range(3):
                        ex = o["aff"][i][j] / 1000
                        if abs(io["lin"][i][j] - ex) <= abs(ex) * Fraction(1, 2 ** 50):
                            io["lin"][i][j] = ex
                    ex = o["aff"][i][3] / 1000
                    if abs(io["trn"][i] - ex) <= abs(ex) * Fraction(1, 2 ** 50):
                        io["trn"][i] = ex
            exp = ciobs(io)
        else:
            exp = cerr(code)
        args = "(mk_nimg %s %s %s %s %s %s %s %s)" % (cqmat(o["aff"]), cstr(o["sform"]), cstr(o["qform"]), coptl(o["dim_info"]),
                                                     cstr(o["tunits"]), cql(o["pixdim"]), cq(o["toffset"]), cnatl(o["shape"]))
        args = "%s %s" % (cstr(xu), args)
        terms.append("load_agrees_u %s %s" % (args, exp))
        meta.append(("load", None, rep, args, code, []))
    compare_terms(ck, terms, meta, "nifti2nipy")
    ck.section("nifti2nipy", cases=len(terms), load_save_load_chains=chain)


def chain_oracle(ck, impl, img, io, zooms, xu, tu, rep, stats):
    """multi-step sequence on one object: an image that came out of a NIfTI (it carries that file's header, with
    whatever units / codes it had, in its metadata) is converted again and loaded again: the second load must
    give the same names, shape, data and - to float32 header storage - the same affine as the first."""
    if any(z == 0 for z in zooms[1:]):      # zero-zoom non-time axis: outside the quantifier (positive scaling)
        stats["outside"] += 1
        return
    try:
        back = impl.nr.nifti2nipy(impl.nr.nipy2nifti(img, strict=True))
    except impl.nr.NiftiError:
        stats["refused"] += 1
        return
    except Exception as e:  # noqa
        ck.fail("chain/load-save-load/unexpected-exception", "%s: %s" % (type(e).__name__, e), rep)
        return
    stats["compared"] += 1
    ib = impl.observe_i(back)
    for fld in ("inn", "outn", "shp", "data"):
        if ib[fld] != io[fld]:
            ck.fail("chain/load-save-load/%s-changed/xyz-units=%s" % (fld, xu),
                    "nifti2nipy(nipy2nifti(loaded image)) differs from the loaded image in %s: %s -> %s"
                    % (fld, str(io[fld])[:200], str(ib[fld])[:200]), rep)
            return
    a0 = np.array([[float(v) for v in r] + [float(t)] for r, t in zip(io["lin"], io["trn"])])
    a1 = np.array([[float(v) for v in r] + [float(t)] for r, t in zip(ib["lin"], ib["trn"])])
    if not np.allclose(a0, a1, rtol=1e-6, atol=1e-9):
        part = "xyz-affine" if not np.allclose(a0[:3], a1[:3], rtol=1e-6, atol=1e-9) else "non-spatial-affine"
        ck.fail("chain/load-save-load/%s-changed/xyz-units=%s" % (part, xu),
                "the image loaded from a NIfTI with space units %r / time units %r moves when it is converted and loaded "
                "again:\n%s\n->\n%s" % (xu, tu, a0, a1), rep)


def section_filenames(ck, impl):
    stems = ["test", "a.b", "dir.x/img", ".hidden", "..", "x.", "img.nii.x", "d/.nii", "a/b.c/d", ""]
    exts = ["", ".nii", ".hdr", ".img", ".mnc", ".foo", ".NII", ".nii.", ".gz", ".bz2"]
    comps = ["", ".gz", ".bz2", ".gz.gz", ".bz2.gz"]
    terms, meta = [], []
    docs = {".nii": "nifti1single", ".nii.gz": "nifti1single", ".hdr": "nifti1pair", ".hdr.gz": "nifti1pair",
            ".img": "analyze", ".img.gz": "analyze"}
    for s in stems:
        for e in exts:
            for cp in comps:
                f = s + e + cp
                try:
                    r = impl.files._type_from_filename(f)
                except ValueError:
                    r = None
                ck.count(("ftype", f), nontrivial=True, bucket="filenames")
                if s == "test" and (e + cp) in docs and r != docs[e + cp]:
                    ck.fail("type_from_filename/documented-extension", "%r -> %r, documented %r" % (f, r, docs[e + cp]), {"filename": f})
                args = cstr(f)
                terms.append("ftype_agrees %s %s" % (args, "None" if r is None else "(Some %s)" % cstr(r)))
                meta.append(("ftype", None, {"filename": f, "impl": r}, args, None, []))
    compare_terms(ck, terms, meta, "filenames")
    ck.section("filenames", cases=len(terms))


def section_files(ck, impl):
    """load_image(save_image(img, path)) for every documented format and dtype"""
    rng = ck.rng("files")
    N = ck.n(14, 60)
    exts = [".nii", ".nii.gz", ".hdr", ".img"]
    dtypes = [np.uint8, np.int16, np.int32, np.float32, np.float64]
    d = ck.scratch / "files"
    d.mkdir(exist_ok=True)
    k = 0
    done = 0
    tries = 0
    while done < N and tries < 40 * N:
        tries += 1
        n = int(rng.choice([3, 4, 5, 6]))
        g = canonical(rng, n, space=str(rng.choice(SPACES)), tlc=str(rng.choice(["none", "both_same", "in_only", "out_only"])))
        c = permuted(g, [int(v) for v in rng.permutation(n)], [int(v) for v in rng.permutation(n)], True, True,
                     stale=stale_header(rng) if rng.random() < 0.5 else None)
        if expressible(g, c) != "yes":
            continue
        if g.get("extra_xyz"):
            continue      # save_image converts in NON-strict mode, where a second axis named 'x'/'y'/'z' is outside what the property requires
        done += 1
        for ext in exts:
            for dt in ([dtypes[(done + exts.index(ext)) % 5]] if not ck.thorough() else dtypes):
                k += 1
                path = str(d / ("f%d%s" % (k, ext)))
                img = impl.image(c, dtype=dt)
                rep = dict(describe(g, c), format=ext, dtype=np.dtype(dt).name)
                ck.count(("file", ext, np.dtype(dt).name, c["inn"], c["outn"], c["A"]), nontrivial=True, bucket="file:%s" % ext)
                try:
                    impl.files.save(img, path)
                    back = impl.files.load(path)
                except Exception as e:  # noqa
                    ck.fail("file/%s/raises" % ext, "save/load raised %s: %s" % (type(e).__name__, e), rep)
                    continue
                if ext == ".img":
                    # Analyze: at least data and xyz positions
                    exps = [{(kx, ke_idx(kt, ke)): v for (kx, kt, ke), v in table_expected(g, c, by).items()}
                            for by in ("output", "input")]
                    got, _ = table_of_loaded(back, xyz_only=False)
                    got = {(kx, ke_idx(kt, ke)): v for (kx, kt, ke), v in got.items()}
                    if per_xyz(got) not in [per_xyz(e) for e in exps]:
                        ck.fail("file/.img/data-or-xyz-changed", "Analyze round trip changed data or xyz positions", rep)
                else:
                    oracle_roundtrip(ck, impl, g, c, back, "file/%s" % ext)
                    # and equal to the in-memory round trip
                    mem = impl.nr.nifti2nipy(impl.nr.nipy2nifti(img, strict=True))
                    if impl.observe_i(mem) != impl.observe_i(back):
                        ck.fail("file/%s/differs-from-in-memory" % ext, "file round trip differs from nifti2nipy(nipy2nifti(img))", rep)
                for p in d.iterdir():
                    p.unlink()
    ck.section("files", images=done, file_round_trips=k, formats=exts, dtypes=[np.dtype(t).name for t in dtypes])


def per_xyz(tab):
    """xyz position -> values in array order over the remaining axes (unit axes do not matter)"""
    d = {}
    for (kx, kidx), v in sorted(tab.items(), key=lambda kv: kv[0][1]):
        d.setdefault(kx, []).append(v)
    return d


def ke_idx(kt, ke):
    """positional index part of the non-spatial key (Analyze keeps no non-spatial geometry); time first"""
    return tuple(([kt[0]] if kt is not None else []) + [i for i, _ in ke])


def section_boundaries(ck, impl):
    """targeted boundary images for the refusal classes and the known defects"""
    rng = ck.rng("boundary")
    cases = []
    mk = lambda **kw: kw
    # 7 dims with / without time-like, 8 dims
    for n, tlc in [(7, "both_same"), (7, "none"), (7, "out_only"), (8, "both_same"), (6, "none")]:
        g = canonical(rng, n, space="mni", tlc=tlc, force={"p_zero": 0.0, "spatial": "diag"})
        g["shape"] = [1, 2, 1] + [1] * (n - 3)
        g["shape"][3 + (g["tl_axis"] or 0)] = 2
        if g["coupling"] != "none" or g["degenerate"]:
            continue
        cases.append((g, permuted(g, list(range(n))[::-1], list(range(n)), True, True)))
    # image carrying a header with a toffset, time axis without offset (stale toffset defect)
    g = canonical(rng, 4, space="mni", tlc="both_same", force={"p_zero": 0.0, "spatial": "diag"})
    while g["tl_name"] != "t" or g["coupling"] != "none" or g["degenerate"] or g["offset_kind"] != "none":
        g = canonical(rng, 4, space="mni", tlc="both_same", force={"p_zero": 0.0, "spatial": "diag"})
    cases.append((g, permuted(g, [0, 1, 2, 3], [0, 1, 2, 3], True, True, meta=4.0)))
    # plain x,y,z strict / non-strict
    for strict in (True, False):
        g = canonical(rng, 4, space="plain", tlc="both_same", force={"p_zero": 0.0})
        if g["coupling"] == "none":
            cases.append((g, permuted(g, [3, 0, 2, 1], [1, 3, 0, 2], strict, True)))
    return cases


def run(ck):
    ck.cov["rule"] = ("images of 3..6 (thorough 7) dims in canonical form (xyz block = signed permutation x dyadic zooms x shear, "
                      "non-spatial zooms incl. zero/negative, offsets, couplings, every space incl. plain/bogus/mixed, 8 time-like "
                      "configurations) then permuted on input axes and output coordinates (random; thorough: all pairs of "
                      "permutations for <= 5 dims), strict/fix0/stale header toffset; distinct by (names, affine, shape, flags); "
                      "non-trivial when > 3-D or permuted.  Plus the _find_time_like name table, hand-built NIfTI headers, file "
                      "names, and file round trips (4 formats x 5 dtypes).")
    ck.coq_build()
    ck.overlay()
    import warnings
    warnings.simplefilter("ignore")
    impl = Impl(ck)
    ck.trust.append("nibabel.io_orientation is an oracle: the model receives its recorded answers; the round-trip theorems assume "
                    "(Hypothesis) that for a matrix whose non-spatial block is decoupled with at most one non-zero per row/column the "
                    "orientation of a non-spatial column is the row of its non-zero entry; this contract is sampled on every call")
    ck.trust.append("nibabel header get/set (float32 pixdim/sform/toffset storage; generator uses float32-exact values), "
                    "np.transpose/np.rollaxis/reshape index semantics (modelled as index maps), file formats and gzip")
    ck.assume.append("np.allclose tolerances (1e-8/1e-5) and TINY are modelled as exact zero tests: inputs with entries in (0, 1e-5] are outside the model")
    import time
    t0 = time.time()
    timing = {}

    def lap(name):
        nonlocal t0
        timing[name] = round(time.time() - t0, 1)
        t0 = time.time()
    rng = ck.rng("images")
    dims = [3, 4, 5, 6] if not ck.thorough() else [3, 4, 5, 6, 7]
    cases = section_boundaries(ck, impl)
    cases += gen_random_cases(ck, rng, ck.n(700, 5000), dims)
    n1 = run_image_cases(ck, impl, cases, "random")
    lap("random")
    if ck.thorough():
        ex = gen_exhaustive_perm_cases(ck, ck.rng("perms"), [3, 4, 5], 1)
    else:
        ex = gen_exhaustive_perm_cases(ck, ck.rng("perms"), [3], 1) + gen_exhaustive_perm_cases(ck, ck.rng("perms4"), [4], 1, limit=200) \
            + gen_exhaustive_perm_cases(ck, ck.rng("perms5"), [5], 1, limit=200)
    n2 = run_image_cases(ck, impl, ex, "allperms")
    lap("allperms")
    ck.section("images", random_cases=n1, permutation_cases=n2, dims=dims)
    section_find_time_like(ck, impl)
    lap("find_time_like")
    section_nifti2nipy(ck, impl)
    lap("nifti2nipy")
    section_filenames(ck, impl)
    lap("filenames")
    section_files(ck, impl)
    lap("files")
    ck.section("timing_s", **timing)
    print("C03 timing:", timing)
