"""C20 - routines never corrupt caller data or touch memory outside their arrays.

Sections
  bounds-theorems  the `*_in_bounds` / index-safety theorems proved in the kernels' own
                   developments, re-exported as C20 obligations in coq/C20/Properties.v
  purity           every routine of the catalogue (harness/props/c20_catalogue.py) is called,
                   in a worker subprocess, on generated inputs in several memory layouts and
                   boundary forms; every argument object is snapshotted (dtype, shape, strides,
                   bytes, flags; dicts/lists deep; images data+affine+names) before and after.
                   A difference is a violation (signature mutates-input/<routine>).
                   A worker that dies (signal) is a violation (crash/<routine>).
  sanitizers       (thorough) the C sources are rebuilt with -fsanitize=address,undefined and the
                   kernel entries are driven again under LD_PRELOAD=libasan; a report is a violation.
"""
import json
import os
import subprocess
import sys
from pathlib import Path

import re
import numpy as np

VERIF = Path(__file__).resolve().parent.parent.parent


# --------------------------------------------------------------------------- snapshots
def snap(o, depth=0):
    import hashlib
    if depth > 6:
        return ("deep",)
    if isinstance(o, np.ndarray):
        try:
            b = hashlib.md5(np.ascontiguousarray(o).view(np.uint8).tobytes() if o.dtype != object else repr(o.tolist()).encode()).hexdigest()
        except Exception:
            b = hashlib.md5(repr(o.tolist()).encode()).hexdigest()
        try:
            ms = hashlib.md5(np.sort(np.asarray(o).reshape(-1)).view(np.uint8).tobytes()).hexdigest() if o.dtype != object else ""
            # per axis: the values sorted along that axis (equal before/after = reordered within the lanes of that axis only)
            lanes = tuple(hashlib.md5(np.ascontiguousarray(np.sort(np.asarray(o), axis=k)).view(np.uint8).tobytes()).hexdigest()
                          for k in range(o.ndim)) if (o.dtype != object and 0 < o.ndim <= 4 and o.size <= 100000) else ()
        except Exception:
            ms, lanes = "", ()
        return ("nd", str(o.dtype), o.shape, o.strides, bool(o.flags.writeable), b, ms, lanes)
    if isinstance(o, dict):
        return ("dict", tuple((repr(k), snap(v, depth + 1)) for k, v in o.items()))
    if isinstance(o, (list, tuple)):
        return (type(o).__name__, tuple(snap(v, depth + 1) for v in o))
    if isinstance(o, (int, float, str, bool, type(None), np.generic)):
        return ("s", repr(o))
    if hasattr(o, "coordmap") and hasattr(o, "get_fdata"):       # nipy Image
        return ("img", snap(np.asarray(o._data) if hasattr(o, "_data") else o.get_fdata(), depth + 1), snap(o.coordmap, depth + 1))
    if hasattr(o, "affine") and hasattr(o, "function_domain"):   # AffineTransform
        return ("aff", snap(np.asarray(o.affine), depth + 1), tuple(o.function_domain.coord_names), o.function_domain.name,
                tuple(o.function_range.coord_names), o.function_range.name)
    if hasattr(o, "__self__"):                                   # bound method: snapshot the object it is bound to
        return ("bound", snap(o.__self__, depth + 1))
    return ("obj", type(o).__name__)


def describe_diff(a, b, path="arg"):
    if a == b:
        return None
    if a[0] == "nd" and b[0] == "nd":
        names = ["kind", "dtype", "shape", "strides", "writeable", "bytes"]
        what = ",".join(n for n, x, y in zip(names, a, b) if x != y)
        if what == "bytes" and len(a) > 6 and a[6] and a[6] == b[6]:
            within = len(a) > 7 and any(x == y for x, y in zip(a[7], b[7]))
            what = ("bytes (same values in every lane of one axis: reordered within lanes in place)" if within
                    else "bytes (same multiset of values overall but not per lane: values moved ACROSS lanes)")
        return "%s: %s changed" % (path, what)
    if a[0] in ("list", "tuple") and b[0] == a[0] and len(a[1]) == len(b[1]):
        for i, (x, y) in enumerate(zip(a[1], b[1])):
            d = describe_diff(x, y, "%s[%d]" % (path, i))
            if d:
                return d
    if a[0] == "dict" and b[0] == "dict":
        return "%s: dict changed from %s to %s" % (path, [k for k, _ in a[1]], [k for k, _ in b[1]])
    if a[0] == "img" and b[0] == "img":
        return describe_diff(a[1], b[1], path + ".data") or describe_diff(a[2], b[2], path + ".coordmap")
    return "%s changed" % path


# --------------------------------------------------------------------------- worker
CALL_TIMEOUT = 30      # seconds a single catalogue call may take before it is reported as a hang


def worker(names, seed, nrep, out, skipkeys=()):
    """Runs in a subprocess: prints one JSON line per call.  `skipkeys` ("name|variant|rep") are calls already
    made (or found to crash / hang) by an earlier worker on the same output file."""
    sys.path.insert(0, str(VERIF))
    import threading
    import time as _time
    skip = set(skipkeys)
    watch = {"deadline": None}

    def watchdog():
        while True:
            _time.sleep(1.0)
            d = watch["deadline"]
            if d is not None and _time.time() > d:
                os._exit(98)          # a compiled kernel that never returns cannot be interrupted from Python
    threading.Thread(target=watchdog, daemon=True).start()
    import warnings
    warnings.simplefilter("ignore")
    np.seterr(all="ignore")
    from harness import overlay
    if os.environ.get("VERIF_SANITIZE_OVERLAY"):
        ov = {"dir": Path(os.environ["VERIF_SANITIZE_OVERLAY"]), "modules": list(overlay.MODULES)}
    else:
        ov = overlay.build()
    overlay.install(ov)
    from harness.props.c20_catalogue import CATALOGUE, VARIANTS, Skip
    fo = open(out, "a")

    def emit(d):
        fo.write(json.dumps(d) + "\n")
        fo.flush()
    from harness.props import c20_catalogue as cat

    def one(build, name, variant, rep, fill):
        """Build the arguments with padding value `fill` and call; returns (status, exc, mutated, result snapshot, padding intact)."""
        rng = np.random.Generator(np.random.PCG64([seed, rep, abs(hash(name)) % (2 ** 31)]))
        cat.FILL[0] = fill
        del cat.PARENTS[:]
        f, args, kwargs = build(rng, variant)
        parents = list(cat.PARENTS)
        before = snap((f, args, kwargs))
        np.random.seed(0)
        try:
            res = f(*args, **kwargs)
            st, exc = "ok", None
        except Exception as e:
            res, st, exc = None, "exception", "%s: %s" % (type(e).__name__, str(e)[:100])
        after = snap((f, args, kwargs))
        wrote = None
        for k, (big, m, fv) in enumerate(parents):
            pad = big[~m]
            bad = ~(pad == fv) if not (isinstance(fv, float) and fv != fv) else ~np.isnan(pad)
            if bad.any():
                wrote = "parent buffer #%d: %d padding cell(s) outside the view were overwritten" % (k, int(bad.sum()))
                break
        try:
            rs = snap(res) if st == "ok" else ("exc", exc)
        except Exception:
            rs = ("unsnappable",)
        return st, exc, describe_diff(before, after), rs, wrote

    for name in names:
        build = CATALOGUE[name]
        for variant in VARIANTS:
            for rep in range(nrep):
                if "%s|%s|%d" % (name, variant, rep) in skip:
                    continue
                emit({"name": name, "variant": variant, "rep": rep, "status": "start"})
                watch["deadline"] = _time.time() + CALL_TIMEOUT * (4 if os.environ.get("VERIF_SANITIZE_OVERLAY") else 1)
                try:
                    st, exc, mutated, rs, wrote = one(build, name, variant, rep, 0)
                except Skip:
                    emit({"name": name, "variant": variant, "rep": rep, "status": "skip"})
                    continue
                except Exception as e:  # builder problem (boundary form not constructible)
                    emit({"name": name, "variant": variant, "rep": rep, "status": "builder-exception", "exc": "%s: %s" % (type(e).__name__, str(e)[:100])})
                    continue
                rec = {"name": name, "variant": variant, "rep": rep, "status": st, "exc": exc, "mutated": mutated, "wrote_outside_view": wrote}
                if variant in cat.PADDED and st == "ok":
                    # same call with another padding value; a third call with the first value rules out non-determinism
                    try:
                        st2, exc2, mut2, rs2, wrote2 = one(build, name, variant, rep, -12345)
                        st3, exc3, mut3, rs3, wrote3 = one(build, name, variant, rep, 0)
                        rec["padding_checked"] = True
                        if rs3 == rs and rs2 != rs:
                            rec["padding_dependent"] = "result %s with padding 0 and %s with padding -12345" % (str(rs)[:150], str(rs2)[:150])
                        rec["wrote_outside_view"] = wrote or wrote2
                        rec["mutated"] = mutated or mut2
                    except Exception as e:
                        rec["padding_checked"] = "failed: %s" % str(e)[:80]
                emit(rec)
                watch["deadline"] = None
    fo.close()


def run_workers(ck, names, nrep, env_extra=None, tag="w", skip0=()):
    """Split names over worker processes; returns list of records and list of crashes / hangs.  A worker that
    dies or hangs inside a call is restarted on the remaining calls, so one bad routine does not hide the others."""
    nw = min(8, max(1, len(names)))
    chunks = [names[i::nw] for i in range(nw)]
    env = dict(os.environ)
    env["PYTHONHASHSEED"] = "0"
    if env_extra:
        env.update(env_extra)

    def spawn(ch, out, skipkeys):
        code = ("import sys; sys.path.insert(0, %r); from harness.props import c20; "
                "c20.worker(%r, %d, %d, %r, %r)" % (str(VERIF), ch, ck.seed, nrep, str(out), sorted(skipkeys)))
        # stderr goes to a file: the polling wait() below does not drain pipes, and fff prints to stderr
        errf = open(str(out) + ".stderr", "ab")
        return subprocess.Popen(["/venv/bin/python", "-c", code], env=env, stdout=subprocess.DEVNULL, stderr=errf)

    def read(out):
        recs = []
        if out.exists():
            for line in out.read_text().splitlines():
                try:
                    recs.append(json.loads(line))
                except Exception:
                    pass
        return recs

    state = []
    for i, ch in enumerate(chunks):
        if ch:
            out = ck.scratch / ("%s_%d.jsonl" % (tag, i))
            state.append({"ch": ch, "out": out, "p": spawn(ch, out, set(skip0)), "skip": set(skip0), "respawns": 0})
    records, crashes = [], []
    factor = 4 if (env_extra and "VERIF_SANITIZE_OVERLAY" in env_extra) else 1

    def wait(p, out):
        """Wait for a worker; a compiled call that never returns holds the GIL, so the deadline is enforced here:
        if the last record is a 'start' that is older than the call timeout, the worker is killed (exit 98)."""
        import time as _t
        t0 = _t.time()
        tick = os.sysconf("SC_CLK_TCK")

        def cpu():
            try:
                f = open("/proc/%d/stat" % p.pid).read().rsplit(")", 1)[1].split()
                return (int(f[11]) + int(f[12])) / tick
            except Exception:
                return None
        mark = (None, None)          # (mtime of the record file, worker CPU seconds when that mtime was first seen)
        while p.poll() is None:
            _t.sleep(0.5)
            hung = False
            try:
                if out.exists():
                    mt = out.stat().st_mtime
                    if mark[0] != mt:
                        mark = (mt, cpu())
                    wall = _t.time() - mt
                    if wall > CALL_TIMEOUT * factor:
                        # the deadline is counted in CPU time of the worker (a spinning kernel burns CPU; a worker that is
                        # merely descheduled on a loaded machine does not), with a wall-clock cap for calls that block
                        c = cpu()
                        spent = (c - mark[1]) if (c is not None and mark[1] is not None) else wall
                        if spent > 0.9 * CALL_TIMEOUT * factor or wall > 8 * CALL_TIMEOUT * factor:
                            lines = out.read_text().splitlines()
                            hung = bool(lines) and json.loads(lines[-1]).get("status") == "start"
            except Exception:
                hung = False
            if hung or _t.time() - t0 > 2400:
                p.kill()
                p.wait()
                return (98 if hung else -9), errtail(out) + ("\nHANG" if hung else "\nTIMEOUT")
        return p.returncode, errtail(out)

    def errtail(out):
        try:
            return open(str(out) + ".stderr", "rb").read()[-20000:].decode("utf-8", "replace")
        except Exception:
            return ""

    for st in state:
        while True:
            p = st["p"]
            rc, se = wait(p, st["out"])
            recs = read(st["out"])
            if rc == 0:
                break
            done = {(r["name"], r["variant"], r["rep"]) for r in recs if r["status"] in ("ok", "exception", "skip", "builder-exception")}
            pending = [r for r in recs if r["status"] == "start" and (r["name"], r["variant"], r["rep"]) not in done
                       and "%s|%s|%d" % (r["name"], r["variant"], r["rep"]) not in st["skip"]]
            crashes.append({"returncode": rc, "hang": rc == 98, "during": pending[-1] if pending else None,
                            "stderr": (se or "")[-3000:], "names": st["ch"]})
            if not pending or st["respawns"] >= 12:
                break
            st["skip"] = {"%s|%s|%d" % k for k in done} | st["skip"] | {"%s|%s|%d" % (pending[-1]["name"], pending[-1]["variant"], pending[-1]["rep"])}
            st["respawns"] += 1
            # marker: the record file's last line must not be the stale 'start' of the call that was just abandoned
            # (the fresh worker would be taken for hung before it has written anything)
            with open(st["out"], "a") as fm:
                fm.write(json.dumps({"name": None, "variant": None, "rep": -1, "status": "respawn"}) + "\n")
            st["p"] = spawn(st["ch"], st["out"], st["skip"])
        records += read(st["out"])
    return records, crashes


def purity(ck):
    from .c20_catalogue import CATALOGUE
    names = sorted(CATALOGUE)
    nrep = ck.n(2, 8)
    records, crashes = run_workers(ck, names, nrep)
    okcount = {}
    for r in records:
        if r["status"] in ("ok", "exception"):
            ck.count((r["name"], r["variant"], r["rep"]), nontrivial=r["status"] == "ok",
                     bucket="%s:%s" % (r["variant"], r["status"]))
            ck.cov["traces_validated_against_impl"] += 1
            if r["status"] == "ok":
                okcount[r["name"]] = okcount.get(r["name"], 0) + 1
            if r.get("padding_checked") is True:
                ck.cov.setdefault("padding_differential_calls", 0)
                ck.cov["padding_differential_calls"] += 1
            if r.get("padding_dependent"):
                ck.fail("reads-outside-view/%s" % r["name"],
                        "%s (%s layout): the result depends on the cells of the parent buffer that lie OUTSIDE the view it was given: %s" % (r["name"], r["variant"], r["padding_dependent"]),
                        {"routine": r["name"], "variant": r["variant"], "rep": r["rep"], "seed": ck.seed, "detail": r["padding_dependent"]})
            if r.get("wrote_outside_view"):
                ck.fail("writes-outside-view/%s" % r["name"],
                        "%s (%s layout) wrote outside the view it was given: %s" % (r["name"], r["variant"], r["wrote_outside_view"]),
                        {"routine": r["name"], "variant": r["variant"], "rep": r["rep"], "seed": ck.seed, "detail": r["wrote_outside_view"]})
            if r.get("mutated"):
                kind_ = ("reordered-within-lanes" if "within lanes" in r["mutated"] else
                         "values-moved-across-lanes" if "ACROSS lanes" in r["mutated"] else "values-or-metadata-changed")
                ck.fail("mutates-input/%s/%s" % (r["name"], kind_),
                        "%s (%s layout) changed its caller's data: %s" % (r["name"], r["variant"], r["mutated"]),
                        {"routine": r["name"], "variant": r["variant"], "rep": r["rep"], "seed": ck.seed, "diff": r["mutated"]})
    for c in crashes:
        d = c["during"]
        if d is None:
            ck.fail("harness-worker-failed", "purity worker exited with %s before/after its calls: %s" % (c["returncode"], c["stderr"][-500:]),
                    {"crash": c}, found_input=False)
        elif c.get("hang"):
            ck.__dict__.setdefault("hang_keys", []).append("%s|%s|%d" % (d["name"], d["variant"], d["rep"]))
            ck.fail("hang/%s/%s" % (d["name"], d["variant"]), "%s (%s variant) did not return within %d s: a compiled kernel that never terminates on an input its wrapper accepts" % (d["name"], d["variant"], CALL_TIMEOUT),
                    {"routine": d["name"], "variant": d["variant"], "rep": d["rep"], "seed": ck.seed})
        else:
            ck.fail("crash/%s" % d["name"], "the interpreter died (exit %s) inside %s with %s layout" % (c["returncode"], d["name"], d["variant"]),
                    {"routine": d["name"], "variant": d["variant"], "rep": d["rep"], "seed": ck.seed, "stderr": c["stderr"][-1500:]})
    never_ok = [n for n in names if okcount.get(n, 0) == 0]
    if never_ok:
        ck.note("catalogue entries that never completed normally (only exceptions): %s" % never_ok)
    ck.section("purity", routines=len(names), calls=len([r for r in records if r["status"] in ("ok", "exception")]),
               completed_normally=sum(okcount.values()), never_completed=never_ok,
               variants=["plain", "fortran", "view", "readonly", "singleton", "empty", "extreme", "tview", "midsingle"])
    ck.sample({"routine": "quantile", "variants": "plain/fortran/view/readonly/singleton/empty/extreme", "snapshot": "dtype, shape, strides, writeable flag, md5 of bytes of every argument before and after"})


def sanitizers(ck):
    """Thorough tier: rebuild the C kernels with ASan+UBSan and drive the kernel entries again."""
    from .c20_catalogue import CATALOGUE
    from .. import overlay as ov
    try:
        o = ov.build(sanitize=True)
    except Exception as e:
        ck.note("sanitizer overlay could not be built: %s" % str(e)[:300])
        return
    libasan = subprocess.run(["gcc", "-print-file-name=libasan.so"], capture_output=True, text=True).stdout.strip()
    kernels = [n for n in sorted(CATALOGUE) if any(k in n for k in ("quantile", "median", "histogram", "intvol", "_joint", "_cspline", "blas", "bindings", "HistogramRegistration", "PolyAffine", "ve_step", "knn", "Field", "registration.resample", "Forest", "ward", "kmeans"))]
    env = {"LD_PRELOAD": libasan, "ASAN_OPTIONS": "detect_leaks=0:abort_on_error=1:halt_on_error=1", "UBSAN_OPTIONS": "halt_on_error=1:abort_on_error=1:print_stacktrace=1",
           "VERIF_SANITIZE_OVERLAY": str(o["dir"])}
    records, crashes = run_workers(ck, kernels, ck.n(1, 3), env_extra=env, tag="san", skip0=getattr(ck, "hang_keys", ()))
    for c in crashes:
        d = c["during"]
        if c.get("hang"):
            continue          # reported by the purity pass
        rep = {"crash": c}
        sig = "sanitizer/%s" % (d["name"] if d else "worker")
        # refine by what the sanitizer reported and where (function name from the stack trace, else file:line),
        # so that a recorded finding cannot hide a different error in the same routine family
        m = re.search(r"([\w./-]+\.[ch]):(\d+):\d+: runtime error: ([^\n]*)", c["stderr"])
        if m:
            kind = m.group(3).split(":")[0][:60].strip().replace(" ", "-")
            fn = re.search(r"#0 0x[0-9a-f]+ in (\w+)", c["stderr"])
            sig += "/%s:%s/%s" % (os.path.basename(m.group(1)), fn.group(1) if fn else m.group(2), kind)
        else:
            m = re.search(r"ERROR: AddressSanitizer: ([\w-]+)", c["stderr"])
            if m:
                fn = re.search(r"#0 0x[0-9a-f]+ in (\w+)", c["stderr"])
                sig += "/asan-%s%s" % (m.group(1), ("/" + fn.group(1)) if fn else "")
        ck.fail(sig, "sanitizer-instrumented kernels aborted (exit %s): %s" % (c["returncode"], c["stderr"][-400:]), rep,
                found_input=d is not None)
    ck.section("sanitizers", kernels=kernels, calls=len(records), aborted=len(crashes))


def run(ck):
    ck.cov["rule"] = ("catalogue of public routines (one per family used by C01-C19) x 7 memory-layout/boundary variants "
                      "(plain, Fortran, non-contiguous view, read-only, singleton axes, empty leading axis, extreme values with NaN/inf) "
                      "x repetitions with fresh random integer-valued data; a case = one call; non-trivial = returned normally; "
                      "distinct by (routine, variant, repetition)")
    ck.coq_build(extra_dirs=["C02", "C01", "C09", "C12", "C13", "C16", "C17"])
    ck.overlay()
    from . import c20_kernels
    c20_kernels.run(ck)   # correspondence for coq/C20/Kernels.v (histogram.pyx, _graph.pyx dilation)
    purity(ck)
    sanitizers(ck)     # both tiers: the sanitizer overlay is cached by content hash; quick drives each kernel entry once
    ck.trust.append("purity half is a check on sampled calls, not a theorem about the code; memory safety of the compiled binary as such "
                    "(compiler, NumPy C-API use, reference counting) is outside what the model can exhibit")
