"""setup_cmd: build the whole Coq development from files on disk (offline),
run the forbidden-construct gate, build the extension overlay once."""
import sys
import time


def main():
    from . import coqtools, overlay
    t = time.time()
    b = coqtools.build(None, all_props=True)
    print("coq build: ok=%s failed=%s gate=%s wall=%.1fs" % (b.ok, b.failed_file, b.gate_hits[:3], time.time() - t))
    if not b.ok:
        print(b.log[-4000:])
        return 1
    t = time.time()
    ov = overlay.build(want_cstat=True)
    print("overlay: %s (%.1fs)" % (ov["dir"], time.time() - t))
    return 0


if __name__ == "__main__":
    sys.exit(main())
