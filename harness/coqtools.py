"""Coq project build: regenerate coq/Generated from /repo, (re)write
_CoqProject/Makefile.coq, run the forbidden-construct gate, build the
property's Properties.vo with make, collect theorem names and their
`Print Assumptions` output."""
import fcntl
import os
import re
import subprocess
import tempfile
import time
from pathlib import Path

from .kit import COQ, VERIF, REPO, FORBIDDEN, CoqBuild, COQ_TIMEOUT, SCRATCH_ROOT

THM_RE = re.compile(r"^\s*(?:Theorem|Lemma|Corollary|Example)\s+([A-Za-z_][A-Za-z0-9_']*)", re.M)


def strip_comments(src):
    out = []
    depth = 0
    i = 0
    n = len(src)
    instr = False
    while i < n:
        if depth == 0 and src[i] == '"':
            instr = not instr
            out.append(src[i]); i += 1; continue
        if not instr and src.startswith("(*", i):
            depth += 1; i += 2; continue
        if not instr and depth and src.startswith("*)", i):
            depth -= 1; i += 2; continue
        if depth == 0:
            out.append(src[i])
        i += 1
    return "".join(out)


def v_files():
    fs = []
    for d in sorted(COQ.iterdir()):
        if d.is_dir() and not d.name.startswith("."):
            for f in sorted(d.glob("*.v")):
                if f.name.startswith("Scratch") or f.name.startswith("."):
                    continue
                fs.append(f.relative_to(COQ))
    return fs


def gate(dirs=None):
    hits = []
    for f in v_files():
        if dirs is not None and f.parts[0] not in dirs:
            continue
        src = strip_comments((COQ / f).read_text())
        for m in FORBIDDEN.finditer(src):
            line = src.count("\n", 0, m.start()) + 1
            hits.append("%s:%d:%s" % (f, line, m.group(0)))
    return hits


def regenerate(pids=None):
    """Run translators; write coq/Generated/*.v when content changed.
    Returns {file: {"source":..., "sha":...}} and list of translator errors."""
    from .translate import TRANSLATORS
    gen = COQ / "Generated"
    gen.mkdir(exist_ok=True)
    info = {}
    errors = []
    for name, (owners, fn) in sorted(TRANSLATORS.items()):
        if pids is not None and not (set(owners) & set(pids)):
            # still must exist for the project to build; generate if missing
            if (gen / name).exists():
                continue
        try:
            content, meta = fn(REPO)
        except Exception as e:  # fail closed
            errors.append("%s: %s: %s" % (name, type(e).__name__, e))
            content = "(* translator failed (fail-closed): %s *)\nDefinition translator_failed : True := I.\n" % (str(e).replace("*)", "* )"))
            meta = {"error": str(e)}
        p = gen / name
        if not p.exists() or p.read_text() != content:
            p.write_text(content)
        info[name] = meta
    return info, errors


def write_project():
    fs = v_files()
    txt = "-R . NV\n-arg -w -arg -notation-overridden,-deprecated-hint-without-locality,-deprecated-instance-without-locality,-ambiguous-paths\n" + "\n".join(str(f) for f in fs) + "\n"
    p = COQ / "_CoqProject"
    changed = (not p.exists()) or p.read_text() != txt
    if changed or not (COQ / "Makefile.coq").exists():
        p.write_text(txt)
        subprocess.run(["coq_makefile", "-f", "_CoqProject", "-o", "Makefile.coq"], cwd=COQ, check=True,
                       capture_output=True)
    return fs


def _make(targets, jobs=16):
    cmd = ["timeout", str(COQ_TIMEOUT), "make", "-f", "Makefile.coq", "-j%d" % jobs, "-k"] + targets
    r = subprocess.run(cmd, cwd=COQ, capture_output=True, text=True)
    return r.returncode, r.stdout + "\n" + r.stderr


def theorems_of(pid):
    p = COQ / pid / "Properties.v"
    if not p.exists():
        return []
    return THM_RE.findall(strip_comments(p.read_text()))


def assumptions(pid, thms):
    if not thms:
        return {}
    d = Path(tempfile.mkdtemp(prefix="assum-", dir=SCRATCH_ROOT))
    f = d / "Assum.v"
    lines = ["From Coq Require Import String.", "From NV.%s Require Import Properties." % pid]
    for t in thms:
        lines.append('Eval cbv in ("@@MARK %s"%%string).' % t)
        lines.append("Print Assumptions %s." % t)
    f.write_text("\n".join(lines) + "\n")
    r = subprocess.run(["timeout", "900", "coqc", "-q", "-R", str(COQ), "NV", str(f)], capture_output=True, text=True, cwd=d)
    res = {}
    if r.returncode != 0:
        res = {t: "ERROR: " + (r.stderr or r.stdout)[-300:] for t in thms}
    else:
        chunks = re.split(r'= "@@MARK ([^"]+)"(?:%string)?\s*:\s*string', r.stdout)
        for i in range(1, len(chunks), 2):
            body = " ".join(chunks[i + 1].split())
            res[chunks[i]] = body
    import shutil
    shutil.rmtree(d, ignore_errors=True)
    return res


def manifest_props():
    import json
    try:
        m = json.loads((VERIF / "MANIFEST.json").read_text())
        return sorted({c["property_id"] for c in m["checks"]})
    except Exception:
        return []


def build(pid=None, extra_dirs=(), all_props=False):
    b = CoqBuild()
    t0 = time.time()
    SCRATCH_ROOT.mkdir(parents=True, exist_ok=True)
    lock = open(COQ / ".buildlock", "w")
    fcntl.flock(lock, fcntl.LOCK_EX)
    try:
        info, errs = regenerate(None if all_props else [pid] + list(extra_dirs))
        b.generated = info
        fs = write_project()
        claimed = manifest_props()
        b.gate_hits = gate((["Lib", "Generated"] + claimed) if all_props else ["Lib", "Generated", pid] + list(extra_dirs))
        if all_props:
            # only the properties claimed in MANIFEST.json (work in progress in other directories is not built)
            targets = [str(f)[:-2] + ".vo" for f in fs if f.parts[0] in claimed or f.parts[0] == "Generated"]
        else:
            dirs = [pid] + list(extra_dirs)
            targets = [str(f)[:-2] + ".vo" for f in fs if f.parts[0] in dirs]
        rc, log = _make(targets)
        b.log = log
        b.ok = (rc == 0) and not errs and not b.gate_hits
        if rc != 0:
            m = re.search(r'File "\./?([^"]+)", line (\d+)', log)
            b.failed_file = (m.group(1) + ":" + m.group(2)) if m else "make rc=%d" % rc
        if errs:
            b.failed_file = (b.failed_file or "") + " translator:" + "; ".join(errs)
    finally:
        fcntl.flock(lock, fcntl.LOCK_UN)
        lock.close()
    if pid:
        b.theorems = theorems_of(pid)
        if rc == 0:
            b.assumptions = assumptions(pid, b.theorems)
    b.wall = time.time() - t0
    return b
