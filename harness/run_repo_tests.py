"""Run nipy's own tests for packages that need compiled modules, with the overlay installed:
   /venv/bin/python -m harness.run_repo_tests nipy/algorithms/graph/tests [...pytest args]"""
import sys
from . import overlay
ov = overlay.build()
overlay.install(ov)
import pytest
sys.exit(pytest.main(["-q", "-p", "no:cacheprovider", "--rootdir=" + str(overlay.REPO)] + [str(overlay.REPO / a) if not a.startswith("-") else a for a in sys.argv[1:]]))
