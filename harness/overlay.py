"""Extension overlay: build nipy's compiled modules from /repo's *current* C
sources (plus the vendored cythonised glue in /verif/glue, because no Cython
exists in this sandbox) into a scratch directory outside /repo and /verif, and
make `import nipy...` resolve Python from /repo and binaries from the overlay.

Freshness per module (reported in every evidence file):
  fresh               C kernel sources compiled from /repo now, glue generated
                      from a .pyx whose normalised hash equals /repo's .pyx
  glue-stale          the .pyx in /repo differs from the one the glue was
                      generated from (kernel C is still fresh)
  installed-fallback  module imported from /venv site-packages (no cythonised
                      glue exists: kalman, onesample, twosample, glm_twolevel,
                      routines); nothing is concluded from those binaries
"""
import gzip
import hashlib
import importlib.abc
import importlib.machinery
import importlib.util
import json
import os
import shutil
import subprocess
import sys
import sysconfig
import fcntl
from pathlib import Path

REPO = Path(os.environ.get("NIPY_REPO", "/repo"))
VERIF = Path(__file__).resolve().parent.parent
GLUE = VERIF / "glue"
SITE = Path("/venv/lib/python3.12/site-packages")
SCRATCH_ROOT = Path(os.environ.get("VERIF_SCRATCH", "/var/tmp")) / "nipy-verif"
EXT_SUFFIX = sysconfig.get_config_var("EXT_SUFFIX")

FFF = "lib/fff"
CSTAT_SRCS = [
    "lib/fff/fff_array.c", "lib/fff/fff_base.c", "lib/fff/fff_blas.c",
    "lib/fff/fff_gen_stats.c", "lib/fff/fff_glm_kalman.c",
    "lib/fff/fff_glm_twolevel.c", "lib/fff/fff_lapack.c", "lib/fff/fff_matrix.c",
    "lib/fff/fff_onesample_stat.c", "lib/fff/fff_routines.c",
    "lib/fff/fff_specfun.c", "lib/fff/fff_twosample_stat.c", "lib/fff/fff_vector.c",
    "lib/fff_python_wrapper/fffpy.c",
    "lib/lapack_lite/blas_lite.c", "lib/lapack_lite/dlamch.c",
    "lib/lapack_lite/dlapack_lite.c", "lib/lapack_lite/f2c_lite.c",
]
CSTAT_INC = ["lib/fff", "lib/fff_python_wrapper", "lib/lapack_lite"]

# module -> (glue name, pyx path, extra C sources relative to /repo, needs cstat)
MODULES = {
    "nipy.algorithms.graph._graph": ("_graph", "nipy/algorithms/graph/_graph.pyx", [], False),
    "nipy.algorithms.statistics.intvol": ("intvol", "nipy/algorithms/statistics/intvol.pyx", [], False),
    "nipy.algorithms.statistics.histogram": ("histogram", "nipy/algorithms/statistics/histogram.pyx", [], False),
    "nipy.algorithms.statistics._quantile": ("_quantile", "nipy/algorithms/statistics/_quantile.pyx",
                                             ["nipy/algorithms/statistics/quantile.c"], False),
    "nipy.algorithms.registration._registration": (
        "_registration", "nipy/algorithms/registration/_registration.pyx",
        ["nipy/algorithms/registration/joint_histogram.c", "nipy/algorithms/registration/wichmann_prng.c",
         "nipy/algorithms/registration/cubic_spline.c", "nipy/algorithms/registration/polyaffine.c"], False),
    "nipy.algorithms.segmentation._segmentation": (
        "_segmentation", "nipy/algorithms/segmentation/_segmentation.pyx",
        ["nipy/algorithms/segmentation/mrf.c"], False),
    "nipy.labs.bindings.array": ("array", "nipy/labs/bindings/array.pyx", [], True),
    "nipy.labs.bindings.linalg": ("linalg", "nipy/labs/bindings/linalg.pyx", [], True),
    "nipy.labs.bindings.wrapper": ("wrapper", "nipy/labs/bindings/wrapper.pyx", [], True),
}
FALLBACK = {
    "nipy.labs.glm.kalman": "nipy/labs/glm/kalman.pyx",
    "nipy.labs.group.onesample": "nipy/labs/group/onesample.pyx",
    "nipy.labs.group.twosample": "nipy/labs/group/twosample.pyx",
    "nipy.labs.group.glm_twolevel": "nipy/labs/group/glm_twolevel.pyx",
    "nipy.labs.utils.routines": "nipy/labs/utils/routines.pyx",
}

NPY_DEFS = ["-DNPY_BEHAVED=NPY_ARRAY_BEHAVED", "-DNPY_OWNDATA=NPY_ARRAY_OWNDATA",
            "-DNPY_CONTIGUOUS=NPY_ARRAY_C_CONTIGUOUS", "-DNPY_ALIGNED=NPY_ARRAY_ALIGNED",
            "-DNPY_FORTRAN=NPY_ARRAY_F_CONTIGUOUS"]


def norm_pyx_hash(path):
    """Hash of a .pyx with comment-only and blank lines and trailing blanks removed."""
    h = hashlib.sha256()
    for line in Path(path).read_text().splitlines():
        s = line.rstrip()
        if not s or s.lstrip().startswith("#"):
            continue
        h.update(s.encode() + b"\n")
    return h.hexdigest()


def _includes():
    import numpy
    return [sysconfig.get_paths()["include"], numpy.get_include()]


def _sha_files(paths, extra=b""):
    h = hashlib.sha256(extra)
    for p in paths:
        h.update(str(p).encode())
        h.update(Path(p).read_bytes())
    return h.hexdigest()[:20]


def _run(cmd, cwd=None):
    r = subprocess.run(cmd, cwd=cwd, capture_output=True, text=True)
    if r.returncode != 0:
        raise RuntimeError("overlay build failed: %s\n%s\n%s" % (" ".join(map(str, cmd)), r.stdout[-3000:], r.stderr[-3000:]))
    return r


def glue_manifest():
    return json.loads((GLUE / "manifest.json").read_text())


def _compile_objs(srcs, outdir, flags, incs):
    """Compile sources in parallel to objects; returns object paths."""
    procs = []
    objs = []
    for s in srcs:
        o = outdir / (hashlib.md5(str(s).encode()).hexdigest()[:8] + "_" + Path(s).stem + ".o")
        objs.append(o)
        cmd = ["gcc", "-c", "-fPIC", "-w"] + flags + ["-I" + str(i) for i in incs] + [str(s), "-o", str(o)]
        procs.append((cmd, subprocess.Popen(cmd, stdout=subprocess.PIPE, stderr=subprocess.PIPE, text=True)))
    for cmd, p in procs:
        out, err = p.communicate()
        if p.returncode != 0:
            raise RuntimeError("overlay compile failed: %s\n%s" % (" ".join(cmd), err[-3000:]))
    return objs


def build(modules=None, want_cstat=False, sanitize=False, opt="-O1"):
    """Build the requested overlay modules (default: all). Returns dict with
    'dir', 'freshness' {module: status}, 'cstat' path or None."""
    modules = list(MODULES) if modules is None else list(modules)
    SCRATCH_ROOT.mkdir(parents=True, exist_ok=True)
    incs = _includes()
    flags = [opt, "-DNPY_NO_DEPRECATED_API=0", "-D_USE_MATH_DEFINES"] + NPY_DEFS
    cc_extra = []
    if sanitize:
        flags = ["-O1", "-g", "-fsanitize=address,undefined", "-fno-omit-frame-pointer"] + flags[1:]
        cc_extra = ["-fsanitize=address,undefined"]
    need_cstat = want_cstat or any(MODULES[m][3] for m in modules)
    man = glue_manifest()
    # key over all inputs
    allsrc = []
    for m in modules:
        allsrc += [REPO / s for s in MODULES[m][2]]
        allsrc.append(GLUE / (MODULES[m][0] + ".c.gz"))
    if need_cstat:
        allsrc += [REPO / s for s in CSTAT_SRCS]
        allsrc += sorted((REPO / "lib/fff").glob("*.h")) + sorted((REPO / "lib/fff_python_wrapper").glob("*.h")) + sorted((REPO / "lib/lapack_lite").glob("*.h"))
    for m in modules:
        for s in MODULES[m][2]:
            allsrc += sorted((REPO / s).parent.glob("*.h"))
    allsrc = sorted(set(allsrc))
    key = _sha_files(allsrc, (" ".join(flags) + "|" + ",".join(sorted(modules)) + str(need_cstat)).encode())
    out = SCRATCH_ROOT / ("ov-" + key)
    lock = open(SCRATCH_ROOT / ".lock", "w")
    fcntl.flock(lock, fcntl.LOCK_EX)
    try:
        if not (out / "DONE").exists():
            if out.exists():
                shutil.rmtree(out)
            # prune older overlays (keep disk use bounded)
            olds = sorted([d for d in SCRATCH_ROOT.glob("ov-*") if d.is_dir()], key=lambda d: d.stat().st_mtime)
            for d in olds[:-12]:
                shutil.rmtree(d, ignore_errors=True)
            out.mkdir(parents=True)
            objdir = out / "obj"
            objdir.mkdir()
            cstat_objs = []
            if need_cstat:
                cstat_objs = _compile_objs([REPO / s for s in CSTAT_SRCS], objdir, flags,
                                           incs + [REPO / i for i in CSTAT_INC])
                _run(["gcc", "-shared", "-o", str(out / "libcstat.so")] + [str(o) for o in cstat_objs] +
                     cc_extra + ["-lm"])
            # glue + kernels
            jobs = []
            for m in modules:
                gname, pyx, extra, cst = MODULES[m]
                gc = objdir / (gname + ".c")
                gc.write_bytes(gzip.decompress((GLUE / (gname + ".c.gz")).read_bytes()))
                srcs = [gc] + [REPO / s for s in extra]
                minc = incs + [(REPO / pyx).parent]
                if cst:
                    minc += [REPO / i for i in CSTAT_INC]
                jobs.append((m, gname, srcs, minc, cst))
            # compile all module objects in parallel
            allobjs = {}
            flat = []
            for m, gname, srcs, minc, cst in jobs:
                for s in srcs:
                    flat.append((m, s, minc))
            procs = []
            for m, s, minc in flat:
                o = objdir / (hashlib.md5((m + str(s)).encode()).hexdigest()[:8] + "_" + Path(s).stem + ".o")
                allobjs.setdefault(m, []).append(o)
                cmd = ["gcc", "-c", "-fPIC", "-w"] + flags + ["-I" + str(i) for i in minc] + [str(s), "-o", str(o)]
                procs.append((cmd, subprocess.Popen(cmd, stdout=subprocess.PIPE, stderr=subprocess.PIPE, text=True)))
            for cmd, p in procs:
                o_, err = p.communicate()
                if p.returncode != 0:
                    raise RuntimeError("overlay compile failed: %s\n%s" % (" ".join(cmd), err[-3000:]))
            for m, gname, srcs, minc, cst in jobs:
                objs = [str(o) for o in allobjs[m]]
                if cst:
                    objs += [str(o) for o in cstat_objs]
                _run(["gcc", "-shared", "-o", str(out / (gname + EXT_SUFFIX))] + objs + cc_extra + ["-lm"])
            shutil.rmtree(objdir, ignore_errors=True)
            (out / "DONE").write_text("ok")
        else:
            os.utime(out)
    finally:
        fcntl.flock(lock, fcntl.LOCK_UN)
        lock.close()
    fresh = {}
    for m in modules:
        gname, pyx, extra, cst = MODULES[m]
        fresh[m] = "fresh" if norm_pyx_hash(REPO / pyx) == man[gname]["pyx_norm_sha256"] else "glue-stale"
    for m, pyx in FALLBACK.items():
        fresh[m] = "installed-fallback" + ("" if norm_pyx_hash(REPO / pyx) == man["fallback"][m] else "(pyx-changed)")
    return {"dir": out, "freshness": fresh, "cstat": (out / "libcstat.so") if need_cstat else None,
            "modules": modules}


class _Finder(importlib.abc.MetaPathFinder):
    def __init__(self, ovdir, modules):
        self.ovdir = Path(ovdir)
        self.modules = set(modules)

    def find_spec(self, name, path, target=None):
        if name in MODULES:
            gname = MODULES[name][0]
            p = self.ovdir / (gname + EXT_SUFFIX)
            if name not in self.modules or not p.exists():
                p = SITE / (name.replace(".", "/") + EXT_SUFFIX)
        elif name in FALLBACK:
            p = SITE / (name.replace(".", "/") + EXT_SUFFIX)
        else:
            return None
        p = str(p)
        return importlib.util.spec_from_file_location(
            name, p, loader=importlib.machinery.ExtensionFileLoader(name, p))


def install(ov):
    """Make `import nipy` use /repo for Python and the overlay for binaries."""
    sys.dont_write_bytecode = True
    sys.meta_path.insert(0, _Finder(ov["dir"], ov["modules"]))
    # /repo first; drop site-packages' nipy by ordering only (other deps stay importable)
    rp = str(REPO)
    if rp in sys.path:
        sys.path.remove(rp)
    sys.path.insert(0, rp)
    for k in [k for k in sys.modules if k == "nipy" or k.startswith("nipy.")]:
        del sys.modules[k]
    import warnings
    warnings.simplefilter("ignore")
    import nipy
    assert str(Path(nipy.__file__).resolve()).startswith(str(REPO.resolve())), nipy.__file__
    return nipy


def write_glue_manifest():
    """(Maintenance) record the normalised .pyx hashes the vendored glue corresponds to."""
    man = {}
    for m, (gname, pyx, extra, cst) in MODULES.items():
        man[gname] = {"module": m, "pyx": pyx, "pyx_norm_sha256": norm_pyx_hash(REPO / pyx)}
    man["fallback"] = {m: norm_pyx_hash(REPO / pyx) for m, pyx in FALLBACK.items()}
    (GLUE / "manifest.json").write_text(json.dumps(man, indent=1, sort_keys=True))


if __name__ == "__main__":
    if len(sys.argv) > 1 and sys.argv[1] == "write-manifest":
        write_glue_manifest()
    else:
        import time
        t = time.time()
        ov = build(want_cstat=True)
        print(ov["dir"], round(time.time() - t, 1), "s")
        print(json.dumps(ov["freshness"], indent=1))
        install(ov)
        import numpy as np
        import nipy.algorithms.statistics.intvol as iv
        print(iv.__file__, iv.EC3d(np.ones((2, 3, 4), int)))
        import nipy.labs.bindings.linalg as la
        print(la.__file__)
