"""Shared machinery for the per-property checks (see DESIGN.md section 3).

A property module `harness/props/cXX.py` defines `run(ck)` where `ck` is a
`Check`.  The module

  * calls `ck.coq_build()` - regenerates coq/Generated from /repo, builds
    Lib + Generated + CXX with make, counts obligations (Theorems in
    CXX/Properties.v) and collects `Print Assumptions` for each;
  * calls `ck.overlay(...)` when it needs nipy's compiled modules;
  * generates cases with `ck.rng(...)`, runs the implementation, and compares
    with the Coq model evaluated by `vm_compute` (`ck.coq_bools`, `ck.coq_show`);
  * evaluates the property statement directly on the implementation outputs;
  * reports problems with `ck.fail(signature, what, replay)`.

`ck.finish()` writes evidence/<id>.json, prints KNOWN-FINDING / VIOLATION
lines and returns the exit status.
"""
import fcntl
import hashlib
import json
import os
import re
import shutil
import subprocess
import sys
import tempfile
import time
from fractions import Fraction
from pathlib import Path

VERIF = Path(__file__).resolve().parent.parent
REPO = Path(os.environ.get("NIPY_REPO", "/repo"))
COQ = VERIF / "coq"
SCRATCH_ROOT = Path(os.environ.get("VERIF_SCRATCH", "/var/tmp")) / "nipy-verif"
COQ_TIMEOUT = int(os.environ.get("VERIF_COQ_TIMEOUT", "1500"))

FORBIDDEN = re.compile(
    r"\b(Admitted|admit|Axiom|Axioms|Parameter|Parameters|Conjecture|Conjectures|Admit Obligations|"
    r"Unset Guard Checking|Unset Positivity Checking|Unset Universe Checking|bypass_check|"
    r"Local Unset Guard|type-in-type|impredicative-set)\b")

BASE_TRUST = [
    "Coq 8.16.1 kernel and coqc (vm_compute used in finite-table lemmas and for evaluating the model in the correspondence; native_compute not used)",
    "no Axiom/Parameter/Admitted in the development (grep gate at every build); axioms per theorem as printed by Print Assumptions are listed under coverage.assumptions_by_theorem",
    "the Gallina model is hand-written; it is tied to /repo by (a) coq/Generated/*.v regenerated from /repo's source by harness/translate on every run and (b) the correspondence check that evaluates the model with vm_compute on the same inputs as the implementation and compares exactly",
    "harness: case generators, float->exact-rational conversion (float.as_integer_ratio), canonicalisation, comparison; extension overlay build (gcc, vendored cythonised glue in /verif/glue; no Cython in the sandbox)",
]


# ---------------------------------------------------------------- literals
def cz(n):
    n = int(n)
    return "(%d)%%Z" % n


def cnat(n):
    n = int(n)
    assert 0 <= n <= 5000, n
    return "%d%%nat" % n


def cbool(b):
    return "true" if b else "false"


def cq(x):
    """Exact rational literal; floats are converted exactly."""
    if isinstance(x, float):
        x = Fraction(*x.as_integer_ratio())
    x = Fraction(x)
    return "(Qmake (%d) %d)" % (x.numerator, x.denominator)


def clist(items, scope=None):
    s = "[" + "; ".join(items) + "]"
    return s


def czl(xs):
    return clist([cz(x) for x in xs])


def cql(xs):
    return clist([cq(x) for x in xs])


def cnatl(xs):
    return clist([cnat(x) for x in xs])


def cstr(s):
    assert all(32 <= ord(c) < 127 and c != '"' for c in s), s
    return '"%s"%%string' % s


def frac(x):
    """float/int -> exact Fraction."""
    if isinstance(x, Fraction):
        return x
    if isinstance(x, int):
        return Fraction(x)
    import numpy as np
    if isinstance(x, (np.integer,)):
        return Fraction(int(x))
    return Fraction(*float(x).as_integer_ratio())


# ---------------------------------------------------------------- findings
def load_findings():
    p = VERIF / "known_findings.json"
    if not p.exists():
        return []
    return json.loads(p.read_text())["findings"]


class CoqBuild:
    def __init__(self):
        self.ok = False
        self.failed_file = None
        self.log = ""
        self.theorems = []
        self.assumptions = {}
        self.generated = {}
        self.gate_hits = []
        self.wall = 0.0


class Check:
    def __init__(self, pid, tier="quick", seed=0, replay=None, keep_replays=False):
        self.pid = pid
        self.tier = tier
        self.seed = int(seed)
        self.replay = replay
        self.t0 = time.time()
        self.failures = []       # (signature, what, replay_path)
        self.known_hits = []
        self.more = {}
        self.notes = []
        self.cov = {"evaluations": 0, "distinct_nontrivial": 0, "rule": "", "samples": [],
                    "traces_validated_against_impl": 0}
        self._distinct = set()
        self.dist = {}           # input-distribution histogram
        self.trust = list(BASE_TRUST)
        self.assume = []
        self.build = None
        self.freshness = {}
        self.findings = [f for f in load_findings() if f["property"] == pid]
        SCRATCH_ROOT.mkdir(parents=True, exist_ok=True)
        self.scratch = Path(tempfile.mkdtemp(prefix="run-%s-" % pid, dir=SCRATCH_ROOT))
        self.sections = {}
        self._replay_n = 0
        if replay is None and not keep_replays:
            for old in (VERIF / "replays").glob("%s-*.json" % pid):
                old.unlink()
        # breadcrumb: the last case registered with count(), readable by the parent process if this one dies
        self._crumb = None
        if not keep_replays:
            try:
                (VERIF / "replays").mkdir(exist_ok=True)
                self._crumb = os.open(str(VERIF / "replays" / (".crumb-%s" % pid)), os.O_WRONLY | os.O_CREAT | os.O_TRUNC, 0o644)
            except OSError:
                self._crumb = None

    # ------------------------------------------------------------ utilities
    def rng(self, name=""):
        import numpy as np
        h = hashlib.sha256(("%s|%s|%d" % (self.pid, name, self.seed)).encode()).digest()
        return np.random.Generator(np.random.PCG64(int.from_bytes(h[:8], "little")))

    def thorough(self):
        return self.tier == "thorough"

    def n(self, quick, thorough):
        return thorough if self.thorough() else quick

    def overlay(self, modules=None, cstat=False, sanitize=False):
        from . import overlay as ov
        o = ov.build(modules, want_cstat=cstat, sanitize=sanitize)
        if not sanitize:
            ov.install(o)
        self.freshness.update(o["freshness"])
        self.ov = o
        for m, st in o["freshness"].items():
            if st == "glue-stale" and (modules is None or m in (modules or [])):
                self.glue_stale(m)
        return o

    def glue_stale(self, module):
        self.fail("glue-stale/%s" % module,
                  "the .pyx source of %s differs from the one the vendored cythonised glue was generated from; "
                  "no Cython is available to rebuild it, so the correspondence for this module no longer checks" % module,
                  {"kind": "correspondence-broken", "module": module}, found_input=False)

    def count(self, key, nontrivial=True, bucket=None):
        """Register one evaluated case; `key` identifies it for distinctness."""
        self.cov["evaluations"] += 1
        if self._crumb is not None:
            try:
                b = ("evaluation #%d bucket=%s key=%s" % (self.cov["evaluations"], bucket, repr(key)[:400])).encode()[:600]
                os.pwrite(self._crumb, b + b" " * (600 - len(b)), 0)
            except OSError:
                pass
        if nontrivial:
            k = hashlib.md5(repr(key).encode()).digest()
            self._distinct.add(k)
        if bucket is not None:
            self.dist[bucket] = self.dist.get(bucket, 0) + 1

    def sample(self, obj, cap=6):
        if len(self.cov["samples"]) < cap:
            self.cov["samples"].append(obj)

    def note(self, s):
        self.notes.append(s)

    def section(self, name, **kw):
        self.sections.setdefault(name, {}).update(kw)

    # ------------------------------------------------------------ failures
    def fail(self, signature, what, replay, found_input=True):
        """Report a property failure.  `signature` identifies the failing
        call site / input feature; a signature listed as `known` in
        known_findings.json is printed as KNOWN-FINDING and does not fail."""
        for f in self.findings:
            if f["status"] == "known" and f["signature"] == signature:
                if signature not in [k[0] for k in self.known_hits]:
                    self.known_hits.append((signature, f["what"]))
                return
        for f in self.failures:
            if f[0] == signature:      # one replay per signature: the first (smallest) case
                self.more[signature] = self.more.get(signature, 0) + 1
                return
        if len(self.failures) >= 25:
            return
        self._replay_n += 1
        rp = VERIF / "replays" / ("%s-%s-%d.json" % (self.pid, re.sub(r"[^A-Za-z0-9_.-]+", "_", signature)[:60], self._replay_n))
        rp.parent.mkdir(exist_ok=True)
        rp.write_text(json.dumps({"property": self.pid, "signature": signature, "what": what,
                                  "found_failing_input": found_input, "seed": self.seed, "tier": self.tier,
                                  "replay": replay}, indent=1, default=str))
        self.failures.append((signature, what, str(rp), found_input))

    # ------------------------------------------------------------ Coq
    def coq_build(self, extra_dirs=()):
        from . import coqtools
        b = coqtools.build(self.pid, extra_dirs)
        self.build = b
        if b.gate_hits:
            self.fail("coq-gate", "forbidden construct in the Coq development: %s" % b.gate_hits[:3],
                      {"kind": "proof-gate", "hits": b.gate_hits}, found_input=False)
        if not b.ok:
            self._coq_broken = True
        return b

    def coq_broken_report(self):
        """Call after the search for a failing input: if the build is broken and
        no concrete failure was found, report no-failing-input-found."""
        b = self.build
        if b is not None and not b.ok:
            if not any(f[3] for f in self.failures):
                self.fail("proof-broken/%s" % (b.failed_file or "?"),
                          "Coq obligation no longer checks: %s" % (b.failed_file,),
                          {"kind": "proof-broken", "file": b.failed_file, "log_tail": b.log[-3000:]},
                          found_input=False)

    def _coqc(self, vfile, timeout=600):
        r = subprocess.run(["timeout", str(timeout), "coqc", "-q", "-R", str(COQ), "NV", str(vfile)],
                           capture_output=True, text=True, cwd=str(vfile.parent))
        return r

    def coq_bools(self, header, terms, shard=250, name="cases"):
        """Evaluate boolean Coq terms with vm_compute; returns list of bool.
        `header` = Require/Import lines and local definitions."""
        if not terms:
            return []
        shards = [terms[i:i + shard] for i in range(0, len(terms), shard)]
        files = []
        for k, sh in enumerate(shards):
            f = self.scratch / ("%s_%d_%d.v" % (name, len(list(self.scratch.glob("*.v"))), k))
            body = [header, "From NV.Lib Require Import Harness.", "Import ListNotations.",
                    "Definition _cases : list bool := ["]
            body.append(";\n".join("  (%s)" % t for t in sh))
            body.append("].")
            body.append("Eval vm_compute in (failing_idx _cases).")
            f.write_text("\n".join(body) + "\n")
            files.append(f)
        procs = []
        results = [None] * len(files)
        maxp = 12
        idx = 0
        running = []
        outs = {}
        while idx < len(files) or running:
            while idx < len(files) and len(running) < maxp:
                f = files[idx]
                p = subprocess.Popen(["timeout", "900", "coqc", "-q", "-R", str(COQ), "NV", str(f)],
                                     stdout=subprocess.PIPE, stderr=subprocess.PIPE, text=True, cwd=str(f.parent))
                running.append((idx, p))
                idx += 1
            k, p = running.pop(0)
            out, err = p.communicate()
            outs[k] = (p.returncode, out, err)
        res = []
        for k, sh in enumerate(shards):
            rc, out, err = outs[k]
            if rc != 0:
                raise CoqEvalError("coqc failed on %s: %s" % (files[k], (err or out)[-2000:]))
            flat = " ".join(out.split())
            m = re.search(r"= \[(.*?)\](?:%nat)?\s*: list nat", flat)
            if not m:
                m2 = re.search(r"= nil\s*: list nat", flat)
                if not m2:
                    raise CoqEvalError("cannot parse coqc output: %s" % flat[-500:])
                bad = set()
            else:
                inner = m.group(1).strip()
                bad = set(int(x.replace("%nat", "")) for x in inner.split(";")) if inner else set()
            res += [i not in bad for i in range(len(sh))]
        for f in files:
            for ext in (".v", ".vo", ".vok", ".vos", ".glob"):
                q = f.with_suffix(ext)
                if q.exists():
                    q.unlink()
            aux = f.parent / ("." + f.stem + ".aux")
            if aux.exists():
                aux.unlink()
        return res

    def coq_show(self, header, term, timeout=300):
        """Evaluate a Coq term with vm_compute and return Coq's printed value (whitespace-normalised)."""
        f = self.scratch / ("show_%d.v" % len(list(self.scratch.glob("show_*.v"))))
        f.write_text(header + "\nImport ListNotations.\nEval vm_compute in (%s).\n" % term)
        r = self._coqc(f, timeout)
        if r.returncode != 0:
            raise CoqEvalError("coqc failed: %s" % (r.stderr or r.stdout)[-2000:])
        return " ".join(r.stdout.split())

    def coqchk(self, timeout=1500):
        """Thorough tier: re-check the property's compiled theorems (and everything they depend on)
        with the independent checker and record the axioms it reports."""
        r = subprocess.run(["timeout", str(timeout), "coqchk", "-silent", "-o", "-R", str(COQ), "NV",
                            "NV.%s.Properties" % self.pid], capture_output=True, text=True, cwd=str(COQ))
        out = (r.stdout or "") + (r.stderr or "")
        m = re.search(r"CONTEXT SUMMARY(.*)", out, re.S)
        summary = " ".join((m.group(1) if m else out[-1500:]).split())
        self.cov["coqchk"] = {"exit": r.returncode, "summary": summary[:4000]}
        if r.returncode != 0:
            self.fail("coqchk-rejected", "coqchk did not accept the compiled development: %s" % summary[-400:],
                      {"kind": "coqchk", "output_tail": out[-2000:]}, found_input=False)

    # ------------------------------------------------------------ finish
    def finish(self):
        self.coq_broken_report()
        if self.thorough() and self.build is not None and self.build.ok and self.build.theorems \
                and os.environ.get("VERIF_NO_COQCHK") != "1":
            try:
                self.coqchk()
            except Exception as e:  # noqa
                self.note("coqchk could not be run: %s" % e)
        self.cov["distinct_nontrivial"] = len(self._distinct)
        b = self.build
        cov = self.cov
        if b is not None and b.theorems:
            cov["obligations"] = len(b.theorems)
            cov["discharged"] = len(b.theorems) if b.ok else 0
            cov["checker_cmd"] = "cd /verif/coq && make -f Makefile.coq -j16 %s/Properties.vo  (coqc 8.16.1 full .vo build; coqchk -o in thorough tier)" % self.pid
            cov["theorems"] = b.theorems
            cov["assumptions_by_theorem"] = b.assumptions
            cov["generated_from_source"] = b.generated
            cov["coq_build_wall_s"] = round(b.wall, 1)
        else:
            cov["explanation"] = "no Coq obligations are attached to this check yet"
        cov["trusted_base"] = self.trust
        cov["input_distribution"] = self.dist
        cov["glue_freshness"] = self.freshness
        cov["sections"] = self.sections
        cov["notes"] = self.notes
        cov["known_findings_hit"] = [k[0] for k in self.known_hits]
        if not cov["samples"]:
            cov["samples"] = ["(no sampled case recorded)"]
        ev = {"property_id": self.pid, "tier": self.tier, "seed": self.seed, "level": "proof",
              "coverage": cov, "assumptions": self.assume, "wall_s": round(time.time() - self.t0, 1),
              "violations": len(self.failures)}
        (VERIF / "evidence").mkdir(exist_ok=True)
        (VERIF / "evidence" / ("%s.json" % self.pid)).write_text(json.dumps(ev, indent=1, default=str))
        for sig, what in self.known_hits:
            print("KNOWN-FINDING: property=%s %s [%s]" % (self.pid, what, sig))
        for sig, what, rp, found in self.failures:
            print("  failure[%s]%s: %s" % (sig, (" (+%d more with this signature)" % self.more[sig]) if sig in self.more else "", what[:400]))
            print("VIOLATION property=%s replay=%s%s" % (self.pid, rp, "" if found else " no-failing-input-found"))
        shutil.rmtree(self.scratch, ignore_errors=True)
        print("%s %s: evaluations=%d distinct=%d obligations=%s discharged=%s wall=%.1fs -> %s" % (
            self.pid, self.tier, cov["evaluations"], cov["distinct_nontrivial"], cov.get("obligations"),
            cov.get("discharged"), time.time() - self.t0, "FAIL" if self.failures else "ok"))
        return 1 if self.failures else 0


class CoqEvalError(Exception):
    pass
