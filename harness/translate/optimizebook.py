"""Translate the result bookkeeping of HistogramRegistration.optimize (C09).

Parsed with `ast` from nipy/algorithms/registration/histogram_registration.py,
method `HistogramRegistration.optimize` (fail-closed: any other shape raises):

  * `Tv = ChainTransform(T, pre=self._from_affine, post=self._to_inv_affine)`, `tc0 = Tv.param`;
  * the nested `def cost(tc): Tv.param = tc; return -self._eval(Tv)`  - every cost evaluation
    overwrites the parameters of the transform that is finally returned, and the cost is MINUS
    the similarity;
  * the statement that runs the optimiser: either `Tv.param = fmin(cost, tc0, *args, **kwargs)`
    (the result of the optimiser is written back: FminReturn) or a bare call
    `fmin(cost, tc0, *args, **kwargs)` (the transform keeps the parameters of the LAST cost
    evaluation: InPlaceLast);
  * `fmin, args, kwargs = configure_optimizer(optimizer, ...)` and the final `return Tv.optimizable`.

Emits `gen_optimize_binding : binding`, `gen_cost_negates_similarity`, `gen_cost_sets_param`;
the theorem `optimize_not_worse_partial` is stated about the model instantiated with them.
"""
import ast

from . import register

SRC = "nipy/algorithms/registration/histogram_registration.py"


class Unsupported(Exception):
    pass


def _attr(n, base, name):
    return isinstance(n, ast.Attribute) and isinstance(n.value, ast.Name) and n.value.id == base and n.attr == name


def _is_fmin_call(c):
    return (isinstance(c, ast.Call) and isinstance(c.func, ast.Name) and c.func.id == "fmin"
            and len(c.args) == 3 and isinstance(c.args[0], ast.Name) and c.args[0].id == "cost"
            and isinstance(c.args[1], ast.Name) and c.args[1].id == "tc0"
            and isinstance(c.args[2], ast.Starred) and isinstance(c.args[2].value, ast.Name) and c.args[2].value.id == "args"
            and len(c.keywords) == 1 and c.keywords[0].arg is None
            and isinstance(c.keywords[0].value, ast.Name) and c.keywords[0].value.id == "kwargs")


@register("OptimizeBook.v", ["C09"])
def translate(repo):
    tree = ast.parse((repo / SRC).read_text())
    cls = [n for n in tree.body if isinstance(n, ast.ClassDef) and n.name == "HistogramRegistration"]
    if len(cls) != 1:
        raise Unsupported("class HistogramRegistration")
    fn = [n for n in cls[0].body if isinstance(n, ast.FunctionDef) and n.name == "optimize"]
    if len(fn) != 1:
        raise Unsupported("method optimize")
    fn = fn[0]
    body = fn.body
    # --- Tv and tc0
    tv = [s for s in body if isinstance(s, ast.Assign) and len(s.targets) == 1 and isinstance(s.targets[0], ast.Name)
          and s.targets[0].id == "Tv"]
    if len(tv) != 1 or not (isinstance(tv[0].value, ast.Call) and isinstance(tv[0].value.func, ast.Name)
                            and tv[0].value.func.id == "ChainTransform" and len(tv[0].value.args) == 1
                            and isinstance(tv[0].value.args[0], ast.Name) and tv[0].value.args[0].id == "T"):
        raise Unsupported("Tv = ChainTransform(T, ...)")
    tc0 = [s for s in body if isinstance(s, ast.Assign) and len(s.targets) == 1 and isinstance(s.targets[0], ast.Name)
           and s.targets[0].id == "tc0"]
    if len(tc0) != 1 or not _attr(tc0[0].value, "Tv", "param"):
        raise Unsupported("tc0 = Tv.param")
    # --- cost
    cost = [s for s in body if isinstance(s, ast.FunctionDef) and s.name == "cost"]
    if len(cost) != 1 or [a.arg for a in cost[0].args.args] != ["tc"]:
        raise Unsupported("def cost(tc)")
    cb = [s for s in cost[0].body if not (isinstance(s, ast.Expr) and isinstance(s.value, ast.Constant))]
    if len(cb) != 2:
        raise Unsupported("cost body length")
    sets = (isinstance(cb[0], ast.Assign) and len(cb[0].targets) == 1 and _attr(cb[0].targets[0], "Tv", "param")
            and isinstance(cb[0].value, ast.Name) and cb[0].value.id == "tc")
    r = cb[1]
    neg = (isinstance(r, ast.Return) and isinstance(r.value, ast.UnaryOp) and isinstance(r.value.op, ast.USub)
           and isinstance(r.value.operand, ast.Call) and _attr(r.value.operand.func, "self", "_eval")
           and len(r.value.operand.args) == 1 and isinstance(r.value.operand.args[0], ast.Name)
           and r.value.operand.args[0].id == "Tv" and not r.value.operand.keywords)
    if not sets or not neg:
        raise Unsupported("cost body: expected `Tv.param = tc; return -self._eval(Tv)`")
    # --- the optimiser run
    runs = []
    for s in body:
        if isinstance(s, ast.Assign) and _is_fmin_call(s.value):
            if len(s.targets) == 1 and _attr(s.targets[0], "Tv", "param"):
                runs.append(("FminReturn", s.lineno))
            else:
                raise Unsupported("result of fmin assigned to something else than Tv.param")
        elif isinstance(s, ast.Expr) and _is_fmin_call(s.value):
            runs.append(("InPlaceLast", s.lineno))
        else:
            for sub in ast.walk(s):
                if isinstance(sub, ast.Call) and isinstance(sub.func, ast.Name) and sub.func.id == "fmin":
                    raise Unsupported("fmin called in an unrecognised statement at line %d" % s.lineno)
    if len(runs) != 1:
        raise Unsupported("expected exactly one optimiser run, found %d" % len(runs))
    # nothing but `return Tv.optimizable` may follow the run
    idx = [k for k, s in enumerate(body) if getattr(s, "lineno", -1) == runs[0][1]][0]
    rest = body[idx + 1:]
    if not (len(rest) == 1 and isinstance(rest[0], ast.Return) and _attr(rest[0].value, "Tv", "optimizable")):
        raise Unsupported("statements after the optimiser run: expected only `return Tv.optimizable`")
    cfg = [s for s in body if isinstance(s, ast.Assign) and isinstance(s.value, ast.Call)
           and isinstance(s.value.func, ast.Name) and s.value.func.id == "configure_optimizer"]
    if len(cfg) != 1:
        raise Unsupported("configure_optimizer call")
    out = ["(* GENERATED from %s (HistogramRegistration.optimize, lines %d-%d) by harness/translate/optimizebook.py - do not edit *)"
           % (SRC, fn.lineno, fn.end_lineno),
           "From NV.Lib Require Import C09Base.",
           "(* line %d: %s *)" % (runs[0][1], "Tv.param = fmin(cost, tc0, *args, **kwargs)" if runs[0][0] == "FminReturn"
                                  else "fmin(cost, tc0, *args, **kwargs)   (result discarded)"),
           "Definition gen_optimize_binding : opt_binding := %s." % runs[0][0],
           "(* def cost(tc): Tv.param = tc; return -self._eval(Tv) *)",
           "Definition gen_cost_sets_param : bool := true.",
           "Definition gen_cost_negates_similarity : bool := true."]
    return "\n".join(out) + "\n", {"source": SRC, "binding": runs[0][0], "line": runs[0][1]}
