"""Translate nipy/algorithms/registration/joint_histogram.c into Gallina (C09).

What is parsed (everything else in the file is ignored; anything that does not
match the expected shape raises -> fail-closed):

  * the macros FLOOR, UROUND, APPEND_NEIGHBOR;
  * in joint_histogram(): the declarations (types of the locals), the
    definitions of dimJX/Y/Z and u2..u7, the `if (<inside test>)` guarding the
    neighbour code, and inside it the straight-line statements
    `nx = FLOOR(Tx) + 1; ... wx = nx - Tx; ... off = ...; W0 = ...;
    APPEND_NEIGHBOR(<offset>, <weight>); ...` up to the `interpolate(...)` call;
  * the bodies of _pv_interpolation, _tri_interpolation, _rand_interpolation:
    the control skeleton must match a fixed template, the expressions in it
    (index into H, increment, accumulations, guard, normalisation, draw, break
    condition) are translated;
  * L1_moments: the skeleton must match a template; the expressions
    (`lim`, loop condition, the three `dev` updates, `med`, final division,
    guard `n > 0`) are translated.

C expressions are parsed by a small precedence parser (ternary, &&, ==/!=,
relational, + - * /, unary -, casts (int)/(double), macro calls, `*p`, `p[0]`)
and emitted
  - over Z / Q (C integers -> Z, double -> exact Q; int->double promotion is
    `inject_Z`; `(int)x` is truncation `c_int`), and
  - for the eight weights additionally over an abstract commutative ring
    (operations as section variables), so that the algebraic theorems are
    about the source text, for every ring.
"""
import re
from fractions import Fraction

from . import register

SRC = "nipy/algorithms/registration/joint_histogram.c"


class Unsupported(Exception):
    pass


# ------------------------------------------------------------------ lexer
TOK = re.compile(r"\s*(?:(\d+\.\d*|\.\d+|\d+)|([A-Za-z_][A-Za-z0-9_]*)|(&&|\|\||==|!=|<=|>=|\+=|-=|/=|\*=|\+\+|--|->|[-+*/<>=!?:()\[\],;&{}]))")


def lex(s):
    out = []
    i = 0
    s = s.strip()
    while i < len(s):
        m = TOK.match(s, i)
        if not m or m.end() == i:
            raise Unsupported("cannot tokenise %r" % s[i:i + 20])
        if m.group(1) is not None:
            out.append(("num", m.group(1)))
        elif m.group(2) is not None:
            out.append(("id", m.group(2)))
        else:
            out.append(("op", m.group(3)))
        i = m.end()
        while i < len(s) and s[i].isspace():
            i += 1
    return out


TYPEWORDS = {"int", "double", "unsigned", "signed", "short", "long", "size_t", "const", "float"}


class P:
    """Precedence parser for the C expression subset."""

    def __init__(self, toks):
        self.t = toks
        self.i = 0

    def peek(self, k=0):
        return self.t[self.i + k] if self.i + k < len(self.t) else ("eof", "")

    def eat(self, kind=None, val=None):
        tk = self.peek()
        if (kind and tk[0] != kind) or (val is not None and tk[1] != val):
            raise Unsupported("expected %s %s, got %s" % (kind, val, tk))
        self.i += 1
        return tk

    def isop(self, v):
        tk = self.peek()
        return tk[0] == "op" and tk[1] == v

    def parse(self):
        e = self.ternary()
        if self.peek()[0] != "eof":
            raise Unsupported("trailing tokens %s" % (self.t[self.i:],))
        return e

    def ternary(self):
        c = self.lor()
        if self.isop("?"):
            self.eat()
            a = self.ternary()
            self.eat("op", ":")
            b = self.ternary()
            return ("tern", c, a, b)
        return c

    def lor(self):
        e = self.land()
        if self.isop("||"):
            raise Unsupported("|| not supported")
        return e

    def land(self):
        e = self.equality()
        while self.isop("&&"):
            self.eat()
            e = ("bin", "&&", e, self.equality())
        return e

    def equality(self):
        e = self.relational()
        while self.isop("==") or self.isop("!="):
            op = self.eat()[1]
            e = ("bin", op, e, self.relational())
        return e

    def relational(self):
        e = self.additive()
        while any(self.isop(o) for o in ("<", ">", "<=", ">=")):
            op = self.eat()[1]
            e = ("bin", op, e, self.additive())
        return e

    def additive(self):
        e = self.mult()
        while self.isop("+") or self.isop("-"):
            op = self.eat()[1]
            e = ("bin", op, e, self.mult())
        return e

    def mult(self):
        e = self.unary()
        while self.isop("*") or self.isop("/"):
            op = self.eat()[1]
            e = ("bin", op, e, self.unary())
        return e

    def unary(self):
        if self.isop("-"):
            self.eat()
            return ("neg", self.unary())
        if self.isop("+"):
            self.eat()
            return self.unary()
        if self.isop("*"):
            self.eat()
            return ("deref", self.unary())
        if self.isop("!"):
            self.eat()
            return ("not", self.unary())
        # cast?
        if self.isop("(") and self.peek(1)[0] == "id" and self.peek(1)[1] in TYPEWORDS:
            self.eat()
            words = []
            while self.peek()[0] == "id" and self.peek()[1] in TYPEWORDS:
                words.append(self.eat()[1])
            if self.isop("*"):
                raise Unsupported("pointer cast")
            self.eat("op", ")")
            return ("cast", " ".join(words), self.unary())
        return self.postfix()

    def postfix(self):
        e = self.primary()
        while True:
            if self.isop("["):
                self.eat()
                ix = self.ternary()
                self.eat("op", "]")
                e = ("index", e, ix)
            elif self.isop("(") and e[0] == "var":
                self.eat()
                args = []
                if not self.isop(")"):
                    args.append(self.ternary())
                    while self.isop(","):
                        self.eat()
                        args.append(self.ternary())
                self.eat("op", ")")
                e = ("call", e[1], args)
            else:
                return e

    def primary(self):
        tk = self.peek()
        if tk[0] == "num":
            self.eat()
            return ("num", tk[1])
        if tk[0] == "id":
            self.eat()
            return ("var", tk[1])
        if self.isop("("):
            self.eat()
            e = self.ternary()
            self.eat("op", ")")
            return e
        raise Unsupported("unexpected token %s" % (tk,))


def parse_expr(s):
    return P(lex(s)).parse()


# ------------------------------------------------------------------ emitters
def qlit(text):
    f = Fraction(text)
    return "(%d # %d)" % (f.numerator, f.denominator)


def to_q(txt, ty):
    if ty == "Q":
        return txt
    if ty == "Z":
        return "(inject_Z %s)" % txt
    raise Unsupported("cannot convert %s to Q" % ty)


class Emit:
    """Typed emission over Z/Q/bool.  env: C name -> (coq text, 'Z'|'Q');
    macros: name -> coq function Q -> Z; arrays: name -> (coq fn text, elt type)"""

    def __init__(self, env, macros=(), deref=None, arrays=None):
        self.env = env
        self.macros = dict(macros)
        self.derefs = deref or {}
        self.arrays = arrays or {}

    def e(self, n):
        k = n[0]
        if k == "num":
            if re.fullmatch(r"\d+", n[1]):
                return "(%s)%%Z" % n[1], "Z"
            return qlit(n[1]), "Q"
        if k == "var":
            if n[1] not in self.env:
                raise Unsupported("unknown variable %s" % n[1])
            return self.env[n[1]]
        if k == "neg":
            t, ty = self.e(n[1])
            return ("(Z.opp %s)" % t, "Z") if ty == "Z" else ("(Qopp %s)" % to_q(t, ty), "Q")
        if k == "not":
            t, ty = self.e(n[1])
            if ty != "B":
                raise Unsupported("! on non-boolean")
            return "(negb %s)" % t, "B"
        if k == "deref":
            if n[1][0] == "var" and n[1][1] in self.derefs:
                return self.derefs[n[1][1]]
            raise Unsupported("deref of %s" % (n[1],))
        if k == "index":
            if n[1][0] == "var" and n[1][1] in self.arrays:
                fn, ety = self.arrays[n[1][1]]
                it, ity = self.e(n[2])
                if ity != "Z":
                    raise Unsupported("non-integer index")
                return "(%s %s)" % (fn, it), ety
            if n[1][0] == "var" and n[1][1] in self.derefs and n[2] == ("num", "0"):
                return self.derefs[n[1][1]]
            raise Unsupported("index of %s" % (n[1],))
        if k == "cast":
            t, ty = self.e(n[2])
            if n[1] == "int":
                return ("(c_int %s)" % t, "Z") if ty == "Q" else (t, "Z")
            if n[1] == "double":
                return to_q(t, ty), "Q"
            raise Unsupported("cast to %s" % n[1])
        if k == "call":
            if n[1] in self.macros and len(n[2]) == 1:
                t, ty = self.e(n[2][0])
                return "(%s %s)" % (self.macros[n[1]], to_q(t, ty)), "Z"
            raise Unsupported("call of %s" % n[1])
        if k == "tern":
            c, cty = self.e(n[1])
            if cty != "B":
                raise Unsupported("non-boolean ternary condition")
            a, aty = self.e(n[2])
            b, bty = self.e(n[3])
            if aty != bty:
                a, b, aty = to_q(a, aty), to_q(b, bty), "Q"
            return "(if %s then %s else %s)" % (c, a, b), aty
        if k == "bin":
            op = n[1]
            a, aty = self.e(n[2])
            b, bty = self.e(n[3])
            if op == "&&":
                if aty != "B" or bty != "B":
                    raise Unsupported("&& on non-boolean")
                return "(andb %s %s)" % (a, b), "B"
            if aty == "B" or bty == "B":
                raise Unsupported("arithmetic on boolean")
            if op in ("+", "-", "*", "/"):
                if aty == "Z" and bty == "Z":
                    if op == "/":
                        raise Unsupported("integer division")
                    return "(%s %s %s)" % ({"+": "Z.add", "-": "Z.sub", "*": "Z.mul"}[op], a, b), "Z"
                f = {"+": "Qplus", "-": "Qminus", "*": "Qmult", "/": "Qdiv"}[op]
                return "(%s %s %s)" % (f, to_q(a, aty), to_q(b, bty)), "Q"
            if op in ("<", ">", "<=", ">=", "==", "!="):
                if aty == "Z" and bty == "Z":
                    m = {"<": "Z.ltb %s %s", ">": "Z.ltb %s %s", "<=": "Z.leb %s %s", ">=": "Z.leb %s %s",
                         "==": "Z.eqb %s %s", "!=": "negb (Z.eqb %s %s)"}[op]
                    x, y = (b, a) if op in (">", ">=") else (a, b)
                    return "(%s)" % (m % (x, y)), "B"
                a, b = to_q(a, aty), to_q(b, bty)
                m = {"<": "qltb %s %s", ">": "qltb %s %s", "<=": "Qle_bool %s %s", ">=": "Qle_bool %s %s",
                     "==": "Qeq_bool %s %s", "!=": "negb (Qeq_bool %s %s)"}[op]
                x, y = (b, a) if op in (">", ">=") else (a, b)
                return "(%s)" % (m % (x, y)), "B"
        raise Unsupported("expression %s" % (n,))


def emit_ring(n, env):
    """Emission over an abstract ring (section variables rO rI radd rmul rsub)."""
    k = n[0]
    if k == "num":
        if n[1] == "1":
            return "rI"
        if n[1] == "0":
            return "rO"
        raise Unsupported("ring literal %s" % n[1])
    if k == "var":
        if n[1] not in env:
            raise Unsupported("unknown variable %s in weight expression" % n[1])
        return env[n[1]]
    if k == "bin" and n[1] in ("+", "-", "*"):
        f = {"+": "radd", "-": "rsub", "*": "rmul"}[n[1]]
        return "(%s %s %s)" % (f, emit_ring(n[2], env), emit_ring(n[3], env))
    raise Unsupported("weight expression %s" % (n,))


# ------------------------------------------------------------------ source slicing
def strip_comments(src):
    return re.sub(r"/\*.*?\*/", " ", src, flags=re.S)


def norm(s):
    return " ".join(s.split())


def func_body(src, name):
    """Body (between the outer braces) of the *definition* of `name`."""
    for m in re.finditer(r"\b%s\s*\(" % re.escape(name), src):
        # find matching ')'
        i = m.end()
        d = 1
        while d:
            c = src[i]
            d += (c == "(") - (c == ")")
            i += 1
        j = i
        while src[j].isspace():
            j += 1
        if src[j] != "{":
            continue
        k = j + 1
        d = 1
        while d:
            c = src[k]
            d += (c == "{") - (c == "}")
            k += 1
        return src[j + 1:k - 1]
    raise Unsupported("definition of %s not found" % name)


def macro(src_raw, name):
    """Text of a #define (with line continuations joined)."""
    m = re.search(r"^[ \t]*#define[ \t]+%s\(([^)]*)\)((?:.*\\\n)*.*)$" % re.escape(name), src_raw, re.M)
    if not m:
        raise Unsupported("macro %s not found" % name)
    return [a.strip() for a in m.group(1).split(",")], norm(m.group(2).replace("\\\n", " "))


def must(pattern, text, what):
    m = re.fullmatch(pattern, text, re.S)
    if not m:
        raise Unsupported("%s does not have the expected shape: %r" % (what, text[:400]))
    return m


# ------------------------------------------------------------------ the translation
def translate_text(raw):
    src = strip_comments(raw)
    out = []
    meta = {"source": SRC}

    def w(line):
        if line.startswith("(*") and line.endswith("*)"):
            inner = line[2:-2].replace("(*", "( *").replace("*)", "* )")
            line = "(*" + inner + "*)"
        out.append(line)
    w("(* GENERATED from %s by harness/translate/jointhist.py - do not edit *)" % SRC)
    w("From Coq Require Import ZArith QArith List Bool.")
    w("From NV.Lib Require Import C09Base.")
    w("Import ListNotations.")
    w("Close Scope Q_scope.")
    w("")

    # ---- macros
    args, body = macro(raw, "FLOOR")
    if args != ["a"]:
        raise Unsupported("FLOOR args")
    em = Emit({"a": ("a", "Q")})
    t, ty = em.e(parse_expr(body))
    if ty != "Z":
        raise Unsupported("FLOOR does not yield an int")
    w("(* #define FLOOR(a) %s *)" % body)
    w("Definition c_FLOOR (a : Q) : Z := %s." % t)
    args, body = macro(raw, "UROUND")
    if args != ["a"]:
        raise Unsupported("UROUND args")
    t, ty = em.e(parse_expr(body))
    if ty != "Z":
        raise Unsupported("UROUND does not yield an int")
    w("(* #define UROUND(a) %s *)" % body)
    w("Definition c_UROUND (a : Q) : Z := %s." % t)
    macros = {"FLOOR": "c_FLOOR", "UROUND": "c_UROUND"}
    args, body = macro(raw, "APPEND_NEIGHBOR")
    m = must(r"j = J\[q\]; if \((.+?)\) \{ \*bufJnn = j; bufJnn \+\+; \*bufW = w; bufW \+\+; nn \+\+; \}", body,
             "APPEND_NEIGHBOR")
    if args != ["q", "w"]:
        raise Unsupported("APPEND_NEIGHBOR args")
    t, ty = Emit({"j": ("j", "Z")}).e(parse_expr(m.group(1)))
    if ty != "B":
        raise Unsupported("APPEND_NEIGHBOR condition")
    w("(* APPEND_NEIGHBOR(q, w): j = J[q]; if (%s) { append (j, w) } *)" % m.group(1))
    w("Definition gen_append_cond (j : Z) : bool := %s." % t)
    w("")

    # ---- joint_histogram()
    jb = func_body(src, "joint_histogram")
    decl = {}
    for m in re.finditer(r"(?:^|(?<=[;{]))\s*(const\s+)?(double|int|size_t|signed short|unsigned int)\s+([^;()]*?);", jb):
        for part in m.group(3).split(","):
            nm = part.split("=")[0].strip()
            if nm.startswith("*"):
                continue
            if re.fullmatch(r"[A-Za-z_]\w*", nm):
                decl[nm] = m.group(2)
    need = {"wx": "double", "wy": "double", "wz": "double", "wxwy": "double", "wxwz": "double", "wywz": "double",
            "W0": "double", "W2": "double", "W3": "double", "W4": "double", "Tx": "double", "Ty": "double",
            "Tz": "double", "nx": "int", "ny": "int", "nz": "int", "nn": "int", "i": "signed short",
            "j": "signed short", "off": "size_t", "u2": "size_t", "u3": "size_t", "u4": "size_t", "u5": "size_t",
            "u6": "size_t", "u7": "size_t", "dimJX": "size_t", "dimJY": "size_t", "dimJZ": "size_t"}
    for k, v in need.items():
        if decl.get(k) != v:
            raise Unsupported("declaration of %s: expected %s, found %s" % (k, v, decl.get(k)))
    meta["declared"] = {k: decl[k] for k in sorted(need)}

    def getdef(name):
        m = re.search(r"\b(?:size_t|double|int)\s+%s\s*=\s*([^;,]+);" % name, jb)
        if not m:
            raise Unsupported("definition of %s" % name)
        return m.group(1).strip()

    dim_arr = ("dimJ", {"0": "d0", "1": "d1", "2": "d2"})

    def dim_sub(s):
        def r(m):
            if m.group(1) not in dim_arr[1]:
                raise Unsupported("dimJ index")
            return dim_arr[1][m.group(1)]
        return re.sub(r"dimJ\[(\d)\]", r, s)

    # dims
    w("(* padded dims d0 d1 d2 = dimJ[0..2] *)")
    for nm in ("dimJX", "dimJY", "dimJZ"):
        t, ty = Emit({"d0": ("d0", "Z"), "d1": ("d1", "Z"), "d2": ("d2", "Z")}).e(parse_expr(dim_sub(getdef(nm))))
        w("Definition gen_%s (d0 d1 d2 : Z) : Z := %s." % (nm, t))
    # strides u2..u7 as a let chain
    uenv = {"d0": ("d0", "Z"), "d1": ("d1", "Z"), "d2": ("d2", "Z")}
    lets = []
    for nm in ("u2", "u3", "u4", "u5", "u6", "u7"):
        t, ty = Emit(uenv).e(parse_expr(dim_sub(getdef(nm))))
        if ty != "Z":
            raise Unsupported("stride type")
        lets.append("let %s := %s in" % (nm, t))
        uenv[nm] = (nm, "Z")
    ulets = " ".join(lets)

    # inside test and the block it guards
    m = re.search(r"if\s*\(\s*(\(i\s*>=.*?)\)\s*\{(.*?)interpolate\s*\(\s*i\s*,\s*H\s*,\s*clampJ\s*,\s*Jnn\s*,\s*W\s*,\s*nn\s*,\s*interp_params\s*\)\s*;\s*\}",
                  jb, re.S)
    if not m:
        raise Unsupported("inside test / neighbour block not found")
    cond, block = norm(m.group(1)), m.group(2)
    ienv = {"i": ("i", "Z"), "Tx": ("Tx", "Q"), "Ty": ("Ty", "Q"), "Tz": ("Tz", "Q"),
            "dimJX": ("(gen_dimJX d0 d1 d2)", "Z"), "dimJY": ("(gen_dimJY d0 d1 d2)", "Z"),
            "dimJZ": ("(gen_dimJZ d0 d1 d2)", "Z")}
    t, ty = Emit(ienv).e(parse_expr(cond))
    if ty != "B":
        raise Unsupported("inside test type")
    w("(* if (%s) *)" % cond)
    w("Definition gen_inside (i : Z) (Tx Ty Tz : Q) (d0 d1 d2 : Z) : bool := %s." % t)
    meta["inside_test"] = cond

    stmts = [norm(s) for s in block.split(";") if s.strip()]
    assigns = []          # (name, expr text) in order
    neigh = []            # (offset expr text, weight expr text)
    for s in stmts:
        ma = re.fullmatch(r"([A-Za-z_]\w*) = (.+)", s)
        mn = re.fullmatch(r"APPEND_NEIGHBOR\((.+), ([^,]+)\)", s)
        if mn:
            neigh.append((mn.group(1).strip(), mn.group(2).strip()))
        elif ma:
            if neigh and ma.group(1) in ("nx", "ny", "nz", "wx", "wy", "wz", "off"):
                raise Unsupported("coordinate assignment after neighbours started")
            assigns.append((ma.group(1), ma.group(2), len(neigh)))
        else:
            raise Unsupported("statement in neighbour block: %r" % s)
    if len(neigh) != 8:
        raise Unsupported("expected 8 APPEND_NEIGHBOR, found %d" % len(neigh))
    names = [a[0] for a in assigns]
    if sorted(names) != sorted(set(names)):
        raise Unsupported("variable assigned twice in neighbour block")
    ad = {a[0]: a[1] for a in assigns}
    for nm in ("nx", "ny", "nz", "wx", "wy", "wz", "bufJnn", "bufW", "off", "nn"):
        if nm not in ad:
            raise Unsupported("missing assignment to %s" % nm)
    if ad["bufJnn"] != "Jnn" or ad["bufW"] != "W" or ad["nn"] != "0":
        raise Unsupported("buffer initialisation")
    # nx = FLOOR(Tx) + 1
    for nm, T in (("nx", "Tx"), ("ny", "Ty"), ("nz", "Tz")):
        t, ty = Emit({T: ("T", "Q")}, macros).e(parse_expr(ad[nm]))
        if ty != "Z":
            raise Unsupported("type of %s" % nm)
        w("(* %s = %s *)" % (nm, ad[nm]))
        w("Definition gen_%s (T : Q) : Z := %s." % (nm, t))
    # off
    t, ty = Emit(dict(uenv, nx=("nx", "Z"), ny=("ny", "Z"), nz=("nz", "Z"))).e(parse_expr(ad["off"]))
    if ty != "Z":
        raise Unsupported("type of off")
    w("(* off = %s *)" % ad["off"])
    w("Definition gen_off (d0 d1 d2 nx ny nz : Z) : Z := %s %s." % (ulets, t))
    # offsets
    offs = []
    for o, _ in neigh:
        t, ty = Emit(dict(uenv, off=("off", "Z"))).e(parse_expr(o))
        if ty != "Z":
            raise Unsupported("offset type")
        offs.append(t)
    w("(* neighbour offsets: %s *)" % ", ".join(o for o, _ in neigh))
    w("Definition gen_offsets (d0 d1 d2 off : Z) : list Z := %s [%s]." % (ulets, "; ".join(offs)))
    meta["offsets"] = [o for o, _ in neigh]
    meta["weights"] = [x for _, x in neigh]
    # weights over an abstract ring: let-chain of the double assignments, interleaved in source order
    renv = {"nx": "nx", "ny": "ny", "nz": "nz", "Tx": "Tx", "Ty": "Ty", "Tz": "Tz"}
    chain = []
    wexprs = []
    skip = {"nx", "ny", "nz", "bufJnn", "bufW", "off", "nn"}
    k = 0
    pend = [a for a in assigns if a[0] not in skip]
    for idx, (o, wt) in enumerate(neigh):
        while pend and pend[0][2] <= idx:
            nm, ex, _ = pend.pop(0)
            if decl.get(nm) != "double":
                raise Unsupported("non-double local %s in weight chain" % nm)
            chain.append("let %s := %s in" % (nm, emit_ring(parse_expr(ex), renv)))
            renv[nm] = nm
        wexprs.append(emit_ring(parse_expr(wt), renv))
    if pend:
        raise Unsupported("assignment after last neighbour")
    w("")
    w("(* %s *)" % "; ".join("%s = %s" % (a[0], a[1]) for a in assigns if a[0] not in skip))
    w("Definition gen_weights (R : Type) (rO rI : R) (radd rmul rsub : R -> R -> R) (nx ny nz Tx Ty Tz : R) : list R :=")
    for c in chain:
        w("  " + c)
    w("  [%s]." % ";\n   ".join(wexprs))
    w("")

    # ---- _pv_interpolation
    pb = norm(func_body(src, "_pv_interpolation"))
    m = must(r"int k; unsigned int clampJ_i = (.+?); const signed short \*bufJ = J; const double \*bufW = W; "
             r"for\(k=0; k<nn; k\+\+, bufJ\+\+, bufW\+\+\) H\[(.+?)\] \+= (.+?); return;", pb, "_pv_interpolation")
    cj = parse_expr(m.group(1))
    envI = {"clampJ": ("clampJ", "Z"), "i": ("i", "Z")}
    cjt, ty = Emit(envI).e(cj)
    if ty != "Z":
        raise Unsupported("clampJ_i type")
    em = Emit({"clampJ_i": (cjt, "Z")}, macros, deref={"bufJ": ("j", "Z"), "bufW": ("w", "Q")})
    t, ty = em.e(parse_expr(m.group(2)))
    if ty != "Z":
        raise Unsupported("pv index type")
    w("(* _pv_interpolation: clampJ_i = %s; H[%s] += %s *)" % (m.group(1), m.group(2), m.group(3)))
    w("Definition gen_pv_index (j clampJ i : Z) : Z := %s." % t)
    t, ty = em.e(parse_expr(m.group(3)))
    w("Definition gen_pv_incr (j : Z) (w : Q) : Q := %s." % to_q(t, ty))
    meta["pv"] = [m.group(1), m.group(2), m.group(3)]

    # ---- _tri_interpolation
    tb = norm(func_body(src, "_tri_interpolation"))
    m = must(r"int k; unsigned int clampJ_i = (.+?); const signed short \*bufJ = J; const double \*bufW = W; "
             r"double jm, sumW; for\(k=0, sumW=0\.0, jm=0\.0; k<nn; k\+\+, bufJ\+\+, bufW\+\+\) \{ "
             r"sumW \+= (.+?); jm \+= (.+?); \} if \((.+?)\) \{ jm /= (.+?); H\[(.+?)\] \+= (.+?); \} return;",
             tb, "_tri_interpolation")
    cjt, ty = Emit(envI).e(parse_expr(m.group(1)))
    em = Emit({"clampJ_i": (cjt, "Z"), "sumW": ("sumW", "Q"), "jm": ("jm", "Q")}, macros,
              deref={"bufJ": ("j", "Z"), "bufW": ("w", "Q")})
    t, ty = em.e(parse_expr(m.group(2)))
    w("(* _tri_interpolation: sumW += %s; jm += %s; if (%s) { jm /= %s; H[%s] += %s } *)" % m.groups()[1:])
    w("Definition gen_tri_dsum (j : Z) (w : Q) : Q := %s." % to_q(t, ty))
    t, ty = em.e(parse_expr(m.group(3)))
    w("Definition gen_tri_djm (j : Z) (w : Q) : Q := %s." % to_q(t, ty))
    t, ty = em.e(parse_expr(m.group(4)))
    if ty != "B":
        raise Unsupported("tri guard")
    w("Definition gen_tri_guard (sumW : Q) : bool := %s." % t)
    t, ty = em.e(parse_expr(m.group(5)))
    w("Definition gen_tri_norm (jm sumW : Q) : Q := Qdiv jm %s." % to_q(t, ty))
    t, ty = em.e(parse_expr(m.group(6)))
    if ty != "Z":
        raise Unsupported("tri index type")
    w("Definition gen_tri_index (jm : Q) (clampJ i : Z) : Z := %s." % t)
    t, ty = em.e(parse_expr(m.group(7)))
    w("Definition gen_tri_incr : Q := %s." % to_q(t, ty))
    meta["tri"] = list(m.groups())

    # ---- _rand_interpolation
    rb = norm(func_body(src, "_rand_interpolation"))
    m = must(r"prng_state\* rng = \(prng_state\*\)params; int k; unsigned int clampJ_i = (.+?); const double \*bufW; "
             r"double sumW, draw; for\(k=0, bufW=W, sumW=0\.0; k<nn; k\+\+, bufW\+\+\) sumW \+= (.+?); "
             r"if \((.+?)\) return; draw = (.+?); for\(k=0, bufW=W, sumW=0\.0; k<nn; k\+\+, bufW\+\+\) \{ sumW \+= (.+?); "
             r"if \((.+?)\) break; \} H\[(.+?)\] \+= (.+?); return;", rb, "_rand_interpolation")
    cjt, ty = Emit(envI).e(parse_expr(m.group(1)))
    em = Emit({"clampJ_i": (cjt, "Z"), "sumW": ("sumW", "Q"), "draw": ("draw", "Q"), "k": ("k", "Z")}, macros,
              deref={"bufW": ("w", "Q")}, arrays={"J": ("jbuf", "Z")})
    w("(* _rand_interpolation: sumW += %s; if (%s) return; draw = %s; sumW += %s; if (%s) break; H[%s] += %s *)" % m.groups()[1:])
    t, ty = em.e(parse_expr(m.group(2)))
    w("Definition gen_rand_dsum1 (w : Q) : Q := %s." % to_q(t, ty))
    t, ty = em.e(parse_expr(m.group(3)))
    if ty != "B":
        raise Unsupported("rand early-return guard")
    w("Definition gen_rand_skip (sumW : Q) : bool := %s." % t)
    dr = m.group(4)
    md = re.fullmatch(r"(.+)\*prng_double\(rng\)", dr)
    if not md:
        raise Unsupported("draw expression %r" % dr)
    t, ty = Emit({"sumW": ("sumW", "Q"), "u": ("u", "Q")}).e(("bin", "*", parse_expr(md.group(1)), ("var", "u")))
    w("Definition gen_rand_draw (sumW u : Q) : Q := %s." % to_q(t, ty))
    t, ty = em.e(parse_expr(m.group(5)))
    w("Definition gen_rand_dsum2 (w : Q) : Q := %s." % to_q(t, ty))
    t, ty = em.e(parse_expr(m.group(6)))
    if ty != "B":
        raise Unsupported("rand break")
    w("Definition gen_rand_break (sumW draw : Q) : bool := %s." % t)
    t, ty = em.e(parse_expr(m.group(7)))
    if ty != "Z":
        raise Unsupported("rand index type")
    w("Definition gen_rand_index (jbuf : Z -> Z) (k clampJ i : Z) : Z := %s." % t)
    t, ty = em.e(parse_expr(m.group(8)))
    w("Definition gen_rand_incr : Q := %s." % to_q(t, ty))
    meta["rand"] = list(m.groups())
    w("")

    # ---- L1_moments
    lb = norm(func_body(src, "L1_moments"))
    m = must(r".*?n = median = dev = 0; cpdf = 0; buf = h; for \(i=0; i<size; i\+\+, buf\+=offset\) n \+= (.+?); "
             r"if \((.+?)\) \{ lim = (.+?); i = 0; buf = h; cpdf = (.+?); dev = 0; "
             r"while \((.+?)\) \{ i \+\+; buf \+= offset; cpdf \+= (.+?); dev \+= (.+?); \} "
             r"median = (.+?); dev \+= (.+?); med = (.+?); "
             r"if \((.+?)\) \{ buf = h \+ med\*offset; for \(i=med; i<size; i \+\+, buf \+= offset\) dev \+= (.+?); \} "
             r"dev /= (.+?); \} n_\[0\] = n; median_\[0\] = median; dev_\[0\] = dev; return 0;", lb, "L1_moments")
    g = m.groups()
    env = {"n": ("n", "Q"), "lim": ("lim", "Q"), "cpdf": ("cpdf", "Q"), "dev": ("dev", "Q"),
           "median": ("median", "Q"), "i": ("i", "Z"), "med": ("med", "Z"), "size": ("size", "Z")}
    em = Emit(env, macros, deref={"buf": ("b", "Q")})
    w("(* L1_moments: n += %s; if (%s) { lim = %s; cpdf = %s; while (%s) { i++; cpdf += %s; dev += %s; } "
      "median = %s; dev += %s; med = %s; if (%s) for (i=med..) dev += %s; dev /= %s } *)" % g)

    def q(s):
        t, ty = em.e(parse_expr(s))
        return to_q(t, ty)

    def bexp(s):
        t, ty = em.e(parse_expr(s))
        if ty != "B":
            raise Unsupported("expected boolean: %s" % s)
        return t

    def zexp(s):
        t, ty = em.e(parse_expr(s))
        if ty != "Z":
            raise Unsupported("expected int: %s" % s)
        return t
    w("Definition gen_l1_dn (b : Q) : Q := %s." % q(g[0]))
    w("Definition gen_l1_guard (n : Q) : bool := %s." % bexp(g[1]))
    w("Definition gen_l1_lim (n : Q) : Q := %s." % q(g[2]))
    w("Definition gen_l1_cpdf0 (b : Q) : Q := %s." % q(g[3]))
    w("Definition gen_l1_cont (cpdf lim : Q) : bool := %s." % bexp(g[4]))
    w("Definition gen_l1_dcpdf (b : Q) : Q := %s." % q(g[5]))
    w("Definition gen_l1_ddev1 (i : Z) (b : Q) : Q := %s." % q(g[6]))
    w("Definition gen_l1_median (i : Z) : Q := %s." % q(g[7]))
    w("Definition gen_l1_ddev2 (cpdf n median : Q) : Q := %s." % q(g[8]))
    w("Definition gen_l1_med (i : Z) : Z := %s." % zexp(g[9]))
    w("Definition gen_l1_tailguard (med size : Z) : bool := %s." % bexp(g[10]))
    w("Definition gen_l1_ddev3 (i : Z) (b : Q) : Q := %s." % q(g[11]))
    w("Definition gen_l1_div (n : Q) : Q := %s." % q(g[12]))
    meta["L1_moments"] = list(g)
    return "\n".join(out) + "\n", meta


@register("JointHist.v", ["C09"])
def translate(repo):
    raw = (repo / SRC).read_text()
    return translate_text(raw)
