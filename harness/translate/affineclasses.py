"""Translate the table-like and straight-line parts of
nipy/algorithms/registration/affine.py and chain_transform.py into Gallina
(coq/Generated/AffineClasses.v, types in coq/Lib/C08Base.v):

  * every class deriving (transitively) from `Affine`: `param_inds`
    (`list(range(n))` or a list literal), the `_set_param` index fan-out
    (targets, sources) and the owner of `from_matrix44`, resolved through
    single inheritance;
  * `Affine.compose`: the if/elif/else chain selecting `klass` (subset tests
    on the two `param_inds` sets; a set method that does not exist is emitted
    as `TestRaises "<name>"`), and the operand order of the matrix product;
  * `preconditioner()` as a symbolic 12-vector, and the arithmetic operator of
    `_get_param` (`/`) and `_set_param` (`*`);
  * `to_matrix44`: the expression assigned to `T[0:3,0:3]` for size 6, 7 and
    otherwise, as a product tree over rotation / diagonal-exp factors;
  * `as_affine`: for which value of `_direct` the linear part is negated;
  * the three `from_matrix44` bodies as event lists (sign fixes guarded by
    `det(.) < 0`, `_direct = False`, the point where each rotation vector is
    taken);
  * `ChainTransform.apply`: the nested `.compose` expression.

Fail-closed: any statement or expression outside these shapes raises
`Unsupported`; the generated file then lacks the definitions and the proofs
that mention them fail.
"""
import ast

from . import register

SRC = "nipy/algorithms/registration/affine.py"
SRC_CHAIN = "nipy/algorithms/registration/chain_transform.py"
SRC_TRANSFORM = "nipy/algorithms/registration/transform.py"
SRC_POLY = "nipy/algorithms/registration/polyaffine.py"


class Unsupported(Exception):
    pass


def _name(n, s=None):
    return isinstance(n, ast.Name) and (s is None or n.id == s)


def _attr(n, base, attr):
    return isinstance(n, ast.Attribute) and _name(n.value, base) and n.attr == attr


def _const(n, v=None):
    return isinstance(n, ast.Constant) and (v is None or (n.value == v and type(n.value) == type(v)))


def _int(n):
    if isinstance(n, ast.Constant) and type(n.value) is int:
        return n.value
    raise Unsupported("integer literal expected: " + ast.dump(n))


def _call(n, fname=None, nargs=None):
    """Call of a plain name `fname(...)`."""
    return isinstance(n, ast.Call) and _name(n.func, fname) and (nargs is None or len(n.args) == nargs) and not n.keywords


def _modcall(n, mod, fname, nargs=None):
    return isinstance(n, ast.Call) and _attr(n.func, mod, fname) and (nargs is None or len(n.args) == nargs) and not n.keywords


def _strip_doc(stmts):
    return [s for s in stmts if not (isinstance(s, ast.Expr) and isinstance(s.value, ast.Constant))]


def int_list(n):
    """list(range(k)) or [i, j, ...] -> python list of ints"""
    if _call(n, "list", 1) and _call(n.args[0], "range", 1):
        return list(range(_int(n.args[0].args[0])))
    if isinstance(n, ast.List):
        return [_int(e) for e in n.elts]
    raise Unsupported("index list: " + ast.dump(n))


def _slice(n, base):
    """base[a:b] (1-D) -> (a, b); a missing lower bound is 0"""
    if isinstance(n, ast.Subscript) and _name(n.value, base) and isinstance(n.slice, ast.Slice) and n.slice.step is None:
        lo = 0 if n.slice.lower is None else _int(n.slice.lower)
        return lo, _int(n.slice.upper)
    raise Unsupported("slice of %s: %s" % (base, ast.dump(n)))


def _is_lin_block(n, base):
    """base[0:3, 0:3] or base[:3, :3]"""
    if isinstance(n, ast.Subscript) and _name(n.value, base) and isinstance(n.slice, ast.Tuple) and len(n.slice.elts) == 2:
        for s in n.slice.elts:
            if not (isinstance(s, ast.Slice) and s.step is None and (s.lower is None or _const(s.lower, 0)) and _const(s.upper, 3)):
                return False
        return True
    return False


def _is_trans_col(n, base):
    """base[:3, 3] / base[0:3, 3]"""
    if isinstance(n, ast.Subscript) and _name(n.value, base) and isinstance(n.slice, ast.Tuple) and len(n.slice.elts) == 2:
        a, b = n.slice.elts
        return isinstance(a, ast.Slice) and a.step is None and (a.lower is None or _const(a.lower, 0)) and _const(a.upper, 3) and _const(b, 3)
    return False


# ------------------------------------------------------------------ classes
def set_param_fanout(fn, inds):
    """_set_param body -> (targets, sources)"""
    body = _strip_doc(fn.body)
    if [a.arg for a in fn.args.args] != ["self", "p"]:
        raise Unsupported("_set_param signature")
    if not (len(body) >= 2 and isinstance(body[0], ast.Assign) and _name(body[0].targets[0], "p")
            and _modcall(body[0].value, "np", "asarray", 1) and _name(body[0].value.args[0], "p")):
        raise Unsupported("_set_param: expected p = np.asarray(p)")
    rest = body[1:]
    env = {}
    if len(rest) == 2 and isinstance(rest[0], ast.Assign) and _name(rest[0].targets[0], "inds") \
            and _attr(rest[0].value, "self", "param_inds"):
        env["inds"] = list(inds)
        rest = rest[1:]
    if len(rest) != 1 or not isinstance(rest[0], ast.Assign) or len(rest[0].targets) != 1:
        raise Unsupported("_set_param: single assignment expected")
    tgt, val = rest[0].targets[0], rest[0].value

    def idx(n):
        if isinstance(n, ast.Name) and n.id in env:
            return env[n.id]
        return int_list(n)
    if not (isinstance(tgt, ast.Subscript) and _attr(tgt.value, "self", "_vec12")):
        raise Unsupported("_set_param target")
    targets = idx(tgt.slice)
    if not (isinstance(val, ast.BinOp)):
        raise Unsupported("_set_param value")
    op = {ast.Mult: "PMul", ast.Div: "PDiv"}.get(type(val.op))
    if op is None:
        raise Unsupported("_set_param operator")
    l, r = val.left, val.right
    if _name(l, "p"):
        sources = list(range(len(targets)))
    elif isinstance(l, ast.Subscript) and _name(l.value, "p"):
        sources = int_list(l.slice)
    else:
        raise Unsupported("_set_param left operand")
    if not (isinstance(r, ast.Subscript) and _attr(r.value, "self", "_precond") and idx(r.slice) == targets):
        raise Unsupported("_set_param right operand must be self._precond[<targets>]")
    if len(sources) != len(targets):
        raise Unsupported("_set_param fan-out lengths")
    return targets, sources, op


def get_param_op(fn):
    body = _strip_doc(fn.body)
    if not (len(body) == 2 and isinstance(body[0], ast.Assign) and _name(body[0].targets[0], "param")
            and isinstance(body[0].value, ast.BinOp) and _attr(body[0].value.left, "self", "_vec12")
            and _attr(body[0].value.right, "self", "_precond")
            and isinstance(body[1], ast.Return) and isinstance(body[1].value, ast.Subscript)
            and _name(body[1].value.value, "param") and _attr(body[1].value.slice, "self", "param_inds")):
        raise Unsupported("_get_param shape")
    op = {ast.Mult: "PMul", ast.Div: "PDiv"}.get(type(body[0].value.op))
    if op is None:
        raise Unsupported("_get_param operator")
    return op


def preconditioner(fn):
    body = _strip_doc(fn.body)
    if [a.arg for a in fn.args.args] != ["radius"]:
        raise Unsupported("preconditioner signature")
    syms = {}
    for s in body[:-1]:
        if not (isinstance(s, ast.Assign) and isinstance(s.targets[0], ast.Name) and isinstance(s.value, ast.BinOp)
                and isinstance(s.value.op, ast.Div) and isinstance(s.value.left, ast.Constant) and s.value.left.value == 1
                and _name(s.value.right, "radius")):
            raise Unsupported("preconditioner assignment: " + ast.dump(s))
        syms[s.targets[0].id] = {"rad": "PRad", "sca": "PSca"}.get(s.targets[0].id)
        if syms[s.targets[0].id] is None:
            raise Unsupported("preconditioner variable " + s.targets[0].id)
    r = body[-1]
    if not (isinstance(r, ast.Return) and _modcall(r.value, "np", "array", 1) and isinstance(r.value.args[0], ast.List)):
        raise Unsupported("preconditioner return")
    out = []
    for e in r.value.args[0].elts:
        if isinstance(e, ast.Constant) and e.value == 1:
            out.append("POne")
        elif isinstance(e, ast.Name) and e.id in syms:
            out.append(syms[e.id])
        else:
            raise Unsupported("preconditioner entry")
    if len(out) != 12:
        raise Unsupported("preconditioner length")
    return out


# ------------------------------------------------------------------ compose
def compose_chain(fn, classnames):
    body = _strip_doc(fn.body)
    if [a.arg for a in fn.args.args] != ["self", "other"]:
        raise Unsupported("compose signature")
    # leading dispatch on non-affine `other`
    if not (isinstance(body[0], ast.If) and isinstance(body[0].test, ast.UnaryOp) and isinstance(body[0].test.op, ast.Not)
            and _call(body[0].test.operand, "hasattr", 2) and _name(body[0].test.operand.args[0], "other")
            and _const(body[0].test.operand.args[1], "as_affine")):
        raise Unsupported("compose: expected `if not hasattr(other, 'as_affine')` first")
    rest = body[1:]
    names = {}
    chain = None
    tail = []
    for s in rest:
        if chain is None and isinstance(s, ast.Assign) and len(s.targets) == 1 and isinstance(s.targets[0], ast.Name):
            v = s.value
            if _call(v, "set", 1) and isinstance(v.args[0], ast.Attribute) and v.args[0].attr == "param_inds" \
                    and isinstance(v.args[0].value, ast.Name) and v.args[0].value.id in ("self", "other"):
                names[s.targets[0].id] = v.args[0].value.id
                continue
            if isinstance(v, ast.Call) and _attr(v.func, "other", "as_affine") and not v.args:
                names[s.targets[0].id] = "other_aff"
                continue
            raise Unsupported("compose assignment: " + ast.dump(s))
        if chain is None and isinstance(s, ast.If):
            chain = s
            continue
        tail.append(s)
    if chain is None:
        raise Unsupported("compose: no class-selection if")

    def choice(stmts):
        if not (len(stmts) == 1 and isinstance(stmts[0], ast.Assign) and _name(stmts[0].targets[0], "klass")):
            raise Unsupported("compose branch: expected `klass = ...`")
        v = stmts[0].value
        if _attr(v, "self", "__class__"):
            return "KSelf"
        if _attr(v, "other", "__class__"):
            return "KOther"
        if isinstance(v, ast.Name) and v.id in classnames:
            return '(KConst "%s")' % v.id
        raise Unsupported("compose branch value: " + ast.dump(v))

    def test(t):
        if not (isinstance(t, ast.Call) and isinstance(t.func, ast.Attribute) and isinstance(t.func.value, ast.Name)
                and len(t.args) == 1 and isinstance(t.args[0], ast.Name) and not t.keywords):
            raise Unsupported("compose test: " + ast.dump(t))
        a = names.get(t.func.value.id)
        b = names.get(t.args[0].id)
        if {a, b} != {"self", "other"}:
            raise Unsupported("compose test operands")
        m = t.func.attr
        if m == "issubset":
            return "SelfSubOther" if a == "self" else "OtherSubSelf"
        if m == "issuperset":
            return "OtherSubSelf" if a == "self" else "SelfSubOther"
        if not hasattr(set, m):
            return '(TestRaises "%s")' % m
        raise Unsupported("compose test method set.%s" % m)

    branches = []
    node = chain
    while True:
        branches.append((test(node.test), choice(node.body)))
        if len(node.orelse) == 1 and isinstance(node.orelse[0], ast.If):
            node = node.orelse[0]
            continue
        if not node.orelse:
            raise Unsupported("compose: chain without else")
        default = choice(node.orelse)
        break
    # tail: a = klass(); a._precond[:] = self._precond[:]; a.from_matrix44(np.dot(self.as_affine(), other_aff)); return a
    if len(tail) != 4:
        raise Unsupported("compose tail length %d" % len(tail))
    if not (isinstance(tail[0], ast.Assign) and _name(tail[0].targets[0], "a") and _call(tail[0].value, "klass", 0)):
        raise Unsupported("compose: a = klass()")
    c = tail[2]
    if not (isinstance(c, ast.Expr) and isinstance(c.value, ast.Call) and _attr(c.value.func, "a", "from_matrix44")
            and len(c.value.args) == 1 and _modcall(c.value.args[0], "np", "dot", 2)):
        raise Unsupported("compose: a.from_matrix44(np.dot(...))")

    def operand(n):
        if isinstance(n, ast.Call) and _attr(n.func, "self", "as_affine") and not n.args:
            return "self"
        if isinstance(n, ast.Call) and _attr(n.func, "other", "as_affine") and not n.args:
            return "other"
        if isinstance(n, ast.Name) and names.get(n.id) == "other_aff":
            return "other"
        raise Unsupported("compose product operand")
    ops = [operand(x) for x in c.value.args[0].args]
    if sorted(ops) != ["other", "self"]:
        raise Unsupported("compose product operands")
    if not (isinstance(tail[3], ast.Return) and _name(tail[3].value, "a")):
        raise Unsupported("compose: return a")
    return branches, default, ops[0] == "self"


# ------------------------------------------------------------------ to_matrix44 / as_affine
def to_matrix44(fn):
    body = _strip_doc(fn.body)
    env = {}
    branches = {}
    default = None
    trans = None

    def mex(n, env):
        if isinstance(n, ast.Name) and n.id in env:
            return env[n.id]
        if _call(n, "rotation_vec2mat", 1):
            lo, hi = _slice(n.args[0], "t")
            if hi - lo != 3:
                raise Unsupported("rotation slice")
            return "(MRot %d)" % lo
        if _modcall(n, "np", "diag", 1) and _modcall(n.args[0], "np", "exp", 1) and _call(n.args[0].args[0], "threshold", 2) \
                and _name(n.args[0].args[0].args[1], "LOG_MAX_DIST"):
            lo, hi = _slice(n.args[0].args[0].args[0], "t")
            if hi - lo != 3:
                raise Unsupported("scale slice")
            return "(MDiagExp %d)" % lo
        if _modcall(n, "np", "dot", 2):
            return "(MDot %s %s)" % (mex(n.args[0], env), mex(n.args[1], env))
        if isinstance(n, ast.BinOp) and isinstance(n.op, ast.Mult) and isinstance(n.left, ast.Subscript) \
                and _name(n.left.value, "t"):
            return "(MScaleBy %d %s)" % (_int(n.left.slice), mex(n.right, env))
        raise Unsupported("to_matrix44 expression: " + ast.dump(n))

    def block(stmts, env):
        env = dict(env)
        res = None
        for s in stmts:
            if isinstance(s, ast.Assign) and len(s.targets) == 1 and isinstance(s.targets[0], ast.Name):
                env[s.targets[0].id] = mex(s.value, env)
            elif isinstance(s, ast.Assign) and len(s.targets) == 1 and _is_lin_block(s.targets[0], "T"):
                res = mex(s.value, env)
            else:
                raise Unsupported("to_matrix44 branch statement: " + ast.dump(s))
        if res is None:
            raise Unsupported("to_matrix44 branch without T[0:3,0:3] assignment")
        return res

    seen_if = False
    for s in body:
        if isinstance(s, ast.Assign) and _name(s.targets[0], "size") and _attr(s.value, "t", "size"):
            continue
        if isinstance(s, ast.Assign) and _name(s.targets[0], "T") and isinstance(s.value, ast.Call) \
                and _attr(s.value.func, "np", "eye") and len(s.value.args) == 1 and _const(s.value.args[0], 4):
            continue
        if isinstance(s, ast.Assign) and isinstance(s.targets[0], ast.Name) and not seen_if:
            env[s.targets[0].id] = mex(s.value, env)
            continue
        if isinstance(s, ast.If) and not seen_if:
            seen_if = True
            node = s
            while True:
                t = node.test
                if not (isinstance(t, ast.Compare) and _name(t.left, "size") and len(t.ops) == 1
                        and isinstance(t.ops[0], ast.Eq)):
                    raise Unsupported("to_matrix44 test")
                branches[_int(t.comparators[0])] = block(node.body, env)
                if len(node.orelse) == 1 and isinstance(node.orelse[0], ast.If):
                    node = node.orelse[0]
                    continue
                default = block(node.orelse, env)
                break
            continue
        if isinstance(s, ast.Assign) and _is_trans_col(s.targets[0], "T") and _call(s.value, "threshold", 2) \
                and _name(s.value.args[1], "MAX_DIST"):
            lo, hi = _slice(s.value.args[0], "t")
            if hi - lo != 3:
                raise Unsupported("translation slice")
            trans = lo
            continue
        if isinstance(s, ast.Return) and _name(s.value, "T"):
            continue
        raise Unsupported("to_matrix44 statement: " + ast.dump(s))
    if default is None or trans is None:
        raise Unsupported("to_matrix44 incomplete")
    return branches, default, trans


def as_affine(fn):
    body = _strip_doc(fn.body)
    if not (len(body) == 3 and isinstance(body[0], ast.Assign) and _name(body[0].targets[0], "T")
            and isinstance(body[0].value, ast.Call) and _name(body[0].value.func, "to_matrix44")
            and _attr(body[0].value.args[0], "self", "_vec12")
            and isinstance(body[1], ast.If) and not body[1].orelse and len(body[1].body) == 1
            and isinstance(body[2], ast.Return) and _name(body[2].value, "T")):
        raise Unsupported("as_affine shape")
    t = body[1].test
    if isinstance(t, ast.UnaryOp) and isinstance(t.op, ast.Not) and _attr(t.operand, "self", "_direct"):
        when = False
    elif _attr(t, "self", "_direct"):
        when = True
    else:
        raise Unsupported("as_affine test")
    a = body[1].body[0]
    if not (isinstance(a, ast.AugAssign) and isinstance(a.op, ast.Mult) and _is_lin_block(a.target, "T")
            and isinstance(a.value, ast.UnaryOp) and isinstance(a.value.op, ast.USub) and _const(a.value.operand, 1)):
        raise Unsupported("as_affine: expected T[:3,:3] *= -1")
    return when


# ------------------------------------------------------------------ from_matrix44
def from_matrix44(fn):
    body = _strip_doc(fn.body)
    if [a.arg for a in fn.args.args] != ["self", "aff"]:
        raise Unsupported("from_matrix44 signature")
    var = {}        # python name -> matrix variable index
    kind = None
    detalias = {}   # name -> matrix var
    scale_name = None
    scale = None
    events = []
    rotvec = {}     # python name -> (var, scaled) taken at its definition point
    trans_ok = False
    done = False

    def matvar(n):
        if isinstance(n, ast.Name) and n.id in var:
            return var[n.id]
        raise Unsupported("matrix variable expected: " + ast.dump(n))

    def det_of(n):
        if _modcall(n, "spl", "det", 1):
            return matvar(n.args[0])
        if isinstance(n, ast.Name) and n.id in detalias:
            return detalias[n.id]
        raise Unsupported("determinant expected: " + ast.dump(n))

    def mat2vec(n):
        """rotation_mat2vec(X) or rotation_mat2vec(X / s) -> (var, scaled)"""
        if not _call(n, "rotation_mat2vec", 1):
            return None
        a = n.args[0]
        if isinstance(a, ast.BinOp) and isinstance(a.op, ast.Div) and _name(a.right, scale_name or "\0"):
            return matvar(a.left), True
        return matvar(a), False

    for s in body:
        if done:
            raise Unsupported("statement after self._vec12 = vec12")
        if isinstance(s, ast.Assign) and len(s.targets) == 1:
            t, v = s.targets[0], s.value
            if _name(t, "vec12") and _modcall(v, "np", "zeros", 1):
                continue
            if isinstance(t, ast.Subscript) and _name(t.value, "vec12"):
                lo, hi = _slice(t, "vec12")
                if (lo, hi) == (0, 3):
                    if not _is_trans_col(v, "aff"):
                        raise Unsupported("translation source")
                    trans_ok = True
                    continue
                if (lo, hi) in ((3, 6), (9, 12)):
                    if isinstance(v, ast.Name) and v.id in rotvec:
                        # the vector was computed at its definition point (event recorded there); only the slot is set here
                        k = rotvec[v.id]
                        events[k] = events[k][:2] + (lo,) + events[k][3:]
                        continue
                    m = mat2vec(v)
                    if m is None:
                        raise Unsupported("rotation slot value")
                    events.append(("take", m[0], lo, m[1]))
                    continue
                if (lo, hi) == (6, 9):
                    if _const(v, 0.0):
                        scale = "ScUnit"
                    elif _modcall(v, "np", "log", 1) and _modcall(v.args[0], "np", "maximum", 2) \
                            and _name(v.args[0].args[0], scale_name or "\0") and _name(v.args[0].args[1], "TINY") and kind == "FSvd":
                        scale = "ScSvd"
                    elif _modcall(v, "np", "log", 1) and _name(v.args[0], scale_name or "\0") and kind == "FLin":
                        scale = "ScCubeRoot"
                    else:
                        raise Unsupported("scale slot value: " + ast.dump(v))
                    continue
                raise Unsupported("vec12 slice %d:%d" % (lo, hi))
            if isinstance(t, ast.Tuple) and _modcall(v, "spl", "svd", 1) and _is_lin_block(v.args[0], "aff"):
                if kind is not None or len(t.elts) != 3 or not all(isinstance(e, ast.Name) for e in t.elts):
                    raise Unsupported("svd unpacking")
                kind = "FSvd"
                var[t.elts[0].id] = 0
                scale_name = t.elts[1].id
                var[t.elts[2].id] = 1
                continue
            if isinstance(t, ast.Name) and _is_lin_block(v, "aff"):
                if kind is not None:
                    raise Unsupported("second factorisation")
                kind = "FLin"
                var[t.id] = 0
                continue
            if isinstance(t, ast.Name) and _modcall(v, "spl", "det", 1):
                detalias[t.id] = matvar(v.args[0])
                continue
            if isinstance(t, ast.Name) and kind == "FLin" and _modcall(v, "np", "maximum", 2) and _name(v.args[1], "TINY"):
                # s = np.maximum(np.abs(detA) ** (1 / 3.), TINY)
                p = v.args[0]
                if not (isinstance(p, ast.BinOp) and isinstance(p.op, ast.Pow) and _modcall(p.left, "np", "abs", 1)
                        and det_of(p.left.args[0]) == 0 and isinstance(p.right, ast.BinOp) and isinstance(p.right.op, ast.Div)
                        and _const(p.right.left, 1) and isinstance(p.right.right, ast.Constant) and p.right.right.value == 3):
                    raise Unsupported("similarity scale expression")
                scale_name = t.id
                continue
            if isinstance(t, ast.Name):
                m = mat2vec(v)
                if m is not None:
                    rotvec[t.id] = len(events)
                    events.append(("take", m[0], None, m[1]))
                    continue
            if _attr(t, "self", "_vec12") and _name(v, "vec12"):
                done = True
                continue
            if _attr(t, "self", "_direct") and isinstance(v, ast.Constant) and type(v.value) is bool:
                events.append(("setdirect", v.value))
                continue
            raise Unsupported("from_matrix44 assignment: " + ast.dump(s))
        if isinstance(s, ast.If) and not s.orelse:
            t = s.test
            if not (isinstance(t, ast.Compare) and len(t.ops) == 1 and isinstance(t.ops[0], ast.Lt) and _const(t.comparators[0], 0)):
                raise Unsupported("from_matrix44 test: " + ast.dump(t))
            tv = det_of(t.left)
            negs = []
            clear = False
            for b in s.body:
                if isinstance(b, ast.Assign) and isinstance(b.targets[0], ast.Name) and isinstance(b.value, ast.UnaryOp) \
                        and isinstance(b.value.op, ast.USub) and _name(b.value.operand, b.targets[0].id):
                    negs.append(matvar(b.targets[0]))
                elif isinstance(b, ast.Assign) and _attr(b.targets[0], "self", "_direct") and _const(b.value, False):
                    clear = True
                else:
                    raise Unsupported("from_matrix44 guarded statement: " + ast.dump(b))
            events.append(("negif", tv, negs, clear))
            continue
        raise Unsupported("from_matrix44 statement: " + ast.dump(s))
    if not (done and trans_ok and kind and scale):
        raise Unsupported("from_matrix44 incomplete")
    out = []
    for e in events:
        if e[0] == "take":
            if e[2] is None:
                raise Unsupported("rotation vector computed but never stored")
            out.append("FxTake %d %d %s" % (e[1], e[2], "true" if e[3] else "false"))
        elif e[0] == "setdirect":
            out.append("FxSetDirect %s" % ("true" if e[1] else "false"))
        else:
            out.append("FxNegIf %d [%s] %s" % (e[1], "; ".join(str(x) for x in e[2]), "true" if e[3] else "false"))
    return "{| fx_factor := %s; fx_events := [%s]; fx_sc := %s |}" % (kind, "; ".join(out), scale)


# ------------------------------------------------------------------ chain
def chain_apply(fn):
    body = _strip_doc(fn.body)
    if not (len(body) == 2 and isinstance(body[0], ast.Assign) and _name(body[0].targets[0], "composed")
            and isinstance(body[1], ast.Return) and isinstance(body[1].value, ast.Call)
            and _attr(body[1].value.func, "composed", "apply") and len(body[1].value.args) == 1
            and _name(body[1].value.args[0], "pts")):
        raise Unsupported("ChainTransform.apply shape")

    def cex(n):
        if isinstance(n, ast.Attribute) and _name(n.value, "self") and n.attr in ("pre", "post", "optimizable"):
            return '(CLeaf "%s")' % n.attr
        if isinstance(n, ast.Call) and isinstance(n.func, ast.Attribute) and n.func.attr == "compose" and len(n.args) == 1 \
                and not n.keywords:
            return "(CComp %s %s)" % (cex(n.func.value), cex(n.args[0]))
        raise Unsupported("chain expression: " + ast.dump(n))
    return cex(body[0].value)


# ------------------------------------------------------------------ generic Transform
def generic_compose(cls):
    """class Transform: apply must be `return self.func(pts)`; compose must return a NEW Transform wrapping a
    lambda whose body is built from self.apply / other.apply applied to the lambda's argument (no state)."""
    meths = {s.name: s for s in cls.body if isinstance(s, ast.FunctionDef)}
    ap = _strip_doc(meths["apply"].body)
    if not (len(ap) == 1 and isinstance(ap[0], ast.Return) and isinstance(ap[0].value, ast.Call)
            and _attr(ap[0].value.func, "self", "func") and len(ap[0].value.args) == 1 and _name(ap[0].value.args[0], "pts")):
        raise Unsupported("Transform.apply shape")
    co = meths["compose"]
    if [a.arg for a in co.args.args] != ["self", "other"]:
        raise Unsupported("Transform.compose signature")
    body = _strip_doc(co.body)
    if not (len(body) == 1 and isinstance(body[0], ast.Return) and _call(body[0].value, "Transform", 1)
            and isinstance(body[0].value.args[0], ast.Lambda)):
        raise Unsupported("Transform.compose: expected `return Transform(lambda pts: ...)`")
    lam = body[0].value.args[0]
    if len(lam.args.args) != 1 or lam.args.defaults or lam.args.vararg or lam.args.kwarg:
        raise Unsupported("Transform.compose lambda signature")
    arg = lam.args.args[0].arg

    def gex(n):
        if _name(n, arg):
            return "GPts"
        if isinstance(n, ast.Call) and len(n.args) == 1 and not n.keywords:
            if _attr(n.func, "self", "apply"):
                return "(GSelf %s)" % gex(n.args[0])
            if _attr(n.func, "other", "apply"):
                return "(GOther %s)" % gex(n.args[0])
        raise Unsupported("Transform.compose lambda body: " + ast.dump(n))
    return gex(lam.body)


# ------------------------------------------------------------------ PolyAffine.compose / left_compose
def _generic_guard(st, first, second):
    """if not hasattr(other, 'as_affine'): return Transform(<first>.apply).compose(<second>)"""
    if not (isinstance(st, ast.If) and isinstance(st.test, ast.UnaryOp) and isinstance(st.test.op, ast.Not)
            and _call(st.test.operand, "hasattr", 2) and _name(st.test.operand.args[0], "other")
            and _const(st.test.operand.args[1], "as_affine") and not st.orelse and len(st.body) == 1
            and isinstance(st.body[0], ast.Return)):
        raise Unsupported("polyaffine: generic guard")
    r = st.body[0].value
    if not (isinstance(r, ast.Call) and isinstance(r.func, ast.Attribute) and r.func.attr == "compose" and len(r.args) == 1
            and _name(r.args[0], second) and _call(r.func.value, "Transform", 1) and _attr(r.func.value.args[0], first, "apply")):
        raise Unsupported("polyaffine: generic fallback")


def _is_other_aff(n, env):
    return (isinstance(n, ast.Call) and _attr(n.func, "other", "as_affine") and not n.args) or \
        (isinstance(n, ast.Name) and env.get(n.id) == "other_aff")


def _ctor(n):
    """self.__class__(self.centers, <affines>, self.sigma[, glob_affine=<g>]) -> (affines node, glob node or None)"""
    if not (isinstance(n, ast.Call) and _attr(n.func, "self", "__class__") and len(n.args) == 3
            and _attr(n.args[0], "self", "centers") and _attr(n.args[2], "self", "sigma")):
        raise Unsupported("polyaffine: constructor call")
    g = None
    for k in n.keywords:
        if k.arg != "glob_affine":
            raise Unsupported("polyaffine: constructor keyword " + str(k.arg))
        g = k.value
    return n.args[1], g


def polyaffine(cls):
    meths = {s.name: s for s in cls.body if isinstance(s, ast.FunctionDef)}
    # compose
    body = _strip_doc(meths["compose"].body)
    if len(body) != 3:
        raise Unsupported("PolyAffine.compose length")
    _generic_guard(body[0], "self", "other")
    st = body[1]
    if not (isinstance(st, ast.If) and isinstance(st.test, ast.Compare) and _attr(st.test.left, "self", "glob_affine")
            and len(st.test.ops) == 1 and isinstance(st.test.ops[0], ast.Is) and _const(st.test.comparators[0], None)
            and len(st.body) == 1 and len(st.orelse) == 1):
        raise Unsupported("PolyAffine.compose: glob_affine is None test")
    a, b = st.body[0], st.orelse[0]
    if not (isinstance(a, ast.Assign) and _name(a.targets[0], "glob_affine") and _is_other_aff(a.value, {})):
        raise Unsupported("PolyAffine.compose: None branch")
    if not (isinstance(b, ast.Assign) and _name(b.targets[0], "glob_affine") and _modcall(b.value, "np", "dot", 2)):
        raise Unsupported("PolyAffine.compose: product branch")
    x, y = b.value.args
    if _attr(x, "self", "glob_affine") and _is_other_aff(y, {}):
        self_left = True
    elif _attr(y, "self", "glob_affine") and _is_other_aff(x, {}):
        self_left = False
    else:
        raise Unsupported("PolyAffine.compose: product operands")
    if not isinstance(body[2], ast.Return):
        raise Unsupported("PolyAffine.compose: return")
    affs, g = _ctor(body[2].value)
    if not (isinstance(affs, ast.Call) and _attr(affs.func, "self", "affines") and not affs.args and _name(g, "glob_affine")):
        raise Unsupported("PolyAffine.compose: constructor arguments")
    # left_compose
    body = _strip_doc(meths["left_compose"].body)
    if len(body) != 4:
        raise Unsupported("PolyAffine.left_compose length")
    _generic_guard(body[0], "other", "self")
    env = {}
    st = body[1]
    if not (isinstance(st, ast.Assign) and isinstance(st.targets[0], ast.Name) and _is_other_aff(st.value, {})):
        raise Unsupported("PolyAffine.left_compose: other_affine")
    env[st.targets[0].id] = "other_aff"
    st = body[2]
    if not (isinstance(st, ast.Assign) and _name(st.targets[0], "affines") and isinstance(st.value, ast.ListComp)
            and len(st.value.generators) == 1 and _modcall(st.value.elt, "np", "dot", 2)):
        raise Unsupported("PolyAffine.left_compose: affines list")
    gen = st.value.generators[0]
    if not (isinstance(gen.target, ast.Name) and _call(gen.iter, "range", 1) and _call(gen.iter.args[0], "len", 1)
            and _attr(gen.iter.args[0].args[0], "self", "centers") and not gen.ifs):
        raise Unsupported("PolyAffine.left_compose: comprehension")
    iv = gen.target.id

    def is_local(n):
        return isinstance(n, ast.Call) and _attr(n.func, "self", "affine") and len(n.args) == 1 and _name(n.args[0], iv)
    x, y = st.value.elt.args
    if _is_other_aff(x, env) and is_local(y):
        other_left = True
    elif _is_other_aff(y, env) and is_local(x):
        other_left = False
    else:
        raise Unsupported("PolyAffine.left_compose: product operands")
    if not isinstance(body[3], ast.Return):
        raise Unsupported("PolyAffine.left_compose: return")
    affs, g = _ctor(body[3].value)
    if not _name(affs, "affines"):
        raise Unsupported("PolyAffine.left_compose: constructor affines")
    if g is None:
        keeps = False
    elif _attr(g, "self", "glob_affine"):
        keeps = True
    else:
        raise Unsupported("PolyAffine.left_compose: glob_affine argument")
    return self_left, other_left, keeps


def _nl(xs):
    return "[" + "; ".join(str(int(x)) for x in xs) + "]"


@register("AffineClasses.v", ["C08"])
def translate(repo):
    tree = ast.parse((repo / SRC).read_text())
    funcs = {n.name: n for n in tree.body if isinstance(n, ast.FunctionDef)}
    classes = [n for n in tree.body if isinstance(n, ast.ClassDef)]
    info = {}
    order = []
    for c in classes:
        if len(c.bases) != 1 or not isinstance(c.bases[0], ast.Name):
            raise Unsupported("class %s: single named base expected" % c.name)
        base = c.bases[0].id
        if c.name != "Affine" and base not in info:
            continue    # not an Affine descendant
        if c.name == "Affine" and base != "Transform":
            raise Unsupported("Affine base")
        d = {"base": None if c.name == "Affine" else base, "methods": {}, "param_inds": None}
        for s in c.body:
            if isinstance(s, ast.FunctionDef):
                d["methods"][s.name] = s
            elif isinstance(s, ast.Assign) and len(s.targets) == 1 and _name(s.targets[0], "param_inds"):
                d["param_inds"] = int_list(s.value)
        info[c.name] = d
        order.append(c.name)
    if "Affine" not in info:
        raise Unsupported("class Affine not found")

    def resolve(cname, attr):
        k = cname
        while k is not None:
            if attr == "param_inds":
                if info[k]["param_inds"] is not None:
                    return k, info[k]["param_inds"]
            elif attr in info[k]["methods"]:
                return k, info[k]["methods"][attr]
            k = info[k]["base"]
        raise Unsupported("%s.%s not found" % (cname, attr))

    # only Affine may define these (the model has one copy)
    for cname in order:
        for m in ("compose", "inv", "as_affine", "apply", "_get_param", "copy"):
            if cname != "Affine" and m in info[cname]["methods"]:
                raise Unsupported("%s overrides %s" % (cname, m))
    rows = []
    setops = set()
    fx_owner = {}
    for cname in order:
        _, inds = resolve(cname, "param_inds")
        if any(not (0 <= i < 12) for i in inds) or len(set(inds)) != len(inds):
            raise Unsupported("param_inds of %s" % cname)
        _, sp = resolve(cname, "_set_param")
        targets, sources, op = set_param_fanout(sp, inds)
        setops.add(op)
        owner, _ = resolve(cname, "from_matrix44")
        fx_owner[cname] = owner
        rows.append((cname, inds, targets, sources, owner))
    if len(setops) != 1:
        raise Unsupported("_set_param operators differ between classes")
    getop = get_param_op(info["Affine"]["methods"]["_get_param"])
    pc = preconditioner(funcs["preconditioner"])
    branches, default, self_left = compose_chain(info["Affine"]["methods"]["compose"], set(order))
    m44_br, m44_def, m44_tr = to_matrix44(funcs["to_matrix44"])
    neg_when = as_affine(info["Affine"]["methods"]["as_affine"])
    fx = {o: from_matrix44(info[o]["methods"]["from_matrix44"]) for o in sorted(set(fx_owner.values()))}

    ctree = ast.parse((repo / SRC_CHAIN).read_text())
    chain = None
    for n in ctree.body:
        if isinstance(n, ast.ClassDef) and n.name == "ChainTransform":
            for s in n.body:
                if isinstance(s, ast.FunctionDef) and s.name == "apply":
                    chain = chain_apply(s)
    if chain is None:
        raise Unsupported("ChainTransform.apply not found")
    ttree = ast.parse((repo / SRC_TRANSFORM).read_text())
    gen = None
    for n in ttree.body:
        if isinstance(n, ast.ClassDef) and n.name == "Transform":
            gen = generic_compose(n)
    if gen is None:
        raise Unsupported("class Transform not found")
    ptree = ast.parse((repo / SRC_POLY).read_text())
    pa = None
    for n in ptree.body:
        if isinstance(n, ast.ClassDef) and n.name == "PolyAffine":
            pa = polyaffine(n)
    if pa is None:
        raise Unsupported("class PolyAffine not found")

    o = ["(* GENERATED from %s and %s by harness/translate/affineclasses.py - do not edit *)" % (SRC, SRC_CHAIN),
         "From Coq Require Import String List.", "From NV.Lib Require Import C08Base.", "Import ListNotations.",
         "Open Scope string_scope.", ""]
    o.append("(* class name, param_inds (resolved through inheritance) *)")
    o.append("Definition src_classes : list (string * list nat) := [")
    o.append(";\n".join('  ("%s", %s)' % (r[0], _nl(r[1])) for r in rows))
    o.append("].\n")
    o.append("(* _set_param: self._vec12[targets] = p[sources] <op> self._precond[targets] *)")
    o.append("Definition src_set_param : list (string * (list nat * list nat)) := [")
    o.append(";\n".join('  ("%s", (%s, %s))' % (r[0], _nl(r[2]), _nl(r[3])) for r in rows))
    o.append("].")
    o.append("Definition src_set_op : pc_op := %s." % setops.pop())
    o.append("Definition src_get_op : pc_op := %s." % getop)
    o.append("Definition src_precond : list pc_sym := [%s].\n" % "; ".join(pc))
    o.append("(* class -> class whose from_matrix44 it uses *)")
    o.append("Definition src_fx_owner : list (string * string) := [")
    o.append(";\n".join('  ("%s", "%s")' % (r[0], r[4]) for r in rows))
    o.append("].")
    o.append("Definition src_fx : list (string * fx_prog) := [")
    o.append(";\n".join('  ("%s", %s)' % (k, v) for k, v in fx.items()))
    o.append("].\n")
    o.append("(* Affine.compose class selection *)")
    o.append("Definition src_compose_chain : list (sel_test * sel_choice) := [")
    o.append(";\n".join("  (%s, %s)" % b for b in branches))
    o.append("].")
    o.append("Definition src_compose_default : sel_choice := %s." % default)
    o.append("Definition src_compose_self_left : bool := %s.\n" % ("true" if self_left else "false"))
    o.append("(* to_matrix44: T[0:3,0:3] by t.size; translation slice start *)")
    o.append("Definition src_m44_by_size : list (nat * mexpr) := [%s]." % "; ".join("(%d, %s)" % (k, v) for k, v in sorted(m44_br.items())))
    o.append("Definition src_m44_default : mexpr := %s." % m44_def)
    o.append("Definition src_m44_trans : nat := %d." % m44_tr)
    o.append("(* as_affine: linear part multiplied by -1 when _direct equals *)")
    o.append("Definition src_negate_when_direct_is : bool := %s.\n" % ("true" if neg_when else "false"))
    o.append("(* ChainTransform.apply *)")
    o.append("Definition src_chain : cexpr := %s." % chain)
    o.append("(* Transform.compose: lambda body (%s) *)" % SRC_TRANSFORM)
    o.append("Definition src_generic_compose : gexpr := %s." % gen)
    o.append("(* PolyAffine.compose: new glob_affine = np.dot(self.glob_affine, other) (true) or the reverse; left_compose: local")
    o.append("   affines np.dot(other, self.affine(i)) (true) or the reverse; whether the constructor call passes glob_affine=self.glob_affine (%s) *)" % SRC_POLY)
    o.append("Definition src_pa_compose_self_left : bool := %s." % ("true" if pa[0] else "false"))
    o.append("Definition src_pa_left_other_left : bool := %s." % ("true" if pa[1] else "false"))
    o.append("Definition src_pa_left_keeps_glob : bool := %s." % ("true" if pa[2] else "false"))
    meta = {"source": [SRC, SRC_CHAIN], "classes": {r[0]: r[1] for r in rows},
            "compose_chain": branches, "compose_default": default, "from_matrix44_owner": fx_owner}
    return "\n".join(o) + "\n", meta
