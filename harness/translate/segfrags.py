"""Fragments of nipy/algorithms/segmentation/segmentation.py for C13 (fail-closed, `ast`).

  * `nonzero = lambda x: np.maximum(x, <float literal>)`  -> src_seg_floor : Q (exact value of the double)
  * Segmentation.normalized_external_field: the body must be the five literal statements of the
    max-shifted soft-max; the shift line decides src_nef_shift:
        f -= np.max(f, 0) / f -= f.max(0) / f -= np.max(f, axis=0)   -> NefShiftPerVoxel
        f -= f.max() / f -= np.max(f)                                 -> NefShiftGlobal
  * Segmentation.vm_step: the statements of the per-class loop must be literally the ones modelled in
    coq/C13/SegModel.v (weights, Z = nonzero(P.sum()), weighted mean, CENTRED weighted scatter / Z);
    the recognised form is recorded as src_vm_scatter (VmCentredScatter); anything else raises.
"""
from fractions import Fraction
import ast

from . import register

SEG = "nipy/algorithms/segmentation/segmentation.py"


class Unsupported(Exception):
    pass


def un(n):
    return ast.unparse(n)


def method(tree, cls, name):
    for node in tree.body:
        if isinstance(node, ast.ClassDef) and node.name == cls:
            for f in node.body:
                if isinstance(f, ast.FunctionDef) and f.name == name:
                    return f
    raise Unsupported("%s.%s not found" % (cls, name))


def nodoc(body):
    return [s for s in body if not (isinstance(s, ast.Expr) and isinstance(s.value, ast.Constant))]


@register("SegFrags.v", ["C13"])
def translate(repo):
    tree = ast.parse((repo / SEG).read_text())
    # ---- nonzero
    nz = [s for s in tree.body if isinstance(s, ast.Assign) and un(s.targets[0]) == "nonzero"]
    if len(nz) != 1 or not isinstance(nz[0].value, ast.Lambda):
        raise Unsupported("module-level `nonzero = lambda ...` not found")
    lam = nz[0].value
    if [a.arg for a in lam.args.args] != ["x"] or not isinstance(lam.body, ast.Call) or un(lam.body.func) != "np.maximum" \
            or len(lam.body.args) != 2 or lam.body.keywords or un(lam.body.args[0]) != "x" \
            or not (isinstance(lam.body.args[1], ast.Constant) and isinstance(lam.body.args[1].value, float)):
        raise Unsupported("nonzero is `%s`" % un(lam))
    floor = Fraction(lam.body.args[1].value)
    if floor <= 0:
        raise Unsupported("nonzero floor %r is not positive" % lam.body.args[1].value)
    lg = [s for s in tree.body if isinstance(s, ast.Assign) and un(s.targets[0]) == "log"]
    if len(lg) != 1 or un(lg[0].value) != "lambda x: np.log(nonzero(x))":
        raise Unsupported("module-level `log = lambda x: np.log(nonzero(x))` not found")
    # ---- normalized_external_field
    nef = method(tree, "Segmentation", "normalized_external_field")
    body = [un(s) for s in nodoc(nef.body)]
    want = ["f = self.log_external_field().T", None, "np.exp(f, f)", "f /= f.sum(0)", "return f.T"]
    if len(body) != 5 or any(w is not None and w != b for w, b in zip(want, body)):
        raise Unsupported("normalized_external_field: unexpected body %s" % body)
    if body[1] in ("f -= np.max(f, 0)", "f -= f.max(0)", "f -= np.max(f, axis=0)", "f -= f.max(axis=0)"):
        shift = "NefShiftPerVoxel"
    elif body[1] in ("f -= f.max()", "f -= np.max(f)"):
        shift = "NefShiftGlobal"
    else:
        raise Unsupported("normalized_external_field: shift line is `%s`" % body[1])
    # ---- vm_step
    vm = method(tree, "Segmentation", "vm_step")
    loops = [s for s in nodoc(vm.body) if isinstance(s, ast.For)]
    head = [un(s) for s in nodoc(vm.body) if not isinstance(s, ast.For)]
    if head != ["classes = list(range(self.nclasses))"] or len(loops) != 2:
        raise Unsupported("vm_step: unexpected prologue %s / %d loops" % (head, len(loops)))
    if un(loops[0]) != "for i in freeze:\n    classes.remove(i)":
        raise Unsupported("vm_step: freeze loop is `%s`" % un(loops[0]))
    lp = loops[1]
    if un(lp.target) != "i" or un(lp.iter) != "classes" or lp.orelse:
        raise Unsupported("vm_step: class loop header")
    stm = [un(s) for s in nodoc(lp.body)]
    centred_form = ["P = self.ppm[..., i][self.mask].ravel()", "Z = nonzero(P.sum())", "tmp = self.data.T * P.T",
                    "mu = tmp.sum(1) / Z", "centred = self.data - mu", "sigma = np.dot(centred.T * P.T, centred) / Z",
                    "self.mu[i] = mu", "self.sigma[i] = sigma"]
    if stm != centred_form:
        raise Unsupported("vm_step: class loop body is not the centred weighted scatter: %s" % stm)
    out = ["(* GENERATED from %s by harness/translate/segfrags.py - do not edit *)" % SEG,
           "From Coq Require Import ZArith QArith.", "Open Scope Q_scope.", "",
           "(* nonzero = lambda x: np.maximum(x, %r)   l.%d : exact value of the double *)" % (lam.body.args[1].value, nz[0].lineno),
           "Definition src_seg_floor : Q := %d # %d." % (floor.numerator, floor.denominator), "",
           "(* Segmentation.normalized_external_field l.%d-%d: `%s` *)" % (nef.lineno, nef.end_lineno, body[1]),
           "Inductive nef_shift_kind := NefShiftPerVoxel | NefShiftGlobal.",
           "Definition src_nef_shift : nef_shift_kind := %s." % shift, "",
           "(* Segmentation.vm_step l.%d-%d: class loop body matched literally *)" % (lp.lineno, lp.end_lineno),
           "Inductive vm_scatter_kind := VmCentredScatter.",
           "Definition src_vm_scatter : vm_scatter_kind := VmCentredScatter.", ""]
    meta = {"source": [SEG], "seg_floor": str(floor), "nef_shift": shift, "vm_step": "centred-scatter"}
    return "\n".join(out) + "\n", meta
