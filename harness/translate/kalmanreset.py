"""Generate coq/Generated/KalmanReset.v from the CURRENT lib/fff/fff_glm_kalman.{h,c}.

nipy.labs.glm.kalman re-uses ONE filter object for all voxels of a call and relies on
fff_glm_KF_reset / fff_glm_RKF_reset (called at the top of the *_fit drivers) to wipe the
state.  The fit of a voxel is independent of the voxels fitted before it iff every field
whose previous value the iteration reads (an *accumulator*) is re-initialised by the reset.

For each of the two filters the translator emits three string lists

    <f>_fields        the members of the struct (from the header)
    <f>_reset_clears  members re-initialised by <f>_reset        (from the .c)
    <f>_accumulators  members whose FIRST modification in <f>_iterate (textual order, both
                      branches) reads the old value: `x ++`, `x += e`, `x = x + e`, daxpy / dger /
                      dsyr2 / vector_add / vector_sub into x, dsymv with beta != 0.0, and the nested
                      standard filter handed to fff_glm_KF_iterate

Recognised statement forms only; any other statement that mentions `thisone->member` as an
l-value or passes it to an unknown function raises (fail-closed).  The two static helpers
`_fff_glm_RKF_iterate_Vb(Vb, Vb0, Hspp, a1, a2, Maux)` (overwrites Vb and Maux) and
`_fff_glm_hermit_norm(A, x, vaux)` (overwrites vaux) are recognised by name and their bodies
are checked against the expected call sequence.
"""
import re

from . import register

HDR = "lib/fff/fff_glm_kalman.h"
SRC = "lib/fff/fff_glm_kalman.c"


class Unsupported(Exception):
    pass


def strip_comments(s):
    return re.sub(r"/\*.*?\*/", " ", s, flags=re.S)


def struct_fields(hdr, name):
    m = re.search(r"typedef\s+struct\s*\{([^{}]*)\}\s*%s\s*;" % re.escape(name), hdr)
    if not m:
        raise Unsupported("struct %s not found" % name)
    fields = []
    for st in m.group(1).split(";"):
        st = st.strip()
        if not st:
            continue
        mm = re.fullmatch(r"(?:size_t|double|fff_vector\s*\*|fff_matrix\s*\*|fff_glm_KF\s*\*)\s*(\w+)", st)
        if not mm:
            raise Unsupported("struct %s: unrecognised member %r" % (name, st))
        fields.append(mm.group(1))
    return fields


def func_body(src, name):
    m = re.search(r"\b(?:void|double)\s+%s\s*\([^)]*\)\s*\{" % re.escape(name), src)
    if not m:
        raise Unsupported("function %s not found" % name)
    i = m.end()
    depth = 1
    j = i
    while depth:
        if j >= len(src):
            raise Unsupported("unbalanced braces in %s" % name)
        depth += {"{": 1, "}": -1}.get(src[j], 0)
        j += 1
    return src[i:j - 1]


def statements(body):
    out = []
    for st in body.split(";"):
        st = " ".join(st.split())
        while True:
            st2 = re.sub(r"^(\{|\}|else\b|if\s*\([^()]*\)|while\s*\([^()]*\))\s*", "", st)
            if st2 == st:
                break
            st = st2
        st = st.strip("{} ")
        if st:
            out.append(st)
    return out


def split_args(s):
    args, depth, cur = [], 0, ""
    for ch in s:
        if ch == "," and depth == 0:
            args.append(cur.strip())
            cur = ""
        else:
            depth += {"(": 1, ")": -1}.get(ch, 0)
            cur += ch
    args.append(cur.strip())
    return args


def member(arg):
    m = re.fullmatch(r"thisone->(\w+)", arg.strip())
    return m.group(1) if m else None


DECL = re.compile(r"^(unsigned int|double|size_t)\s+[\w\s,=.*]+$")
ZERO = re.compile(r"^0(\.0*)?$")


def reset_clears(src, fname):
    cleared = []
    for st in statements(func_body(src, fname)):
        if st == "return":
            continue
        m = re.fullmatch(r"thisone->(\w+)\s*=\s*(\S+)", st)
        if m and ZERO.match(m.group(2)):
            cleared.append(m.group(1))
            continue
        m = re.fullmatch(r"(\w+)\s*\((.*)\)", st)
        if m:
            fn, args = m.group(1), split_args(m.group(2))
            f = member(args[0])
            if fn in ("fff_vector_set_all", "fff_matrix_set_all") and f and len(args) == 2 and ZERO.match(args[1]):
                cleared.append(f)
                continue
            if fn == "fff_matrix_set_scalar" and f and args[1:] == ["FFF_GLM_KALMAN_INIT_VAR"]:
                cleared.append(f)
                continue
            if fn == "fff_glm_KF_reset" and f and len(args) == 1:
                cleared.append(f)
                continue
        raise Unsupported("%s: unrecognised statement %r" % (fname, st))
    return cleared


# function -> (index of the modified argument, True if the old value is read)
MODIFIERS = {
    "fff_vector_memcpy": (0, False), "fff_matrix_memcpy": (0, False),
    "fff_vector_add": (0, True), "fff_vector_sub": (0, True),
    "fff_blas_daxpy": (2, True), "fff_blas_dger": (3, True), "fff_blas_dsyr2": (4, True),
    "fff_glm_KF_iterate": (0, True),
}
READERS = ("fff_blas_ddot", "FFF_SQR", "FFF_ENSURE_POSITIVE", "FFF_MAX")


def first_modifications(src, fname):
    order = []          # (field, accumulates)
    seen = set()

    def note(f, acc):
        if f not in seen:
            seen.add(f)
            order.append((f, acc))

    def scan_expr(e):
        """helper calls inside an expression that overwrite a scratch member"""
        for m in re.finditer(r"_fff_glm_hermit_norm\s*\(([^()]*)\)", e):
            a = split_args(m.group(1))
            f = member(a[2]) if len(a) == 3 else None
            if not f:
                raise Unsupported("%s: _fff_glm_hermit_norm call %r" % (fname, m.group(0)))
            note(f, False)
        for m in re.finditer(r"(\w+)\s*\(", e):
            if m.group(1) not in READERS + ("_fff_glm_hermit_norm",) and not m.group(1).isupper():
                if m.group(1) not in ("double",):
                    raise Unsupported("%s: unknown function %s in expression %r" % (fname, m.group(1), e))

    for st in statements(func_body(src, fname)):
        if st == "return" or DECL.match(st):
            continue
        m = re.fullmatch(r"thisone->(\w+)\s*\+\+", st)
        if m:
            note(m.group(1), True)
            continue
        m = re.fullmatch(r"thisone->(\w+)\s*(\+=|-=|=)\s*(.+)", st)
        if m:
            f, op, rhs = m.groups()
            scan_expr(rhs)
            note(f, op != "=" or re.search(r"thisone->%s\b" % f, rhs) is not None)
            continue
        m = re.fullmatch(r"(\w+)\s*(\+=|=)\s*(.+)", st)          # local variable
        if m and "->" not in m.group(1):
            scan_expr(m.group(3))
            continue
        m = re.fullmatch(r"(\w+)\s*\+\+", st)
        if m:
            continue
        m = re.fullmatch(r"(\w+)\s*\((.*)\)", st)
        if m:
            fn, args = m.group(1), split_args(m.group(2))
            if fn in MODIFIERS:
                k, acc = MODIFIERS[fn]
                f = member(args[k])
                if f is None:
                    raise Unsupported("%s: %s does not modify a member: %r" % (fname, fn, st))
                note(f, acc)
                continue
            if fn == "fff_blas_dsymv" and len(args) == 6:
                f = member(args[5])
                if f is None:
                    raise Unsupported("%s: dsymv output %r" % (fname, st))
                note(f, not ZERO.match(args[4]))
                continue
            if fn == "_fff_glm_RKF_iterate_Vb" and len(args) == 6:
                for k in (0, 5):
                    f = member(args[k])
                    if f is None:
                        raise Unsupported("%s: %r" % (fname, st))
                    note(f, False)
                continue
        raise Unsupported("%s: unrecognised statement %r" % (fname, st))
    return order


def check_helpers(src):
    b = [re.sub(r"\s+", "", s) for s in statements(func_body(src, "_fff_glm_RKF_iterate_Vb"))]
    exp = ["fff_blas_dsymm(CblasLeft,CblasUpper,1.0,Hspp,Vb0,0.0,Maux)", "fff_matrix_memcpy(Vb,Vb0)",
           "fff_blas_dgemm(CblasNoTrans,CblasNoTrans,FFF_SQR(aux1)*aux2,Vb0,Maux,aux1,Vb)", "return"]
    if b != exp:
        raise Unsupported("_fff_glm_RKF_iterate_Vb changed: %s" % b)
    b = [re.sub(r"\s+", "", s) for s in statements(func_body(src, "_fff_glm_hermit_norm"))]
    exp = ["doublenorm=0.0", "fff_blas_dsymv(CblasUpper,1.0,A,x,0.0,vaux)", "norm=fff_blas_ddot(x,vaux)", "returnFFF_MAX(norm,0.0)"]
    if b != exp:
        raise Unsupported("_fff_glm_hermit_norm changed: %s" % b)


def fit_resets_first(src, fit, reset):
    sts = [s for s in statements(func_body(src, fit))
           if not re.match(r"^(size_t|double|unsigned int|fff_vector|fff_matrix)\b", s)]
    if not sts or re.sub(r"\s+", "", sts[0]) != "%s(thisone)" % reset:
        raise Unsupported("%s does not start with %s(thisone): %r" % (fit, reset, sts[:1]))


def coq_list(name, xs):
    return "Definition %s : list string := [%s].\n" % (name, "; ".join('"%s"%%string' % x for x in xs))


@register("KalmanReset.v", ["C05"])
def translate(repo):
    hdr = strip_comments((repo / HDR).read_text())
    src = strip_comments((repo / SRC).read_text())
    check_helpers(src)
    meta = {"source": [HDR, SRC]}
    txt = ("(* generated by harness/translate/kalmanreset.py from %s, %s *)\n"
           "From Coq Require Import String List.\nImport ListNotations.\n" % (HDR, SRC))
    for pre, struct, reset, iterate, fit in (("kf", "fff_glm_KF", "fff_glm_KF_reset", "fff_glm_KF_iterate", "fff_glm_KF_fit"),
                                             ("rkf", "fff_glm_RKF", "fff_glm_RKF_reset", "fff_glm_RKF_iterate", "fff_glm_RKF_fit")):
        fields = struct_fields(hdr, struct)
        clears = reset_clears(src, reset)
        mods = first_modifications(src, iterate)
        fit_resets_first(src, fit, reset)
        for f in clears + [m[0] for m in mods]:
            if f not in fields:
                raise Unsupported("%s is not a member of %s" % (f, struct))
        acc = [f for f, a in mods if a]
        txt += coq_list(pre + "_fields", fields) + coq_list(pre + "_reset_clears", clears) + coq_list(pre + "_accumulators", acc)
        meta[pre] = {"fields": fields, "reset_clears": clears, "accumulators": acc,
                     "overwritten_first": [f for f, a in mods if not a]}
    return txt, meta
