"""Translate the two small Cython kernels that run with bounds checks switched off
into Gallina access traces (Generated/PyxKernels.v), for the C20 index-safety theorems.

nipy/algorithms/graph/_graph.pyx, `dilation` (boundscheck(False), wraparound(False)):
  the loop nest is de-cythonised (cdef declarations dropped, typed arguments reduced to
  their names), parsed with `ast`, and compiled to a Gallina function
      src_dilation_trace (V D : Z) (idx neighb : list Z) : list access
  listing every raw element access `(array, i, j, is_write)` in program order.  An `if`
  contributes the accesses of its test AND of both branches (a superset of any actual
  run, so "all in bounds" for the trace implies it for every run); values of the integer
  arrays `idx` / `neighb` used as loop bounds or indices become `zn idx e`; slices and
  whole-array NumPy expressions (`0 * field[:, 0]`) are NumPy operations with their own
  checks and contribute no raw access.  Recognised statements: assignments, augmented
  assignments, `for v in range(a[, b])`, `if` without `elif`, `return`.  Anything else
  raises (fail-closed).

nipy/algorithms/statistics/histogram.pyx, `histogram` (pointer arithmetic on the data
  buffer): the body must consist of exactly the recognised statements; the translated
  pieces are the bin count `src_hist_nbins m` (from `nbins = <uintp>x.max() + 1`), the
  allocation length (`np.zeros(nbins, ...)`), the pointer offset `src_hist_offset xv`
  (`hv = <uintp*>PyArray_DATA(h) + xv`), the element index and increment of `hv[0] += 1`,
  and the dtype guard.
"""
import ast
import re

from . import register

GRAPH = "nipy/algorithms/graph/_graph.pyx"
HIST = "nipy/algorithms/statistics/histogram.pyx"


class Unsupported(Exception):
    pass


# ------------------------------------------------------------------ dilation
def decythonise_dilation(src):
    """-> python source text of `dilation` (fail-closed), decorators seen"""
    out = []
    seen_def = False
    decorators = []
    for line in src.splitlines():
        s = line.strip()
        if not s or s.startswith("#"):
            continue
        if s.startswith(("cimport", "ctypedef")):
            continue
        if s.startswith("@cython."):
            decorators.append(s)
            continue
        if s.startswith("def dilation("):
            out.append("def dilation(field, idx, neighb):")
            seen_def = True
            m = re.match(r"def dilation\(cnp\.ndarray\[DOUBLE, ndim=2\] field,\\$", s)
            if not m:
                raise Unsupported("dilation signature: %r" % s)
            continue
        if s.startswith("def "):
            raise Unsupported("unexpected function in _graph.pyx: %r" % s)
        if not seen_def:
            raise Unsupported("unexpected top-level line in _graph.pyx: %r" % s)
        m = re.match(r"cnp\.ndarray\[INT, ndim=1\] (idx|neighb)(,\\|\):)$", s)
        if m:
            continue
        m = re.match(r"^(\s*)cdef int (\w+) = (.*)$", line)
        if m:
            out.append("%s%s = %s" % (m.group(1), m.group(2), m.group(3)))
            continue
        if re.match(r"^\s*cdef (int|DOUBLE) [\w, ]+$", line):
            continue
        m = re.match(r"^(\s*)cdef cnp\.ndarray\[DOUBLE, ndim=1\] (\w+) = (.*)$", line)
        if m:
            out.append("%s%s = %s" % (m.group(1), m.group(2), m.group(3)))
            continue
        if "cdef" in line or "cnp." in line:
            raise Unsupported("unrecognised construct in _graph.pyx: %r" % line)
        out.append(line)
    return "\n".join(out) + "\n", decorators


INT_ARRAYS = {"idx", "neighb"}
ARRAYS_2D = {"field"}


class _Comp:
    def __init__(self):
        self.env = {}          # scalar name -> coq Z expression
        self.arrays = {"field", "idx", "neighb"}
        self.loopvars = set()

    def zexpr(self, n):
        """integer-valued expression -> coq text"""
        if isinstance(n, ast.Constant) and isinstance(n.value, int) and not isinstance(n.value, bool):
            return "%d" % n.value if n.value >= 0 else "(%d)" % n.value
        if isinstance(n, ast.Name):
            if n.id in self.loopvars:
                return n.id
            if n.id in self.env:
                return self.env[n.id]
            raise Unsupported("integer expression uses unknown name %r" % n.id)
        if isinstance(n, ast.BinOp) and isinstance(n.op, (ast.Add, ast.Sub, ast.Mult)):
            op = {ast.Add: "+", ast.Sub: "-", ast.Mult: "*"}[type(n.op)]
            return "(%s %s %s)" % (self.zexpr(n.left), op, self.zexpr(n.right))
        if isinstance(n, ast.Subscript) and isinstance(n.value, ast.Name) and n.value.id in INT_ARRAYS:
            return "(zn %s %s)" % (n.value.id, self.zexpr(n.slice))
        if (isinstance(n, ast.Subscript) and isinstance(n.value, ast.Attribute) and n.value.attr == "shape"
                and isinstance(n.value.value, ast.Name) and n.value.value.id == "field"
                and isinstance(n.slice, ast.Constant) and n.slice.value in (0, 1)):
            return "V" if n.slice.value == 0 else "D"
        raise Unsupported("integer expression %s" % ast.dump(n))

    def index(self, n):
        """subscript of an array -> (list of index expr nodes) or None for slices"""
        sl = n.slice
        parts = list(sl.elts) if isinstance(sl, ast.Tuple) else [sl]
        if any(isinstance(p, ast.Slice) for p in parts):
            return None
        return parts

    def acc(self, n, write=False):
        """accesses made when evaluating expression n (list of coq list-terms)"""
        out = []
        if isinstance(n, ast.Subscript):
            if isinstance(n.value, ast.Attribute) and n.value.attr == "shape":
                return out
            if not (isinstance(n.value, ast.Name) and n.value.id in self.arrays):
                raise Unsupported("subscript of %s" % ast.dump(n.value))
            parts = self.index(n)
            if parts is None:
                return out          # slice: a NumPy operation (checked by NumPy)
            for p in parts:
                out += self.acc(p)
            name = n.value.id
            if name in ARRAYS_2D:
                if len(parts) != 2:
                    raise Unsupported("field needs two indices")
                i, j = self.zexpr(parts[0]), self.zexpr(parts[1])
            else:
                if len(parts) != 1:
                    raise Unsupported("%s needs one index" % name)
                i, j = self.zexpr(parts[0]), "0"
            out.append('[mk "%s" %s %s %s]' % (name, i, j, "true" if write else "false"))
            return out
        if isinstance(n, (ast.Constant, ast.Name)):
            return out
        if isinstance(n, ast.BinOp):
            return self.acc(n.left) + self.acc(n.right)
        if isinstance(n, ast.Compare):
            r = self.acc(n.left)
            for c in n.comparators:
                r += self.acc(c)
            return r
        if isinstance(n, ast.Attribute):
            return out
        raise Unsupported("expression %s" % ast.dump(n))

    def has_slice(self, n):
        return any(isinstance(x, ast.Slice) for x in ast.walk(n))

    def stmts(self, body):
        terms = []
        for s in body:
            terms += self.stmt(s)
        return terms

    def cat(self, terms):
        return "(" + " ++ ".join(terms) + ")" if terms else "[]"

    def stmt(self, s):
        if isinstance(s, ast.Assign):
            if len(s.targets) != 1:
                raise Unsupported("multiple assignment targets")
            t = s.targets[0]
            r = self.acc(s.value)
            if isinstance(t, ast.Name):
                if self.has_slice(s.value):
                    self.arrays.add(t.id)        # a new 1-d array (e.g. res = 0 * field[:, 0]) of extent V
                    if t.id != "res":
                        raise Unsupported("new array %r (extent unknown)" % t.id)
                else:
                    try:
                        self.env[t.id] = self.zexpr(s.value)
                    except Unsupported:
                        self.env.pop(t.id, None)   # a floating-point scalar (fmax): never used as an index
                return r
            if isinstance(t, ast.Subscript):
                return r + self.acc(t, write=True)
            raise Unsupported("assignment target %s" % ast.dump(t))
        if isinstance(s, ast.AugAssign):
            if isinstance(s.target, ast.Subscript):
                return self.acc(s.value) + self.acc(s.target) + self.acc(s.target, write=True)
            return self.acc(s.value)
        if isinstance(s, ast.For):
            if s.orelse or not isinstance(s.target, ast.Name):
                raise Unsupported("for/else or tuple target")
            it = s.iter
            if not (isinstance(it, ast.Call) and isinstance(it.func, ast.Name) and it.func.id == "range"
                    and not it.keywords and len(it.args) in (1, 2)):
                raise Unsupported("loop iterable %s" % ast.dump(it))
            pre = []
            for a in it.args:
                pre += self.acc(a)
            lo = "0" if len(it.args) == 1 else self.zexpr(it.args[0])
            hi = self.zexpr(it.args[-1])
            v = s.target.id
            if v in self.loopvars or v in self.env:
                self.env.pop(v, None)
            self.loopvars.add(v)
            body = self.cat(self.stmts(s.body))
            return pre + ["flat_map (fun %s : Z => %s) (zrange %s %s)" % (v, body, lo, hi)]
        if isinstance(s, ast.If):
            return self.acc(s.test) + self.stmts(s.body) + self.stmts(s.orelse)
        if isinstance(s, ast.Return):
            return self.acc(s.value) if s.value is not None else []
        if isinstance(s, ast.Expr) and isinstance(s.value, ast.Constant) and isinstance(s.value.value, str):
            return []
        raise Unsupported("statement %s" % type(s).__name__)


def dilation_trace(src):
    py, decorators = decythonise_dilation(src)
    tree = ast.parse(py)
    if len(tree.body) != 1 or not isinstance(tree.body[0], ast.FunctionDef):
        raise Unsupported("expected exactly the function dilation")
    c = _Comp()
    term = c.cat(c.stmts(tree.body[0].body))
    return term, decorators, py


# ------------------------------------------------------------------ histogram
HIST_PATTERNS = [
    ("guard", r"if not x\.dtype=='uintp':$"),
    ("raise", r"raise ValueError\('input array should have uintp data type'\)$"),
    ("decl_xv", r"cdef np\.npy_uintp xv$"),
    ("nbins", r"cdef np\.npy_uintp nbins = (.*)$"),
    ("iter", r"cdef np\.flatiter it = x\.flat$"),
    ("alloc", r"cdef np\.ndarray h = np\.zeros\((\w+), dtype='uintp'\)$"),
    ("decl_hv", r"cdef np\.npy_uintp\* hv$"),
    ("while", r"while np\.PyArray_ITER_NOTDONE\(it\):$"),
    ("load", r"xv = \(<np\.npy_uintp\*>np\.PyArray_ITER_DATA\(it\)\)\[0\]$"),
    ("ptr", r"hv = <np\.npy_uintp\*>np\.PyArray_DATA\(h\) \+ (.*)$"),
    ("incr", r"hv\[(\d+)\] \+= (\d+)$"),
    ("next", r"np\.PyArray_ITER_NEXT\(it\)$"),
    ("ret", r"return h$"),
]


def _zexpr_simple(text, names):
    """integer expression over the given names, + - * and constants -> coq"""
    text = re.sub(r"<np\.npy_uintp>", "", text)
    n = ast.parse(text.strip(), mode="eval").body

    def go(n):
        if isinstance(n, ast.Constant) and isinstance(n.value, int):
            return "%d" % n.value
        if isinstance(n, ast.Name) and n.id in names:
            return names[n.id]
        if (isinstance(n, ast.Call) and isinstance(n.func, ast.Attribute) and n.func.attr == "max"
                and isinstance(n.func.value, ast.Name) and n.func.value.id == "x" and not n.args and "x.max()" in names):
            return names["x.max()"]
        if isinstance(n, ast.BinOp) and isinstance(n.op, (ast.Add, ast.Sub, ast.Mult)):
            op = {ast.Add: "+", ast.Sub: "-", ast.Mult: "*"}[type(n.op)]
            return "(%s %s %s)" % (go(n.left), op, go(n.right))
        raise Unsupported("histogram expression %s" % ast.dump(n))
    return go(n)


def histogram_parts(src):
    lines = []
    in_def = False
    in_doc = False
    for line in src.splitlines():
        s = line.strip()
        if not in_def:
            if s.startswith("def histogram(x):"):
                in_def = True
            continue
        if s.startswith('"""'):
            if not (s.endswith('"""') and len(s) > 3):
                in_doc = not in_doc
            continue
        if in_doc or not s or s.startswith("#"):
            continue
        lines.append(s)
    if not in_def:
        raise Unsupported("def histogram(x) not found")
    if len(lines) != len(HIST_PATTERNS):
        raise Unsupported("histogram body has %d statements, expected %d: %r" % (len(lines), len(HIST_PATTERNS), lines))
    got = {}
    for (key, pat), s in zip(HIST_PATTERNS, lines):
        m = re.match(pat, s)
        if not m:
            raise Unsupported("histogram statement %r does not match %s" % (s, key))
        got[key] = m.groups()
    nb = _zexpr_simple(got["nbins"][0], {"x.max()": "m"})
    if got["alloc"][0] != "nbins":
        raise Unsupported("h allocated with %r" % got["alloc"][0])
    off = _zexpr_simple(got["ptr"][0], {"xv": "xv"})
    return nb, off, int(got["incr"][0]), int(got["incr"][1]), lines


@register("PyxKernels.v", ["C20"])
def translate(repo):
    gsrc = (repo / GRAPH).read_text()
    hsrc = (repo / HIST).read_text()
    term, decorators, py = dilation_trace(gsrc)
    nb, off, eidx, inc, hlines = histogram_parts(hsrc)
    unchecked = any("boundscheck(False)" in d for d in decorators)
    text = """(* GENERATED by harness/translate/pyxkernels.py from
   %s (dilation) and %s (histogram) - do not edit. *)
From Coq Require Import ZArith List String Bool.
Import ListNotations.
Open Scope list_scope.
Open Scope Z_scope.

(* one raw element access: array name, first index, second index (0 for 1-d arrays), is-write *)
Record access := mk { a_arr : string; a_i : Z; a_j : Z; a_write : bool }.
Definition zn (l : list Z) (k : Z) : Z := nth (Z.to_nat k) l 0.
Definition zrange (lo hi : Z) : list Z := map (fun k => lo + Z.of_nat k) (seq 0 (Z.to_nat (hi - lo))).

Definition src_dilation_boundscheck_off : bool := %s.

(* every raw access of the dilation loop nest (superset over both branches of each `if`) *)
Definition src_dilation_trace (V D : Z) (idx neighb : list Z) : list access :=
  %s.

(* histogram: bins allocated for maximum m; pointer offset for value xv; element and increment of `hv[e] += c` *)
Definition src_hist_nbins (m : Z) : Z := %s.
Definition src_hist_offset (xv : Z) : Z := %s.
Definition src_hist_elem : Z := %d.
Definition src_hist_incr : Z := %d.
""" % (GRAPH, HIST, "true" if unchecked else "false", term, nb, off, eidx, inc)
    meta = {"sources": [GRAPH, HIST], "dilation_python": py, "histogram_statements": hlines}
    return text, meta
