"""Translate the straight-line index arithmetic and constants of
nipy/algorithms/kernel_smooth.py into Gallina (Generated/KernelSmooth.v).

Recognised (anything else raises - fail-closed):

  __init__        signature (coordmap, shape, fwhm, scale, location, cov), numeric defaults, and each
                  `self.<attr> = <argument>` storing the bare argument (no `or`, no conversion)
                                                              -> src_ctor_stores_arguments, src_default_*
  _setup_kernel   vox_center = <expr over self.bshape>        -> src_centre n
                  self.shape = (<expr over bshape, kernel.shape>).astype(np.intp)
                                                              -> src_buflen n k
                  self._kcenter = np.unravel_index(np.argmax(kernel), kernel.shape)  (literal)
  smooth          slicer = tuple(slice(<start>, <stop>) for i in range(len(self.bshape)))
                  over self.bshape[i], self._kernel.shape[i], self._kcenter[i]
                                                              -> src_win_start n k w, src_win_stop n k w
                  `if self.scale != 1: data = self.scale * data` then
                  `if self.location != 0.0: data += self.location`   (order and guards)
                                                              -> src_scale_then_location
  __call__        _normsq = self._normsq(X, axis) / <h>; t = np.less_equal(_normsq, <c>);
                  return np.exp(-np.minimum(_normsq, <c>)) * t -> src_half, src_cut
  _normsq         f = fwhm2sigma(self.fwhm) and `_X[i] /= f[i]` at the top level of the function:
                  NO guard on self.fwhm (an `if` mentioning self.fwhm raises)
                                                              -> src_sigma_always_applied
  _crop           default tol                                  -> src_tol
  fwhm2sigma      fwhm / np.sqrt(<a> * np.log(<b>))            -> src_f2s_a, src_f2s_b
  sigma2fwhm      sigma * np.sqrt(<a> * np.log(<b>))           -> src_s2f_a, src_s2f_b

  nipy/algorithms/fwhm.py, class Resels: the return expressions of resel2fwhm and fwhm2resel
  over np.sqrt, np.log, *, /, self.wedge, pos_recipr, np.power(., 1./self.D) (-> root) and
  np.power(., self.D) (-> ^ D)                                -> src_resel2fwhm, src_fwhm2resel (over R);
  Resels.__init__: _transform = self.coordmap.affine; self.wedge = <expr over np.fabs, det(_transform),
  np.power(., 1./self.D)>, det imported from numpy.linalg       -> src_wedge;
  Resels.integrate: the five assignments and the return tuple (literal) -> src_integrate_is_masked_mean

Expressions are translated with types: integers stay in Z, `/` goes to Q,
np.floor/np.ceil come back to Z (Qfloor/Qceiling), `//` is Z.div.
np.array/np.asarray wrappers are dropped (the arithmetic is element-wise, the
model is per axis).
"""
import ast
from fractions import Fraction

from . import register

SRC = "nipy/algorithms/kernel_smooth.py"


class Unsupported(Exception):
    pass


def _attr_chain(n):
    parts = []
    while isinstance(n, ast.Attribute):
        parts.append(n.attr)
        n = n.value
    if isinstance(n, ast.Name):
        parts.append(n.id)
        return ".".join(reversed(parts))
    return None


def _var(n, env):
    """a per-axis variable: self.bshape / self.bshape[i] / kernel.shape / self._kernel.shape[i]"""
    if isinstance(n, ast.Subscript) and isinstance(n.slice, ast.Name) and n.slice.id == "i":
        n = n.value
    ch = _attr_chain(n)
    if ch in env:
        return env[ch]
    return None


def tr(n, env):
    """-> (coq string, 'Z' | 'Q')"""
    v = _var(n, env)
    if v is not None:
        return v, "Z"
    if isinstance(n, ast.Constant):
        if isinstance(n.value, bool):
            raise Unsupported("bool constant")
        if isinstance(n.value, int):
            return "(%d)" % n.value, "Z"
        if isinstance(n.value, float) and float(n.value).is_integer():
            return "(%d)" % int(n.value), "Z"       # 2.0: the division itself is what leaves Z
        raise Unsupported("constant %r" % (n.value,))
    if isinstance(n, ast.Call):
        ch = _attr_chain(n.func)
        if ch in ("np.array", "np.asarray") and len(n.args) == 1 and not n.keywords:
            return tr(n.args[0], env)
        if ch in ("np.floor", "np.ceil") and len(n.args) == 1 and not n.keywords:
            s, t = tr(n.args[0], env)
            if t == "Z":
                return s, "Z"
            return "(%s %s)" % ("Qfloor" if ch == "np.floor" else "Qceiling", s), "Z"
        if isinstance(n.func, ast.Attribute) and n.func.attr == "astype" and len(n.args) == 1 \
                and _attr_chain(n.args[0]) in ("np.intp", "np.int64", "int"):
            s, t = tr(n.func.value, env)
            if t != "Z":
                raise Unsupported("astype(int) of a non-integral expression")
            return s, "Z"
        raise Unsupported("call " + ast.dump(n.func))
    if isinstance(n, ast.BinOp):
        a, ta = tr(n.left, env)
        b, tb = tr(n.right, env)
        if isinstance(n.op, ast.Div):
            return "(Qdiv %s %s)" % (toq(a, ta), toq(b, tb)), "Q"
        if isinstance(n.op, ast.FloorDiv):
            if ta == tb == "Z":
                return "(Z.div %s %s)" % (a, b), "Z"
            raise Unsupported("// on non-integers")
        ops = {ast.Add: ("Z.add", "Qplus"), ast.Sub: ("Z.sub", "Qminus"), ast.Mult: ("Z.mul", "Qmult")}
        for k, (zo, qo) in ops.items():
            if isinstance(n.op, k):
                if ta == tb == "Z":
                    return "(%s %s %s)" % (zo, a, b), "Z"
                return "(%s %s %s)" % (qo, toq(a, ta), toq(b, tb)), "Q"
        raise Unsupported("operator " + type(n.op).__name__)
    raise Unsupported("expression " + ast.dump(n)[:80])


def tr_real(n, var):
    """expression of fwhm.py over the reals"""
    if isinstance(n, ast.Name) and n.id == var:
        return "v"
    if _attr_chain(n) == "self.wedge":
        return "wedge"
    if isinstance(n, ast.Constant) and isinstance(n.value, (int, float)) and not isinstance(n.value, bool) and float(n.value).is_integer():
        return "(IZR (%d))" % int(n.value)
    if isinstance(n, ast.BinOp) and isinstance(n.op, (ast.Mult, ast.Div)):
        return "(%s %s %s)" % ("Rmult" if isinstance(n.op, ast.Mult) else "Rdiv", tr_real(n.left, var), tr_real(n.right, var))
    if isinstance(n, ast.Call) and not n.keywords:
        ch = _attr_chain(n.func)
        if ch == "np.sqrt" and len(n.args) == 1:
            return "(sqrt %s)" % tr_real(n.args[0], var)
        if ch == "np.log" and len(n.args) == 1:
            return "(ln %s)" % tr_real(n.args[0], var)
        if ch == "np.fabs" and len(n.args) == 1:
            return "(Rabs %s)" % tr_real(n.args[0], var)
        if ch == "det" and len(n.args) == 1 and isinstance(n.args[0], ast.Name) and n.args[0].id == var:
            return "v"
        if ch == "pos_recipr" and len(n.args) == 1:
            return "(pos_recipr %s)" % tr_real(n.args[0], var)
        if ch == "np.power" and len(n.args) == 2:
            e = ast.unparse(n.args[1])
            if e == "self.D":
                return "(pow %s D)" % tr_real(n.args[0], var)
            if e in ("1.0 / self.D", "1 / self.D"):
                return "(root %s)" % tr_real(n.args[0], var)
            raise Unsupported("np.power exponent " + e)
    raise Unsupported("real expression " + ast.unparse(n)[:80])


def toq(s, t):
    return s if t == "Q" else "(inject_Z %s)" % s


def _func(tree, name, cls=None):
    body = tree.body
    if cls is not None:
        for n in body:
            if isinstance(n, ast.ClassDef) and n.name == cls:
                body = n.body
                break
        else:
            raise Unsupported("class %s not found" % cls)
    for n in body:
        if isinstance(n, ast.FunctionDef) and n.name == name:
            return n
    raise Unsupported("function %s not found" % name)


def _assign_to(fn, target):
    """the unique assignment `target = value` anywhere in fn"""
    found = []
    for n in ast.walk(fn):
        if isinstance(n, ast.Assign) and len(n.targets) == 1:
            t = n.targets[0]
            ch = _attr_chain(t) if isinstance(t, (ast.Attribute, ast.Name)) else None
            if ch == target:
                found.append(n.value)
    if len(found) != 1:
        raise Unsupported("expected exactly one assignment to %s, found %d" % (target, len(found)))
    return found[0]


def _num(n):
    if isinstance(n, ast.Constant) and isinstance(n.value, (int, float)) and not isinstance(n.value, bool):
        return n.value
    raise Unsupported("numeric constant expected: " + ast.dump(n)[:60])


def _qlit(x, text=None):
    fr = Fraction(text) if text is not None else Fraction(x)
    return "(Qmake (%d) %d)" % (fr.numerator, fr.denominator)


def _sqrt_log(n, var):
    """<var> (/|*) np.sqrt(a * np.log(b)) -> (op, a, b)"""
    if not (isinstance(n, ast.BinOp) and isinstance(n.op, (ast.Div, ast.Mult)) and isinstance(n.left, ast.Name) and n.left.id == var):
        raise Unsupported("conversion form")
    c = n.right
    if not (isinstance(c, ast.Call) and _attr_chain(c.func) == "np.sqrt" and len(c.args) == 1):
        raise Unsupported("np.sqrt expected")
    m = c.args[0]
    if not (isinstance(m, ast.BinOp) and isinstance(m.op, ast.Mult)):
        raise Unsupported("a * np.log(b) expected")
    lg = m.right
    if not (isinstance(lg, ast.Call) and _attr_chain(lg.func) == "np.log" and len(lg.args) == 1):
        raise Unsupported("np.log expected")
    a, b = _num(m.left), _num(lg.args[0])
    if not (float(a).is_integer() and float(b).is_integer()):
        raise Unsupported("integral constants expected")
    return ("div" if isinstance(n.op, ast.Div) else "mul"), int(a), int(b)


@register("KernelSmooth.v", ["C18"])
def translate(repo):
    path = repo / SRC
    src = path.read_text()
    tree = ast.parse(src)
    meta = {"source": SRC}
    out = ["(* GENERATED from %s by harness/translate/kernelsmooth.py - do not edit *)" % SRC,
           "From Coq Require Import ZArith QArith Qround.", "Open Scope Z_scope.", ""]
    # ---- __init__: every argument is stored as given; defaults
    init = _func(tree, "__init__", "LinearFilter")
    names = [a.arg for a in init.args.args]
    if names != ["self", "coordmap", "shape", "fwhm", "scale", "location", "cov"]:
        raise Unsupported("LinearFilter.__init__ signature: %r" % names)
    dfl = [ast.unparse(d) for d in init.args.defaults]
    if len(dfl) != 4 or dfl[3] != "None":
        raise Unsupported("LinearFilter.__init__ defaults: %r" % dfl)
    stores = {"self.coordmap": "coordmap", "self.bshape": "shape", "self.fwhm": "fwhm", "self.scale": "scale",
              "self.location": "location", "self.cov": "cov"}
    for tgt, src_name in stores.items():
        v = _assign_to(init, tgt)
        if not (isinstance(v, ast.Name) and v.id == src_name):
            raise Unsupported("LinearFilter.__init__: %s = %s (the argument must be stored unchanged)" % (tgt, ast.unparse(v)))
    out.append("Definition src_ctor_stores_arguments : bool := true.")
    for nm, d in zip(("fwhm", "scale", "location"), init.args.defaults[:3]):
        out.append("Definition src_default_%s : Q := %s." % (nm, _qlit(_num(d))))
    # ---- _setup_kernel
    sk = _func(tree, "_setup_kernel", "LinearFilter")
    env = {"self.bshape": "n", "kernel.shape": "k", "self._kernel.shape": "k", "self._kcenter": "w"}
    s, t = tr(_assign_to(sk, "vox_center"), env)
    if t != "Z":
        raise Unsupported("vox_center is not integral")
    out.append("Definition src_centre (n : Z) : Z := %s." % s)
    s, t = tr(_assign_to(sk, "self.shape"), env)
    if t != "Z":
        raise Unsupported("self.shape is not integral")
    out.append("Definition src_buflen (n k : Z) : Z := %s." % s)
    # kernel and data go to the origin of the buffer
    sl = _assign_to(sk, "slices")
    if ast.unparse(sl) != "[slice(0, kernel.shape[i]) for i in range(len(kernel.shape))]":
        raise Unsupported("kernel placement: " + ast.unparse(sl))
    ps = _func(tree, "_presmooth", "LinearFilter")
    sl = _assign_to(ps, "slices")
    if ast.unparse(sl) != "[slice(0, self.bshape[i], 1) for i in range(len(self.shape))]":
        raise Unsupported("data placement: " + ast.unparse(sl))
    kc = _assign_to(sk, "self._kcenter")
    if ast.unparse(kc) != "np.unravel_index(np.argmax(kernel), kernel.shape)":
        raise Unsupported("_kcenter: " + ast.unparse(kc))
    # ... computed from the cropped kernel: after `kernel = _crop(kernel)`
    crop_line = [n.lineno for n in ast.walk(sk) if isinstance(n, ast.Assign) and ast.unparse(n) == "kernel = _crop(kernel)"]
    kc_line = [n.lineno for n in ast.walk(sk) if isinstance(n, ast.Assign) and ast.unparse(n.targets[0]) == "self._kcenter"]
    if len(crop_line) != 1 or kc_line[0] < crop_line[0]:
        raise Unsupported("_kcenter must be taken from the cropped kernel")
    out.append("Definition src_kernel_origin : Z := 0.")
    out.append("Definition src_data_origin : Z := 0.")
    # ---- smooth: window
    sm = _func(tree, "smooth", "LinearFilter")
    sv = _assign_to(sm, "slicer")
    ok = (isinstance(sv, ast.Call) and isinstance(sv.func, ast.Name) and sv.func.id == "tuple" and len(sv.args) == 1
          and isinstance(sv.args[0], ast.GeneratorExp))
    if not ok:
        raise Unsupported("slicer form")
    ge = sv.args[0]
    if ast.unparse(ge.generators[0].iter) != "range(len(self.bshape))" or ge.generators[0].target.id != "i":
        raise Unsupported("slicer generator")
    c = ge.elt
    if not (isinstance(c, ast.Call) and isinstance(c.func, ast.Name) and c.func.id == "slice" and len(c.args) == 2):
        raise Unsupported("slice(start, stop) expected")
    s0, t0 = tr(c.args[0], env)
    s1, t1 = tr(c.args[1], env)
    if t0 != "Z" or t1 != "Z":
        raise Unsupported("window bounds not integral")
    out.append("Definition src_win_start (n k w : Z) : Z := %s." % s0)
    out.append("Definition src_win_stop (n k w : Z) : Z := %s." % s1)
    # the window is returned as computed (float64), no cast back to the input's storage type
    outs = [ast.unparse(n.value) for n in ast.walk(sm) if isinstance(n, ast.Assign) and ast.unparse(n.targets[0]) == "_out"
            and "slicer" in ast.unparse(n.value)]
    if outs != ["_out[slicer]"]:
        raise Unsupported("window statement: %r" % outs)
    out.append("Definition src_window_not_cast : bool := true.")
    # normalisation
    norm = None
    for n in ast.walk(sm):
        if isinstance(n, ast.Assign) and ast.unparse(n.targets[0]) == "data" and "irfftn" in ast.unparse(n.value):
            norm = ast.unparse(n.value)
    if norm != "fft.irfftn(data) / self.norms[self.normalization]":
        raise Unsupported("normalisation: %r" % norm)
    # scale then location
    ifs = [n for n in ast.walk(sm) if isinstance(n, ast.If) and ast.unparse(n.test) in ("self.scale != 1", "self.location != 0.0")]
    ifs.sort(key=lambda n: n.lineno)
    if [ast.unparse(n.test) for n in ifs] != ["self.scale != 1", "self.location != 0.0"]:
        raise Unsupported("scale/location guards")
    if [ast.unparse(b) for b in ifs[0].body] != ["data = self.scale * data"] or [ast.unparse(b) for b in ifs[1].body] != ["data += self.location"]:
        raise Unsupported("scale/location bodies: %r %r" % ([ast.unparse(b) for b in ifs[0].body], [ast.unparse(b) for b in ifs[1].body]))
    out.append("Definition src_scale_then_location (scale loc d : Q) : Q := (scale * d + loc)%Q.")
    # ---- __call__
    cl = _func(tree, "__call__", "LinearFilter")
    v = _assign_to(cl, "_normsq")
    if not (isinstance(v, ast.BinOp) and isinstance(v.op, ast.Div) and ast.unparse(v.left) == "self._normsq(X, axis)"):
        raise Unsupported("_normsq / h")
    half = _num(v.right)
    tt = _assign_to(cl, "t")
    if not (isinstance(tt, ast.Call) and _attr_chain(tt.func) == "np.less_equal" and ast.unparse(tt.args[0]) == "_normsq"):
        raise Unsupported("cut test")
    cutv = _num(tt.args[1])
    ret = [n for n in cl.body if isinstance(n, ast.Return)]
    if len(ret) != 1 or ast.unparse(ret[0].value) != "np.exp(-np.minimum(_normsq, %s)) * t" % ast.unparse(tt.args[1]):
        raise Unsupported("kernel value form: " + ast.unparse(ret[0].value))
    out.append("Definition src_half : Q := %s." % _qlit(half))
    out.append("Definition src_cut : Q := %s." % _qlit(cutv))
    # ---- _normsq: the division by fwhm2sigma(fwhm) is unconditional
    ns = _func(tree, "_normsq", "LinearFilter")
    for n in ast.walk(ns):
        if isinstance(n, (ast.If, ast.IfExp)) and "self.fwhm" in ast.unparse(n.test):
            raise Unsupported("guard on self.fwhm in _normsq: " + ast.unparse(n.test))
    top = [ast.unparse(b) for b in ns.body]
    if "f = fwhm2sigma(self.fwhm)" not in top:
        raise Unsupported("f = fwhm2sigma(self.fwhm) not at the top level of _normsq")
    loops = [b for b in ns.body if isinstance(b, ast.For) and ast.unparse(b.iter) == "range(len(self.bshape))"]
    if len(loops) != 1 or [ast.unparse(b) for b in loops[0].body] != ["_X[i] /= f[i]"]:
        raise Unsupported("scaling loop `_X[i] /= f[i]`")
    out.append("Definition src_sigma_always_applied : bool := true.")
    # the points are copied before they are rescaled in place
    xs = [ast.unparse(n.value) for n in ns.body if isinstance(n, ast.Assign) and ast.unparse(n.targets[0]) == "_X"]
    if xs[:2] != ["np.array(X, dtype=np.float64)", "np.rollaxis(_X, axis)"]:      # a COPY, as float64 (integer points)
        raise Unsupported("_normsq must copy the points as float64 first: %r" % xs[:2])
    out.append("Definition src_normsq_copies_points : bool := true.")
    d2 = _assign_to(ns, "D2")
    if ast.unparse(d2) != "np.sum(_X ** 2, axis=0)":
        raise Unsupported("D2: " + ast.unparse(d2))
    # ---- _crop tol
    cr = _func(tree, "_crop")
    if [a.arg for a in cr.args.args] != ["X", "tol"] or len(cr.args.defaults) != 1:
        raise Unsupported("_crop signature")
    out.append("Definition src_tol : Q := %s." % _qlit(None, ast.get_source_segment(src, cr.args.defaults[0])))
    # ---- conversions
    for name, var, pre in (("fwhm2sigma", "fwhm", "f2s"), ("sigma2fwhm", "sigma", "s2f")):
        fn = _func(tree, name)
        ret = [n for n in fn.body if isinstance(n, ast.Return)]
        if len(ret) != 1:
            raise Unsupported(name)
        op, a, b = _sqrt_log(ret[0].value, var)
        want = "div" if name == "fwhm2sigma" else "mul"
        if op != want:
            raise Unsupported("%s: operator %s" % (name, op))
        out.append("Definition src_%s_a : Z := %d." % (pre, a))
        out.append("Definition src_%s_b : Z := %d." % (pre, b))
    # ---- fwhm.py: Resels conversions
    ftree = ast.parse((repo / "nipy/algorithms/fwhm.py").read_text())
    out.append("")
    out.append("From Coq Require Import Reals.")
    for name, var in (("resel2fwhm", "resels"), ("fwhm2resel", "fwhm")):
        fn = _func(ftree, name, "Resels")
        ret = [n for n in fn.body if isinstance(n, ast.Return)]
        if len(ret) != 1 or [a.arg for a in fn.args.args] != ["self", var]:
            raise Unsupported("Resels." + name)
        out.append("Definition src_%s (pos_recipr root : R -> R) (D : nat) (wedge v : R) : R := %s%%R." % (name, tr_real(ret[0].value, var)))
    # Resels.__init__: wedge = |det(affine)| ** (1/D), det = numpy.linalg.det
    imp = [n for n in ftree.body if isinstance(n, ast.ImportFrom) and n.module == "numpy.linalg"]
    if not any(a.name == "det" and a.asname is None for n in imp for a in n.names):
        raise Unsupported("fwhm.py: `from numpy.linalg import det` expected")
    init = _func(ftree, "__init__", "Resels")
    if ast.unparse(_assign_to(init, "_transform")) != "self.coordmap.affine":
        raise Unsupported("Resels.__init__: _transform")
    out.append("Definition src_wedge (pos_recipr root : R -> R) (D : nat) (wedge v : R) : R := %s%%R."
               % tr_real(_assign_to(init, "self.wedge"), "_transform"))
    # Resels.integrate: masked sum, voxel count, average converted to FWHM
    ig = _func(ftree, "integrate", "Resels")
    want = {"_resels": ["self.resels[:]", "(_resels * _mask).sum()"], "nvoxel": ["_mask.sum()", "_resels.size"],
            "_fwhm": ["self.resel2fwhm(_resels / nvoxel)"]}
    got = {}
    for n in ast.walk(ig):
        if isinstance(n, ast.Assign) and len(n.targets) == 1 and isinstance(n.targets[0], ast.Name) and n.targets[0].id in want:
            got.setdefault(n.targets[0].id, []).append(ast.unparse(n.value))
    if got != want:
        raise Unsupported("Resels.integrate: %r" % got)
    ret = [n for n in ig.body if isinstance(n, ast.Return)]
    if len(ret) != 1 or ast.unparse(ret[0].value) != "(_resels, _fwhm, nvoxel)":
        raise Unsupported("Resels.integrate return")
    out.append("Definition src_integrate_is_masked_mean : bool := true.")
    meta["sources"] = [SRC, "nipy/algorithms/fwhm.py"]
    meta["definitions"] = sum(1 for l in out if l.startswith("Definition"))
    return "\n".join(out) + "\n", meta
