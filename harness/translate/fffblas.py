"""Translate the flag-swap / operand-order logic of lib/fff/fff_blas.c into Gallina.

fff matrices are row-major; the wrapped BLAS routines are Fortran (column
major).  Each `fff_blas_<r>` wrapper derives the character flags, dimensions
and operand order of ONE Fortran call from its C arguments.  This translator
parses, from the CURRENT C text (fail-closed: anything unrecognised raises):

  * the CBLAS enums of fff_blas.h                  -> Inductive cflag
  * every function-like macro (DIAG / TRANS / SWAP_TRANS / SWAP_UPLO /
    SWAP_SIDE today), which must have the body
    `( (P)==(Const) ? "X" : "Y" )`                 -> Inductive macro, mac_apply
    (in definition order; any other #define except FNAME raises)
  * `#define FNAME FFF_FNAME` and the `extern int FNAME(<r>)(...)` prototype of
    every covered routine (type pattern char*/int*/double* must be the
    reference BLAS one)
  * for every covered wrapper: the C signature, the local definitions
        char* v = MACRO(Param);
        int v = [(int)] X->size1|size2|tda|size|stride;
        int v = (Param == Const) ? [(int)]X->f : [(int)]X->g;
    and the single `return( FNAME(<r>)(args) );` whose arguments must be a
    char local, `&int-local`, `&alpha|&beta` or `X->data`; locals are inlined.

Output (Generated/FffBlas.v): per routine `fff_blas_<r>_call : fcall`, the
argument list of the Fortran call as data:
    AChar macro cparam | AInt dimexpr | AScal scalar | ABuf operand
so a dropped SWAP_*, a swapped transA/transB, a different operand order or a
different dimension expression changes the table (the proofs in
C16/BlasProofs.v are about this table and the model interprets it).
"""
import re

from . import register

SRC_C = "lib/fff/fff_blas.c"
SRC_H = "lib/fff/fff_blas.h"

ROUTINES = ["dgemv", "dtrsv", "dgemm", "dsymm", "dtrmm", "dtrsm", "dsyrk", "dsyr2k"]

# reference Fortran prototypes (type pattern of the arguments), BLAS standard
FPROTO = {
    "dgemv": "c i i d d i d i d d i",
    "dtrsv": "c c c i d i d i",
    "dgemm": "c c i i i d d i d i d d i",
    "dsymm": "c c i i d d i d i d d i",
    "dtrmm": "c c c c i i d d i d i",
    "dtrsm": "c c c c i i d d i d i",
    "dsyrk": "c c i i d d i d d i",
    "dsyr2k": "c c i i d d i d i d d i",
}
# for each double* position of the prototype: scalar ('s') or array ('a')
FDOUBLE = {
    "dgemv": "s a a s a", "dtrsv": "a a", "dgemm": "s a a s a", "dsymm": "s a a s a",
    "dtrmm": "s a a", "dtrsm": "s a a", "dsyrk": "s a s a", "dsyr2k": "s a a s a",
}

ENUM_TYPES = {"CBLAS_ORDER_t", "CBLAS_TRANSPOSE_t", "CBLAS_UPLO_t", "CBLAS_DIAG_t", "CBLAS_SIDE_t"}
CPARAMS = {"TransA": "PTransA", "TransB": "PTransB", "Trans": "PTrans", "Uplo": "PUplo", "Diag": "PDiag",
           "Side": "PSide"}
PARAM_TYPE = {"PTransA": "CBLAS_TRANSPOSE_t", "PTransB": "CBLAS_TRANSPOSE_t", "PTrans": "CBLAS_TRANSPOSE_t",
              "PUplo": "CBLAS_UPLO_t", "PDiag": "CBLAS_DIAG_t", "PSide": "CBLAS_SIDE_t"}
OPERANDS = {"A": "OpA", "B": "OpB", "C": "OpC", "x": "OpX", "y": "OpY"}
SCALARS = {"alpha": "SAlpha", "beta": "SBeta"}
FCHARS = {"N": "fN", "T": "fT", "U": "fU", "L": "fL", "R": "fR"}
MAT_FIELDS = {"size1": "DSize1", "size2": "DSize2", "tda": "DTda"}
VEC_FIELDS = {"size": "DVSize", "stride": "DStride"}


class Unsupported(Exception):
    pass


def _strip_comments(t):
    return re.sub(r"/\*.*?\*/", lambda m: " " + "\n" * m.group(0).count("\n"), t, flags=re.S)


def parse_enums(htext):
    """typedef enum {Name=val, ...} TYPE; -> {TYPE: [names]} (only CBLAS_* enums)."""
    out = {}
    for m in re.finditer(r"typedef\s+enum\s*\{([^}]*)\}\s*(\w+)\s*;", htext):
        body, tname = m.group(1), m.group(2)
        if tname not in ENUM_TYPES:
            raise Unsupported("unexpected enum type %s" % tname)
        names = []
        seen_vals = set()
        for item in body.split(","):
            mm = re.fullmatch(r"\s*(\w+)\s*=\s*(\d+)\s*", item)
            if not mm:
                raise Unsupported("enum item %r" % item)
            if mm.group(2) in seen_vals:
                raise Unsupported("duplicate enum value in %s" % tname)
            seen_vals.add(mm.group(2))
            names.append(mm.group(1))
        out[tname] = names
    if set(out) != ENUM_TYPES:
        raise Unsupported("enums found: %s" % sorted(out))
    allnames = [n for t in out.values() for n in t]
    if len(set(allnames)) != len(allnames):
        raise Unsupported("duplicate enum constant")
    return out


def parse_macros(ctext, enums):
    """#define NAME(P) ( (P)==(Const) ? "X" : "Y" )  ->  {NAME: (enumtype, Const, X, Y)}"""
    const_type = {n: t for t, ns in enums.items() for n in ns}
    macros = {}
    for line in ctext.splitlines():
        s = line.strip()
        if not s.startswith("#define"):
            continue
        m = re.fullmatch(r"#define\s+(\w+)\((\w+)\)\s+(.*)", s)
        if not m:
            if re.fullmatch(r"#define\s+FNAME\s+FFF_FNAME", s):
                macros["__FNAME__"] = True
                continue
            raise Unsupported("unrecognised #define: %r" % s)
        name, par, body = m.groups()
        mb = re.fullmatch(r'\(\s*\(\s*(\w+)\s*\)\s*==\s*\(\s*(\w+)\s*\)\s*\?\s*"(\w)"\s*:\s*"(\w)"\s*\)', body)
        if not mb:
            raise Unsupported("macro body of %s: %r" % (name, body))
        if mb.group(1) != par:
            raise Unsupported("macro %s tests %s, not its parameter" % (name, mb.group(1)))
        const = mb.group(2)
        if const not in const_type:
            raise Unsupported("macro %s compares with unknown constant %s" % (name, const))
        for ch in (mb.group(3), mb.group(4)):
            if ch not in FCHARS:
                raise Unsupported("macro %s yields unknown character %r" % (name, ch))
        if name in macros:
            raise Unsupported("macro %s defined twice" % name)
        macros[name] = (const_type[const], const, mb.group(3), mb.group(4))
    if "__FNAME__" not in macros:
        raise Unsupported("#define FNAME FFF_FNAME not found")
    del macros["__FNAME__"]
    if not macros:
        raise Unsupported("no flag macros found")
    return macros


def parse_externs(ctext):
    """extern int FNAME(name)(type *a, ...); -> {name: 'c i d ...'}"""
    out = {}
    for m in re.finditer(r"extern\s+(\w+)\s+FNAME\((\w+)\)\s*\(([^;]*)\)\s*;", ctext):
        ret, name, args = m.groups()
        pat = []
        for a in args.split(","):
            a = " ".join(a.split())
            mm = re.fullmatch(r"(char|int|double)\s*\*\s*\w+", a)
            if not mm:
                raise Unsupported("extern %s: argument %r" % (name, a))
            pat.append(mm.group(1)[0])
        if name in out:
            raise Unsupported("extern %s declared twice" % name)
        out[name] = (ret, " ".join(pat))
    return out


def _split_args(s):
    parts, depth, cur = [], 0, ""
    for ch in s:
        if ch == "(":
            depth += 1
        elif ch == ")":
            depth -= 1
        if ch == "," and depth == 0:
            parts.append(cur)
            cur = ""
        else:
            cur += ch
    parts.append(cur)
    return [" ".join(p.split()) for p in parts]


def _field_expr(tok, kinds):
    """[(int)] X->field  -> dimexpr string"""
    m = re.fullmatch(r"(?:\(\s*int\s*\)\s*)?(\w+)\s*->\s*(\w+)", tok.strip())
    if not m:
        raise Unsupported("dimension expression %r" % tok)
    var, field = m.groups()
    if var not in kinds:
        raise Unsupported("unknown operand %r in %r" % (var, tok))
    if kinds[var] == "matrix" and field in MAT_FIELDS:
        return "%s %s" % (MAT_FIELDS[field], OPERANDS[var])
    if kinds[var] == "vector" and field in VEC_FIELDS:
        return "%s %s" % (VEC_FIELDS[field], OPERANDS[var])
    raise Unsupported("field %s of %s %s" % (field, kinds[var], var))


def parse_wrapper(ctext, name, macros, enums, externs):
    m = re.search(r"\bint\s+fff_blas_%s\s*\(([^)]*)\)\s*\{" % name, ctext)
    if not m:
        raise Unsupported("wrapper fff_blas_%s not found" % name)
    if len(re.findall(r"\bfff_blas_%s\s*\(" % name, ctext)) != 1:
        raise Unsupported("fff_blas_%s appears more than once" % name)
    # body up to the matching closing brace (no nested braces allowed)
    start = m.end()
    end = ctext.index("}", start)
    body = ctext[start:end]
    if "{" in body:
        raise Unsupported("nested block in fff_blas_%s" % name)
    line0 = ctext[:m.start()].count("\n") + 1
    line1 = ctext[:end].count("\n") + 1
    # ---- signature
    flags, kinds, scalars, sig = {}, {}, set(), []
    for p in _split_args(m.group(1)):
        mm = re.fullmatch(r"(CBLAS_\w+_t)\s+(\w+)", p)
        if mm:
            t, v = mm.groups()
            if v not in CPARAMS or PARAM_TYPE[CPARAMS[v]] != t:
                raise Unsupported("%s: flag parameter %r" % (name, p))
            flags[v] = t
            sig.append("SFlag %s" % CPARAMS[v])
            continue
        mm = re.fullmatch(r"double\s+(\w+)", p)
        if mm and mm.group(1) in SCALARS:
            scalars.add(mm.group(1))
            sig.append("SScal %s" % SCALARS[mm.group(1)])
            continue
        mm = re.fullmatch(r"(const\s+)?fff_(matrix|vector)\s*\*\s*(\w+)", p)
        if mm and mm.group(3) in OPERANDS:
            kinds[mm.group(3)] = mm.group(2)
            sig.append("S%s %s" % ("Mat" if mm.group(2) == "matrix" else "Vec", OPERANDS[mm.group(3)]))
            continue
        raise Unsupported("%s: parameter %r" % (name, p))
    # ---- statements
    stmts = [" ".join(s.split()) for s in body.split(";")]
    stmts = [s for s in stmts if s]
    if not stmts or not stmts[-1].startswith("return"):
        raise Unsupported("%s: last statement is not a return" % name)
    chars, ints = {}, {}
    for s in stmts[:-1]:
        mm = re.fullmatch(r"char\s*\*\s*(\w+)\s*=\s*(\w+)\s*\(\s*(\w+)\s*\)", s)
        if mm:
            v, mac, par = mm.groups()
            if mac not in macros:
                raise Unsupported("%s: unknown macro %s" % (name, mac))
            if par not in flags:
                raise Unsupported("%s: macro applied to non-flag %s" % (name, par))
            if macros[mac][0] != flags[par]:
                raise Unsupported("%s: macro %s (about %s) applied to %s of type %s" % (
                    name, mac, macros[mac][0], par, flags[par]))
            if v in chars or v in ints:
                raise Unsupported("%s: %s redefined" % (name, v))
            chars[v] = "AChar M_%s %s" % (mac, CPARAMS[par])
            continue
        mm = re.fullmatch(r"int\s+(\w+)\s*=\s*(.*)", s)
        if mm:
            v, rhs = mm.groups()
            if v in chars or v in ints:
                raise Unsupported("%s: %s redefined" % (name, v))
            mc = re.fullmatch(r"\(\s*(\w+)\s*==\s*(\w+)\s*\)\s*\?\s*(.*?)\s*:\s*(.*)", rhs)
            if mc:
                par, const, a, b = mc.groups()
                if par not in flags or const not in enums[flags[par]]:
                    raise Unsupported("%s: condition %r" % (name, rhs))
                ints[v] = "DIfEq %s %s (%s) (%s)" % (CPARAMS[par], const, _field_expr(a, kinds), _field_expr(b, kinds))
            else:
                ints[v] = _field_expr(rhs, kinds)
            continue
        raise Unsupported("%s: statement %r" % (name, s))
    # ---- the Fortran call
    mm = re.fullmatch(r"return\s*\(\s*FNAME\s*\(\s*(\w+)\s*\)\s*\((.*)\)\s*\)", stmts[-1])
    if not mm:
        raise Unsupported("%s: return statement %r" % (name, stmts[-1]))
    if mm.group(1) != name:
        raise Unsupported("%s calls Fortran routine %s" % (name, mm.group(1)))
    if name not in externs or externs[name] != ("int", FPROTO[name]):
        raise Unsupported("%s: extern prototype %r is not the reference BLAS one" % (name, externs.get(name)))
    proto = FPROTO[name].split()
    dkinds = iter(FDOUBLE[name].split())
    args = _split_args(mm.group(2))
    if len(args) != len(proto):
        raise Unsupported("%s: %d arguments passed, prototype has %d" % (name, len(args), len(proto)))
    out, used = [], set()
    for a, t in zip(args, proto):
        if t == "c":
            if a not in chars:
                raise Unsupported("%s: char argument %r" % (name, a))
            out.append(chars[a])
            used.add(a)
        elif t == "i":
            ma = re.fullmatch(r"&\s*(\w+)", a)
            if not ma or ma.group(1) not in ints:
                raise Unsupported("%s: int argument %r" % (name, a))
            out.append("AInt (%s)" % ints[ma.group(1)])
            used.add(ma.group(1))
        else:
            dk = next(dkinds)
            ma = re.fullmatch(r"&\s*(\w+)", a)
            mb = re.fullmatch(r"(\w+)\s*->\s*data", a)
            if dk == "s" and ma and ma.group(1) in scalars:
                out.append("AScal %s" % SCALARS[ma.group(1)])
            elif dk == "a" and mb and mb.group(1) in kinds:
                out.append("ABuf %s" % OPERANDS[mb.group(1)])
            else:
                raise Unsupported("%s: double* argument %r (expected %s)" % (
                    name, a, "scalar" if dk == "s" else "array"))
    unused = (set(chars) | set(ints)) - used
    if unused:
        raise Unsupported("%s: locals defined but not passed: %s" % (name, sorted(unused)))
    return {"sig": sig, "args": out, "span": [line0, line1]}


def _coq(enums, macros, calls):
    consts = [n for t in ("CBLAS_ORDER_t", "CBLAS_TRANSPOSE_t", "CBLAS_UPLO_t", "CBLAS_DIAG_t", "CBLAS_SIDE_t")
              for n in enums[t]]
    o = ["(* GENERATED from %s and %s by harness/translate/fffblas.py - do not edit *)" % (SRC_C, SRC_H),
         "From Coq Require Import List.", "Import ListNotations.", "",
         "(* constants of the CBLAS_* enums in fff_blas.h *)",
         "Inductive cflag := %s." % " | ".join(consts), "",
         "(* characters handed to Fortran *)",
         "Inductive fchar := fN | fT | fU | fL | fR.", "",
         "(* the flag macros of fff_blas.c: ( (P)==(Const) ? \"X\" : \"Y\" ) *)",
         "Inductive macro := %s." % " | ".join("M_" + m for m in macros),
         "Definition mac_apply (m : macro) (f : cflag) : fchar :=", "  match m with"]
    for mname in macros:
        _, const, a, b = macros[mname]
        o.append("  | M_%s => match f with %s => %s | _ => %s end" % (mname, const, FCHARS[a], FCHARS[b]))
    o += ["  end.", "",
          "Inductive cparam := PTransA | PTransB | PTrans | PUplo | PDiag | PSide.",
          "Inductive operand := OpA | OpB | OpC | OpX | OpY.",
          "Inductive scalar := SAlpha | SBeta.",
          "Inductive dimexpr :=",
          "| DSize1 (o : operand) | DSize2 (o : operand) | DTda (o : operand)",
          "| DVSize (o : operand) | DStride (o : operand)",
          "| DIfEq (p : cparam) (c : cflag) (a b : dimexpr).",
          "Inductive farg := AChar (m : macro) (p : cparam) | AInt (d : dimexpr) | AScal (s : scalar) | ABuf (o : operand).",
          "Inductive sigitem := SFlag (p : cparam) | SScal (s : scalar) | SMat (o : operand) | SVec (o : operand).",
          "Inductive froutine := %s." % " | ".join("F_" + r for r in ROUTINES),
          "Record fcall := { fc_routine : froutine; fc_sig : list sigitem; fc_args : list farg }.", ""]
    for r in ROUTINES:
        c = calls[r]
        o.append("(* %s:%d-%d *)" % (SRC_C, c["span"][0], c["span"][1]))
        o.append("Definition fff_blas_%s_call : fcall := {|" % r)
        o.append("  fc_routine := F_%s;" % r)
        o.append("  fc_sig := [%s];" % "; ".join(c["sig"]))
        o.append("  fc_args := [\n    %s]" % ";\n    ".join(c["args"]))
        o.append("|}.")
        o.append("")
    o.append("Definition fff_blas_calls : list fcall := [%s]." % "; ".join("fff_blas_%s_call" % r for r in ROUTINES))
    return "\n".join(o) + "\n"


@register("FffBlas.v", ["C16"])
def translate(repo):
    htext = _strip_comments((repo / SRC_H).read_text())
    ctext = _strip_comments((repo / SRC_C).read_text())
    enums = parse_enums(htext)
    macros = parse_macros(ctext, enums)
    externs = parse_externs(ctext)
    calls = {r: parse_wrapper(ctext, r, macros, enums, externs) for r in ROUTINES}
    meta = {"source": [SRC_C, SRC_H], "routines": ROUTINES,
            "macros": {k: list(v) for k, v in macros.items()},
            "spans": {r: calls[r]["span"] for r in ROUTINES},
            "calls": {r: calls[r]["args"] for r in ROUTINES}}
    return _coq(enums, macros, calls), meta
