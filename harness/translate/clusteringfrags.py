"""Translate straight-line fragments of nipy/algorithms/clustering into Gallina (C14).

  hierarchical_clustering.py
    _inertia(i, j, Features)      n = F[0][i] + F[0][j]; s = F[1][i] + F[1][j]; q = F[2][i] + F[2][j];
                                  return np.sum(<expr over n, s, q>)
                                  -> Definition src_inertia_term (n s q : Q) : Q := <expr>   (per coordinate)
    WeightedForest.split          th = sh[<expr over nbcc, k>]
                                  -> Definition src_split_index (nbcc k : Z) : Z := <expr>
    fusion(K, pop, i, j, k)       fi = <expr over pop[i], pop[j], pop[k]>; fj = <expr over the same and fi>  (first two statements,
                                  the only assignments to fi / fj; float(...) is the identity over Q)
                                  -> Definition src_fusion_fi (pop_i pop_j pop_k : Q) : Q, src_fusion_fj (pop_i pop_j pop_k fi : Q) : Q
    WeightedForest.partition      valid = self.height <op> threshold [| self.isleaf()],  op in {<, <=}
                                  -> Definition src_partition_strict : bool
  utils.py
    _EStep                        z[dist <op> mindist] = q,  op in {<, <=}
                                  -> Definition src_estep_strict : bool

Anything else raises (fail-closed).
"""
import ast

from . import register

HC = "nipy/algorithms/clustering/hierarchical_clustering.py"
UT = "nipy/algorithms/clustering/utils.py"


class Unsupported(Exception):
    pass


def _func(tree, name, cls=None):
    body = tree.body
    if cls is not None:
        for n in body:
            if isinstance(n, ast.ClassDef) and n.name == cls:
                body = n.body
                break
        else:
            raise Unsupported("class %s not found" % cls)
    for n in body:
        if isinstance(n, ast.FunctionDef) and n.name == name:
            return n
    raise Unsupported("function %s not found" % name)


def _stmts(fn):
    """body without the docstring"""
    b = fn.body
    if b and isinstance(b[0], ast.Expr) and isinstance(b[0].value, ast.Constant) and isinstance(b[0].value.value, str):
        b = b[1:]
    return b


def _arith(n, names, scope):
    """+ - * / and ** 2 over the given names and integer constants"""
    if isinstance(n, ast.Name) and n.id in names:
        return n.id
    if isinstance(n, ast.Constant) and isinstance(n.value, int) and not isinstance(n.value, bool):
        return "(%d)" % n.value if scope == "Z" else "(inject_Z (%d))" % n.value
    if isinstance(n, ast.BinOp):
        if isinstance(n.op, ast.Pow):
            if isinstance(n.right, ast.Constant) and n.right.value == 2:
                a = _arith(n.left, names, scope)
                return "(%s * %s)" % (a, a)
            raise Unsupported("power other than 2")
        ops = {ast.Add: "+", ast.Sub: "-", ast.Mult: "*"}
        if scope == "Q":
            ops[ast.Div] = "/"
        for k, v in ops.items():
            if isinstance(n.op, k):
                return "(%s %s %s)" % (_arith(n.left, names, scope), v, _arith(n.right, names, scope))
    if isinstance(n, ast.UnaryOp) and isinstance(n.op, ast.USub):
        return "(- %s)" % _arith(n.operand, names, scope)
    raise Unsupported("expression: " + ast.dump(n))


def _pop_arith(n, names):
    """+ - * / over pop[i], pop[j], pop[k] (optionally wrapped in float()), the given names and integral constants"""
    m = n
    if isinstance(m, ast.Call) and isinstance(m.func, ast.Name) and m.func.id == "float" and len(m.args) == 1 and not m.keywords:
        m = m.args[0]
    if (isinstance(m, ast.Subscript) and isinstance(m.value, ast.Name) and m.value.id == "pop"
            and isinstance(m.slice, ast.Name) and m.slice.id in ("i", "j", "k")):
        return "pop_" + m.slice.id
    if isinstance(n, ast.Name) and n.id in names:
        return n.id
    if (isinstance(n, ast.Constant) and isinstance(n.value, (int, float)) and not isinstance(n.value, bool)
            and float(n.value).is_integer()):
        return "(inject_Z (%d))" % int(n.value)
    if isinstance(n, ast.BinOp):
        for k, v in {ast.Add: "+", ast.Sub: "-", ast.Mult: "*", ast.Div: "/"}.items():
            if isinstance(n.op, k):
                return "(%s %s %s)" % (_pop_arith(n.left, names), v, _pop_arith(n.right, names))
    raise Unsupported("fusion expression: " + ast.dump(n))


def _feature_sum(n, idx):
    """Features[idx][i] + Features[idx][j]"""
    def term(t, var):
        return (isinstance(t, ast.Subscript) and isinstance(t.slice, ast.Name) and t.slice.id == var
                and isinstance(t.value, ast.Subscript) and isinstance(t.value.value, ast.Name) and t.value.value.id == "Features"
                and isinstance(t.value.slice, ast.Constant) and t.value.slice.value == idx)
    return isinstance(n, ast.BinOp) and isinstance(n.op, ast.Add) and term(n.left, "i") and term(n.right, "j")


def _cmp_strict(n, left_ok, right_ok, what):
    if not (isinstance(n, ast.Compare) and len(n.ops) == 1 and left_ok(n.left) and right_ok(n.comparators[0])):
        raise Unsupported(what + ": " + ast.dump(n))
    if isinstance(n.ops[0], ast.Lt):
        return True
    if isinstance(n.ops[0], ast.LtE):
        return False
    raise Unsupported(what + ": comparison operator " + type(n.ops[0]).__name__)


@register("ClusteringFrags.v", ["C14"])
def translate(repo):
    hsrc = (repo / HC).read_text()
    usrc = (repo / UT).read_text()
    ht = ast.parse(hsrc)
    ut = ast.parse(usrc)
    meta = {"source": [HC, UT]}
    # ---- _inertia
    fn = _func(ht, "_inertia")
    if [a.arg for a in fn.args.args] != ["i", "j", "Features"]:
        raise Unsupported("_inertia signature")
    st = _stmts(fn)
    if len(st) != 4:
        raise Unsupported("_inertia: expected 3 assignments and a return")
    for s, (var, idx) in zip(st[:3], (("n", 0), ("s", 1), ("q", 2))):
        if not (isinstance(s, ast.Assign) and len(s.targets) == 1 and isinstance(s.targets[0], ast.Name)
                and s.targets[0].id == var and _feature_sum(s.value, idx)):
            raise Unsupported("_inertia: statement for %s: %s" % (var, ast.dump(s)))
    r = st[3]
    if not (isinstance(r, ast.Return) and isinstance(r.value, ast.Call) and isinstance(r.value.func, ast.Attribute)
            and isinstance(r.value.func.value, ast.Name) and r.value.func.value.id == "np" and r.value.func.attr == "sum"
            and len(r.value.args) == 1 and not r.value.keywords):
        raise Unsupported("_inertia: return is not np.sum(<expr>)")
    inertia = _arith(r.value.args[0], {"n", "s", "q"}, "Q")
    meta["_inertia"] = ast.unparse(r.value.args[0])
    # ---- fusion: fi = float(pop[i]) / (pop[k]); fj = 1.0 - fi
    fn = _func(ht, "fusion")
    if [a.arg for a in fn.args.args] != ["K", "pop", "i", "j", "k"]:
        raise Unsupported("fusion signature")
    st = _stmts(fn)
    for s, var in zip(st[:2], ("fi", "fj")):
        if not (isinstance(s, ast.Assign) and len(s.targets) == 1 and isinstance(s.targets[0], ast.Name) and s.targets[0].id == var):
            raise Unsupported("fusion: statement for %s: %s" % (var, ast.dump(s)))
    for s in st[2:]:
        for w in ast.walk(s):
            if isinstance(w, ast.Name) and isinstance(w.ctx, ast.Store) and w.id in ("fi", "fj", "pop", "i", "j", "k"):
                raise Unsupported("fusion: %s is assigned again" % w.id)
    fus_fi = _pop_arith(st[0].value, set())
    fus_fj = _pop_arith(st[1].value, {"fi"})
    meta["fusion_fi"] = ast.unparse(st[0].value)
    meta["fusion_fj"] = ast.unparse(st[1].value)
    # ---- WeightedForest.split: th = sh[<index>]
    fn = _func(ht, "split", "WeightedForest")
    idx = None
    for s in ast.walk(fn):
        if isinstance(s, ast.Assign) and len(s.targets) == 1 and isinstance(s.targets[0], ast.Name) and s.targets[0].id == "th":
            if idx is not None:
                raise Unsupported("split: more than one assignment to th")
            v = s.value
            if not (isinstance(v, ast.Subscript) and isinstance(v.value, ast.Name) and v.value.id == "sh"):
                raise Unsupported("split: th is not sh[...]")
            idx = _arith(v.slice, {"nbcc", "k"}, "Z")
            meta["split_index"] = ast.unparse(v.slice)
    if idx is None:
        raise Unsupported("split: no assignment th = sh[...]")
    shs = [s for s in ast.walk(fn) if isinstance(s, ast.Assign) and isinstance(s.targets[0], ast.Name) and s.targets[0].id == "sh"]
    if len(shs) != 1 or ast.unparse(shs[0].value) != "np.sort(self.height)":
        raise Unsupported("split: sh is not np.sort(self.height)")
    # ---- WeightedForest.partition: valid = self.height < threshold
    fn = _func(ht, "partition", "WeightedForest")
    vs = [s for s in _stmts(fn) if isinstance(s, ast.Assign) and isinstance(s.targets[0], ast.Name) and s.targets[0].id == "valid"]
    if len(vs) != 1:
        raise Unsupported("partition: valid assignment")
    pv = vs[0].value
    keeps_leaves = False
    if isinstance(pv, ast.BinOp) and isinstance(pv.op, ast.BitOr) and ast.unparse(pv.right) == "self.isleaf()":
        keeps_leaves = True                     # valid = (self.height < threshold) | self.isleaf()
        pv = pv.left
    pstrict = _cmp_strict(pv, lambda a: ast.unparse(a) == "self.height", lambda a: ast.unparse(a) == "threshold", "partition")
    meta["partition_keeps_leaves"] = keeps_leaves
    # ---- _EStep: z[dist < mindist] = q
    fn = _func(ut, "_EStep")
    zs = [s for s in ast.walk(fn) if isinstance(s, ast.Assign) and isinstance(s.targets[0], ast.Subscript)
          and isinstance(s.targets[0].value, ast.Name) and s.targets[0].value.id == "z"]
    if len(zs) != 1 or not (isinstance(zs[0].value, ast.Name) and zs[0].value.id == "q"):
        raise Unsupported("_EStep: z[...] = q")
    estrict = _cmp_strict(zs[0].targets[0].slice, lambda a: ast.unparse(a) == "dist", lambda a: ast.unparse(a) == "mindist", "_EStep")
    meta.update(partition_strict=pstrict, estep_strict=estrict)
    txt = """(* GENERATED by harness/translate/clusteringfrags.py from
   %s and %s - do not edit. *)
From Coq Require Import ZArith QArith.

(* _inertia: per-coordinate term under np.sum; n, s, q = count, sum, sum of squares of the union *)
Definition src_inertia_term (n s q : Q) : Q := %s.

(* fusion: fi = float(pop[i]) / (pop[k]); fj = 1.0 - fi *)
Definition src_fusion_fi (pop_i pop_j pop_k : Q) : Q := %s.
Definition src_fusion_fj (pop_i pop_j pop_k fi : Q) : Q := %s.

(* WeightedForest.split: th = sh[src_split_index nbcc k] (Python index, may be negative) *)
Definition src_split_index (nbcc k : Z) : Z := (%s)%%Z.

(* WeightedForest.partition: valid = self.height < threshold  (true: `<`, false: `<=`) *)
Definition src_partition_strict : bool := %s.

(* WeightedForest.partition: `... | self.isleaf()` present (the leaves are always kept) *)
Definition src_partition_keeps_leaves : bool := %s.

(* _EStep: z[dist < mindist] = q  (true: `<`, false: `<=`) *)
Definition src_estep_strict : bool := %s.
""" % (HC, UT, inertia, fus_fi, fus_fj, idx, "true" if pstrict else "false", "true" if keeps_leaves else "false", "true" if estrict else "false")
    return txt, meta
