"""Translate the straight-line rank arithmetic of nipy/algorithms/statistics/quantile.c.

* the macro bodies of UNSIGNED_FLOOR / UNSIGNED_CEIL are parsed with a small C
  expression parser (casts `(int)(e)`, + - , `!=`/`==` against a constant,
  `?:`) and emitted as Gallina functions Q -> Z over `ctrunc` (the model of the
  double -> int conversion) - `src_unsigned_floor`, `src_unsigned_ceil`;
* the statements of `quantile()` that choose the rank and the interpolation
  weights are required to be, token for token, the ones the hand-written model
  `quantile_pp` / `quantile` (coq/C16/Model.v) was written from; they are
  emitted as a list of strings (`src_rank_statements`) for the record.

Anything else raises (fail-closed): the C16 proofs then do not build.
"""
import re

from . import register

SRC = "nipy/algorithms/statistics/quantile.c"


class Unsupported(Exception):
    pass


TOK = re.compile(r"\s*(?:(\d+\.\d*|\.\d+|\d+)|([A-Za-z_]\w*)|(!=|==|[()?:+\-]))")


def _tokens(s):
    out = []
    i = 0
    s = s.strip()
    while i < len(s):
        m = TOK.match(s, i)
        if not m:
            raise Unsupported("cannot tokenise macro body at %r" % s[i:])
        if m.group(1) is not None:
            out.append(("num", m.group(1)))
        elif m.group(2) is not None:
            out.append(("id", m.group(2)))
        else:
            out.append(("op", m.group(3)))
        i = m.end()
    return out


class _P:
    """expr := cmp ['?' expr ':' expr] ; cmp := add [('!='|'==') add] ;
    add := unary (('+'|'-') unary)* ; unary := '(' 'int' ')' unary | primary ;
    primary := '(' expr ')' | ident | number.   Values are (coq_text, type), type in Q, Z, B."""

    def __init__(self, toks, param):
        self.t = toks
        self.i = 0
        self.param = param

    def peek(self, k=0):
        return self.t[self.i + k] if self.i + k < len(self.t) else (None, None)

    def eat(self, kind, val=None):
        k, v = self.peek()
        if k != kind or (val is not None and v != val):
            raise Unsupported("expected %s %s, got %s %s" % (kind, val, k, v))
        self.i += 1
        return v

    @staticmethod
    def toQ(e):
        return e[0] if e[1] == "Q" else "(inject_Z %s)" % e[0]

    def expr(self):
        c = self.cmp()
        if self.peek() == ("op", "?"):
            self.eat("op", "?")
            a = self.expr()
            self.eat("op", ":")
            b = self.expr()
            if c[1] != "B":
                raise Unsupported("condition of ?: is not a comparison")
            if a[1] != b[1]:
                raise Unsupported("branches of ?: have different types")
            return ("(if %s then %s else %s)" % (c[0], a[0], b[0]), a[1])
        return c

    def cmp(self):
        a = self.add()
        k, v = self.peek()
        if k == "op" and v in ("!=", "=="):
            self.i += 1
            b = self.add()
            eq = "(Qeq_bool %s %s)" % (self.toQ(a), self.toQ(b))
            return (eq if v == "==" else "(negb %s)" % eq, "B")
        return a

    def add(self):
        a = self.unary()
        while self.peek()[0] == "op" and self.peek()[1] in ("+", "-"):
            op = self.peek()[1]
            self.i += 1
            b = self.unary()
            if a[1] == "Z" and b[1] == "Z":
                a = ("(%s %s %s)%%Z" % (a[0], op, b[0]), "Z")
            else:
                a = ("(%s %s %s)%%Q" % (self.toQ(a), op, self.toQ(b)), "Q")
        return a

    def unary(self):
        if self.peek() == ("op", "(") and self.peek(1) == ("id", "int") and self.peek(2) == ("op", ")"):
            self.i += 3
            e = self.unary()
            if e[1] != "Q":
                raise Unsupported("(int) applied to a non-double")
            return ("(ctrunc %s)" % e[0], "Z")
        return self.primary()

    def primary(self):
        k, v = self.peek()
        if k == "op" and v == "(":
            self.i += 1
            e = self.expr()
            self.eat("op", ")")
            return e
        if k == "id":
            self.i += 1
            if v != self.param:
                raise Unsupported("unknown identifier %r in macro body" % v)
            return (v, "Q")
        if k == "num":
            self.i += 1
            if "." in v:
                f = float(v)
                if f != int(f):
                    raise Unsupported("non-integral constant %s" % v)
                return ("(inject_Z %d)" % int(f), "Q")
            return ("%d" % int(v), "Z")
        raise Unsupported("unexpected token %s %s" % (k, v))


def _macro(text, name):
    m = re.search(r"^#define\s+%s\((\w+)\)\s+(.*)$" % name, text, re.M)
    if not m:
        raise Unsupported("macro %s not found" % name)
    param, body = m.group(1), m.group(2)
    p = _P(_tokens(body), param)
    e = p.expr()
    if p.i != len(p.t):
        raise Unsupported("trailing tokens in macro %s" % name)
    if e[1] != "Z":
        raise Unsupported("macro %s does not yield an int" % name)
    return param, body.strip(), e[0]


# the statements of quantile() the model was written from (whitespace-normalised)
RANK_STATEMENTS = [
    "if ((r<0) || (r>1)){",
    "return 0.0;",
    "if (size == 1) return data[0];",
    "if (!interp) {",
    "pp = r * size;",
    "p = UNSIGNED_CEIL(pp);",
    "if (p == size) return POSINF;",
    "m = _pth_element(data, p, stride, size);",
    "pp = r * (size-1);",
    "p = UNSIGNED_FLOOR(pp);",
    "wM = pp - (double)p;",
    "wm = 1.0 - wM;",
    "if (wM <= 0) m = _pth_element(data, p, stride, size);",
    "_pth_interval(&am, &aM, data, p, stride, size);",
    "m = wm*am + wM*aM;",
    "return m;",
]


def _norm(s):
    s = re.sub(r"/\*.*?\*/", " ", s, flags=re.S)
    return re.sub(r"\s+", " ", s).strip()


@register("QuantileMacros.v", ["C16"])
def translate(repo):
    text = (repo / SRC).read_text()
    pf, bf, ef = _macro(text, "UNSIGNED_FLOOR")
    pc, bc, ec = _macro(text, "UNSIGNED_CEIL")
    m = re.search(r"^double quantile\(.*?\n\{(.*?)^\}", text, re.M | re.S)
    if not m:
        raise Unsupported("function quantile() not found")
    body = _norm(m.group(1))
    pos = 0
    for st in RANK_STATEMENTS:
        k = body.find(_norm(st), pos)
        if k < 0:
            raise Unsupported("statement %r of quantile() not found (in order)" % st)
        pos = k + len(_norm(st))
    # nothing but declarations / the fprintf / braces may remain
    rest = body
    for st in RANK_STATEMENTS:
        rest = rest.replace(_norm(st), " ", 1)
    rest = re.sub(r'fprintf\(stderr, "[^"]*"\);', " ", rest)
    rest = re.sub(r"\b(double|npy_intp)\s+[\w, ]+;", " ", rest)
    rest = re.sub(r"\belse\b", " ", rest)
    if re.sub(r"[{}\s]", "", rest):
        raise Unsupported("unrecognised code in quantile(): %r" % re.sub(r"\s+", " ", rest).strip())
    out = ["(* GENERATED from %s by harness/translate/quantilemacros.py - do not edit *)" % SRC,
           "From Coq Require Import ZArith QArith List String.", "From NV.C16 Require Import Model.",
           "Import ListNotations.", "",
           "(* #define UNSIGNED_FLOOR(%s) %s *)" % (pf, bf),
           "Definition src_unsigned_floor (%s : Q) : Z := %s." % (pf, ef), "",
           "(* #define UNSIGNED_CEIL(%s) %s *)" % (pc, bc),
           "Definition src_unsigned_ceil (%s : Q) : Z := %s." % (pc, ec), "",
           "Definition src_rank_statements : list string := ["]
    out.append(";\n".join('  "%s"%%string' % s.replace('"', "'") for s in RANK_STATEMENTS))
    out.append("].")
    meta = {"source": SRC, "UNSIGNED_FLOOR": bf, "UNSIGNED_CEIL": bc, "statements_matched": len(RANK_STATEMENTS)}
    return "\n".join(out) + "\n", meta
