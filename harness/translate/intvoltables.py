"""Generate coq/Generated/IntvolTables.v from the CURRENT sources

    nipy/algorithms/statistics/utils.py   (complex, cube_with_strides_center, join_complexes)
    nipy/algorithms/statistics/intvol.pyx (which cubes EC2d/EC3d/Lips2d/Lips3d join, and the
                                           `c[k].difference(union[k])` table construction)

How.  The three helper functions are cut out of utils.py with `ast` and
executed *as they are* in a namespace that only contains `np` and
`itertools.combinations` (anything else they start to use raises NameError ->
fail-closed).  They are run with radix strides (64, 8, 1), so that every flat
vertex index decodes uniquely into lattice offsets (di, dj, dk) in [-3, 4]; the
tables emitted are therefore in *coordinates*, and the Coq model flattens them
again with the strides of the padded array of each call (the harness compares
that flattening with what the helpers return for the real strides of every
tested shape).

From intvol.pyx the translator takes, for each of EC3d, Lips3d, EC2d, Lips2d:
the list of centers in `union = join_complexes(*[cube_with_strides_center(C,
strides), ...])`, the center of `c = cube_with_strides_center(C0, strides)` and
the statements `<name> = np.array(list(c[K].difference(union[K])))`.  Any other
shape of these statements raises (fail-closed).

Simplices are emitted with their vertices sorted (as `complex()` sorts the flat
indices; for C-contiguous strides that is the lexicographic order of the
offsets) and the list of simplices sorted (Python sets have no order and the
loops of the .pyx do not depend on it).
"""
import ast
import re
from itertools import combinations

from . import register

UTILS = "nipy/algorithms/statistics/utils.py"
PYX = "nipy/algorithms/statistics/intvol.pyx"
HELPERS = ("complex", "cube_with_strides_center", "join_complexes")
RADIX = 8
STR3 = (RADIX * RADIX, RADIX, 1)
STR2 = (RADIX, 1)


class Unsupported(Exception):
    pass


def load_helpers(repo, names=HELPERS):
    """exec the named top-level functions of utils.py (current source) in a minimal namespace."""
    import numpy as np
    src = (repo / UTILS).read_text()
    tree = ast.parse(src)
    got = {}
    for node in tree.body:
        if isinstance(node, ast.FunctionDef) and node.name in names:
            got[node.name] = node
    missing = [n for n in names if n not in got]
    if missing:
        raise Unsupported("utils.py lacks %s" % missing)
    ns = {"np": np, "combinations": combinations, "__builtins__": __builtins__}
    mod = ast.Module(body=[got[n] for n in names], type_ignores=[])
    exec(compile(mod, str(repo / UTILS), "exec"), ns)
    spans = {n: [got[n].lineno, got[n].end_lineno] for n in names}
    return ns, spans


def _digit(v):
    d = ((v + 3) % RADIX) - 3
    return d, (v - d) // RADIX


def decode(v, dim):
    v = int(v)
    out = []
    for _ in range(dim):
        d, v = _digit(v)
        out.append(d)
    if v != 0:
        raise Unsupported("vertex index %r does not decode with radix %d" % (v, RADIX))
    return tuple(reversed(out))


def simplices(face_set, dim):
    """set of flat-index tuples (or bare ints for vertices) -> sorted list of sorted coordinate tuples"""
    res = []
    for s in face_set:
        if not isinstance(s, tuple):
            s = (s,)
        res.append(tuple(sorted(decode(v, dim) for v in s)))
    if len(set(res)) != len(res):
        raise Unsupported("duplicate simplices after decoding")
    return sorted(res)


CALL = re.compile(r"cube_with_strides_center\(\(([-0-9, ]+)\),\s*strides\)")


def pyx_function(text, name):
    m = re.search(r"^def %s\(.*?(?=^(?:def|cpdef|cdef) |\Z)" % re.escape(name), text, re.S | re.M)
    if not m:
        raise Unsupported("intvol.pyx has no def %s" % name)
    return m.group(0)


def pyx_tables(text, fname, dim):
    """(union centers, c center, {table name: K}) of one .pyx function; strict."""
    body = pyx_function(text, fname)
    m = re.search(r"union = join_complexes\(\*\[(.*?)\]\)\n", body, re.S)
    if not m:
        raise Unsupported("%s: union = join_complexes(*[...]) not found" % fname)
    inner = m.group(1)
    centers = [tuple(int(x) for x in c.split(",") if x.strip()) for c in CALL.findall(inner)]
    rest = CALL.sub("", inner)
    if rest.replace(",", "").strip():
        raise Unsupported("%s: unrecognised text inside join_complexes list: %r" % (fname, rest.strip()))
    m = re.search(r"^\s*c = cube_with_strides_center\(\(([-0-9, ]+)\),\s*strides\)\s*$", body, re.M)
    if not m:
        raise Unsupported("%s: c = cube_with_strides_center(...) not found" % fname)
    c0 = tuple(int(x) for x in m.group(1).split(",") if x.strip())
    if any(len(c) != dim for c in centers + [c0]):
        raise Unsupported("%s: center of wrong dimension" % fname)
    tabs = {}
    for m in re.finditer(r"^\s*(\w+) = np\.array\(list\(c\[(\d)\]\.difference\(union\[(\d)\]\)\)\)\s*$", body, re.M):
        if m.group(2) != m.group(3):
            raise Unsupported("%s: c[%s].difference(union[%s])" % (fname, m.group(2), m.group(3)))
        tabs[m.group(1)] = int(m.group(2))
    if len(re.findall(r"\.difference\(", body)) != len(tabs) or len(re.findall(r"cube_with_strides_center\(", body)) != len(centers) + 1 \
            or len(re.findall(r"join_complexes\(", body)) != 1:
        raise Unsupported("%s: table construction has an unrecognised form" % fname)
    return centers, c0, tabs


LOOP = re.compile(r"for l in range\(ds(\d)\):\n\s+v0 = index \+ d(\d)\[l,0\]\n\s+m = fpmask\[v0\]\n\s+if ([^\n]*):\n")


def pyx_guards(text, fname, want):
    """guard of each simplex loop of EC2d/EC3d: `if m:` -> False, `if m and v0:` -> True; strict."""
    body = pyx_function(text, fname)
    guards = {}
    for m in LOOP.finditer(body):
        if m.group(1) != m.group(2):
            raise Unsupported("%s: loop over ds%s reads d%s" % (fname, m.group(1), m.group(2)))
        cond = " ".join(m.group(3).split())
        if cond == "m":
            g = False
        elif cond == "m and v0":
            g = True
        else:
            raise Unsupported("%s: unrecognised simplex-loop condition %r" % (fname, cond))
        guards[int(m.group(1))] = g
    if sorted(guards) != sorted(want) or len(re.findall(r"for l in range\(", body)) != len(want):
        raise Unsupported("%s: simplex loops %r, expected over %r" % (fname, sorted(guards), sorted(want)))
    return guards


def unique_tables(ns, centers, c0, dim):
    strides = STR3 if dim == 3 else STR2
    cube = ns["cube_with_strides_center"]
    union = ns["join_complexes"](*[cube(c, strides) for c in centers])
    c = cube(c0, strides)
    out = {}
    for k in range(1, dim + 2):
        out[k] = simplices(c[k].difference(union[k]), dim)
    return out, {k: simplices(c[k], dim) for k in range(1, dim + 2)}


def coq_pt(p):
    return "(" + ", ".join("%d" % x for x in p) + ")"


def coq_tab(name, ty, tab):
    rows = ";\n".join("  [" + "; ".join(coq_pt(p) for p in s) + "]" for s in tab)
    return "Definition %s : list (list %s) := [\n%s\n]." % (name, ty, rows) if tab else \
        "Definition %s : list (list %s) := []." % (name, ty)


@register("IntvolTables.v", ["C15"])
def translate(repo):
    ns, spans = load_helpers(repo)
    text = (repo / PYX).read_text()
    out = ["(* GENERATED from %s and %s by harness/translate/intvoltables.py - do not edit *)" % (UTILS, PYX),
           "From Coq Require Import ZArith List.", "Import ListNotations.", "Open Scope Z_scope.", ""]
    meta = {"source": [UTILS, PYX], "helper_spans": spans, "functions": {}}
    P3, P2 = "(Z * Z * Z)", "(Z * Z)"
    expect = {"EC3d": (3, {"d4": 4, "d3": 3, "d2": 2}), "Lips3d": (3, {"m4": 4, "m3": 3, "m2": 2}),
              "EC2d": (2, {"d3": 3, "d2": 2}), "Lips2d": (2, {"m3": 3, "m2": 2})}
    for fname, (dim, want) in expect.items():
        centers, c0, tabs = pyx_tables(text, fname, dim)
        if tabs != want:
            raise Unsupported("%s: tables %r, expected %r" % (fname, tabs, want))
        uniq, full = unique_tables(ns, centers, c0, dim)
        ty = P3 if dim == 3 else P2
        out.append("(* %s: c = cube at %r; union of cubes at %r *)" % (fname, c0, centers))
        pre = {"EC3d": "src3", "Lips3d": "lips3", "EC2d": "src2", "Lips2d": "lips2"}[fname]
        for k in range(1, dim + 2):
            out.append(coq_tab("%s_d%d" % (pre, k), ty, uniq[k]))
        if fname in ("EC3d", "EC2d"):
            out.append("(* all faces of cube_with_strides_center(%r) with k vertices; k = %d are the maximal simplices *)" % (c0, dim + 1))
            for k in range(1, dim + 2):
                out.append(coq_tab("%s_c%d" % (pre, k), ty, full[k]))
        meta["functions"][fname] = {"centers": centers, "c": c0,
                                    "sizes": {str(k): len(uniq[k]) for k in uniq}}
        if fname in ("EC3d", "EC2d"):
            guards = pyx_guards(text, fname, list(want.values()))
            out.append("(* condition of each simplex loop of %s: `if m:` = false, `if m and v0:` = true *)" % fname)
            for k in sorted(guards):
                out.append("Definition %s_guard_d%d : bool := %s." % (pre, k, "true" if guards[k] else "false"))
            meta["functions"][fname]["guards"] = {str(k): guards[k] for k in guards}
        out.append("")
    # the 1-d cube (used by decompose2d/3d only; EC1d/Lips1d have the edge hard-wired)
    c1 = ns["cube_with_strides_center"]((0,), [1])
    out.append("(* cube_with_strides_center((0,), [1]) *)")
    out.append("Definition src1_c2 : list (list Z) := [%s]." % "; ".join(
        "[" + "; ".join("%d" % v for v in sorted(s)) + "]" for s in sorted(c1[2])))
    return "\n".join(out) + "\n", meta
