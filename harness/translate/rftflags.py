"""Generate coq/Generated/RftFlags.v from the CURRENT nipy/algorithms/statistics/rft.py: the facts about
object identity / in-place operators that decide whether evaluating an ECcone changes its stored regions.

  * which in-place operator methods (`__imul__`, `__iadd__`, ...) class IntrinsicVolumes defines (a `def` or an
    assignment in the class body); `x *= y` on an IntrinsicVolumes instance rebinds x to `x.__mul__(y)` when
    `__imul__` is absent and mutates the object x refers to when it is present;
  * in `ECcone.__call__`: whether the default branch is `search = self.search` (the local name aliases the stored
    region) and whether the product is applied as `search *= self.product` or `search = search * self.product`.

Any other shape of these statements raises (fail-closed)."""
import ast

from . import register

SRC = "nipy/algorithms/statistics/rft.py"
INPLACE = ["__iadd__", "__isub__", "__imul__", "__imatmul__", "__itruediv__", "__ifloordiv__", "__imod__", "__ipow__",
           "__ilshift__", "__irshift__", "__iand__", "__ixor__", "__ior__", "__idiv__"]


class Unsupported(Exception):
    pass


def _is_self_attr(n, attr):
    return isinstance(n, ast.Attribute) and isinstance(n.value, ast.Name) and n.value.id == "self" and n.attr == attr


def _is_name(n, s):
    return isinstance(n, ast.Name) and n.id == s


def class_names(cls):
    names = set()
    for st in cls.body:
        if isinstance(st, (ast.FunctionDef, ast.AsyncFunctionDef)):
            names.add(st.name)
        elif isinstance(st, ast.Assign):
            for t in st.targets:
                if isinstance(t, ast.Name):
                    names.add(t.id)
    return names


@register("RftFlags.v", ["C15"])
def translate(repo):
    tree = ast.parse((repo / SRC).read_text())
    classes = {n.name: n for n in tree.body if isinstance(n, ast.ClassDef)}
    if "IntrinsicVolumes" not in classes or "ECcone" not in classes:
        raise Unsupported("rft.py lacks IntrinsicVolumes / ECcone")
    iv = classes["IntrinsicVolumes"]
    if any(not (isinstance(b, ast.Name) and b.id == "object") for b in iv.bases):
        raise Unsupported("IntrinsicVolumes has base classes: %s" % [ast.dump(b) for b in iv.bases])
    inplace = sorted(class_names(iv) & set(INPLACE))
    if "__setattr__" in class_names(iv) or "__getattr__" in class_names(iv) or "__getattribute__" in class_names(iv):
        raise Unsupported("IntrinsicVolumes customises attribute access")
    call = [n for n in classes["ECcone"].body if isinstance(n, ast.FunctionDef) and n.name == "__call__"]
    if len(call) != 1:
        raise Unsupported("ECcone.__call__ not found")
    call = call[0]
    aliases = aug = None
    for st in ast.walk(call):
        if isinstance(st, ast.If) and isinstance(st.test, ast.Compare) and _is_name(st.test.left, "search") \
                and len(st.test.ops) == 1 and isinstance(st.test.ops[0], ast.Is) \
                and isinstance(st.test.comparators[0], ast.Constant) and st.test.comparators[0].value is None:
            if len(st.body) != 1 or not isinstance(st.body[0], ast.Assign) or not _is_name(st.body[0].targets[0], "search"):
                raise Unsupported("ECcone.__call__: body of `if search is None`")
            v = st.body[0].value
            if _is_self_attr(v, "search"):
                aliases = True
            elif isinstance(v, ast.Call) and _is_name(v.func, "IntrinsicVolumes") and len(v.args) == 1 and _is_self_attr(v.args[0], "search"):
                aliases = False
            else:
                raise Unsupported("ECcone.__call__: default search is %s" % ast.dump(v))
            if len(st.orelse) != 1 or not isinstance(st.orelse[0], ast.Assign) or not _is_name(st.orelse[0].targets[0], "search") \
                    or not (isinstance(st.orelse[0].value, ast.Call) and _is_name(st.orelse[0].value.func, "IntrinsicVolumes")
                            and len(st.orelse[0].value.args) == 1 and _is_name(st.orelse[0].value.args[0], "search")):
                raise Unsupported("ECcone.__call__: explicit search is not wrapped as IntrinsicVolumes(search)")
        if isinstance(st, ast.AugAssign) and _is_name(st.target, "search"):
            if isinstance(st.op, ast.Mult) and _is_self_attr(st.value, "product") and aug is None:
                aug = True
            else:
                raise Unsupported("ECcone.__call__: augmented assignment to search: %s" % ast.dump(st))
        if isinstance(st, ast.Assign) and len(st.targets) == 1 and _is_name(st.targets[0], "search") \
                and isinstance(st.value, ast.BinOp) and isinstance(st.value.op, ast.Mult):
            if _is_name(st.value.left, "search") and _is_self_attr(st.value.right, "product") and aug is None:
                aug = False
            else:
                raise Unsupported("ECcone.__call__: product applied as %s" % ast.dump(st))
    if aliases is None or aug is None:
        raise Unsupported("ECcone.__call__: search/product statements not found")
    b = lambda x: "true" if x else "false"
    out = ["(* GENERATED from %s by harness/translate/rftflags.py - do not edit *)" % SRC,
           "From Coq Require Import String List.", "Import ListNotations.", "Open Scope string_scope.", "",
           "(* in-place operator methods defined in class IntrinsicVolumes (rft.py:%d-%d) *)" % (iv.lineno, iv.end_lineno),
           "Definition src_iv_inplace_ops : list string := [%s]." % "; ".join('"%s"' % n for n in inplace),
           "Definition src_iv_has_imul : bool := %s." % b("__imul__" in inplace),
           "(* ECcone.__call__ (rft.py:%d-%d): `search = self.search` when search is None *)" % (call.lineno, call.end_lineno),
           "Definition src_call_aliases_stored_search : bool := %s." % b(aliases),
           "(* ECcone.__call__: `search *= self.product` (true) or `search = search * self.product` (false) *)",
           "Definition src_call_product_augassign : bool := %s." % b(aug)]
    meta = {"source": SRC, "inplace_ops": inplace, "aliases": aliases, "augassign": aug}
    return "\n".join(out) + "\n", meta
