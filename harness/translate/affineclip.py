"""Translate the clipping of nipy/algorithms/registration/affine.py into Gallina
(coq/Generated/AffineClip.v):

  * `threshold(x, th)`: the returned expression, built only from the two
    arguments, `np.maximum`, `np.minimum`, `np.clip` and unary minus, as a function on Z
    (`src_threshold`);
  * the module constant `MAX_DIST` (must be a literal with an integral value)
    as `src_max_dist : Z`;
  * the two uses in `to_matrix44`: `threshold(t[a:b], MAX_DIST)` assigned to the
    translation column (slice start / length emitted as `src_clip_trans_lo`,
    `src_clip_trans_n`) and `threshold(t[c:d], LOG_MAX_DIST)` under
    `np.diag(np.exp(.))` (`src_clip_scale_lo`, `src_clip_scale_n`); any other
    call of `threshold` in the module is refused.

Fail-closed: anything outside these shapes raises `Unsupported`; the generated
file then lacks the definitions and coq/C08/Clip.v does not compile.
"""
import ast

from . import register

SRC = "nipy/algorithms/registration/affine.py"


class Unsupported(Exception):
    pass


def _name(n, s=None):
    return isinstance(n, ast.Name) and (s is None or n.id == s)


def _np(n, fname, nargs):
    return (isinstance(n, ast.Call) and isinstance(n.func, ast.Attribute) and _name(n.func.value, "np")
            and n.func.attr == fname and len(n.args) == nargs and not n.keywords)


def _expr(n, a0, a1):
    if _name(n, a0):
        return "x"
    if _name(n, a1):
        return "th"
    if _np(n, "maximum", 2):
        return "(Z.max %s %s)" % (_expr(n.args[0], a0, a1), _expr(n.args[1], a0, a1))
    if _np(n, "minimum", 2):
        return "(Z.min %s %s)" % (_expr(n.args[0], a0, a1), _expr(n.args[1], a0, a1))
    if _np(n, "clip", 3):      # np.clip(a, lo, hi) = minimum(maximum(a, lo), hi)
        return "(Z.min (Z.max %s %s) %s)" % tuple(_expr(x, a0, a1) for x in n.args)
    if isinstance(n, ast.UnaryOp) and isinstance(n.op, ast.USub):
        return "(Z.opp %s)" % _expr(n.operand, a0, a1)
    raise Unsupported("threshold expression: " + ast.dump(n))


def _slice(n, base):
    if not (isinstance(n, ast.Subscript) and _name(n.value, base) and isinstance(n.slice, ast.Slice)
            and n.slice.step is None):
        raise Unsupported("slice of %s expected: %s" % (base, ast.dump(n)))
    lo, hi = n.slice.lower, n.slice.upper
    for b in (lo, hi):
        if not (isinstance(b, ast.Constant) and type(b.value) is int and b.value >= 0):
            raise Unsupported("slice bound")
    if hi.value <= lo.value:
        raise Unsupported("empty slice")
    return lo.value, hi.value - lo.value


@register("AffineClip.v", ["C08"])
def translate(repo):
    tree = ast.parse((repo / SRC).read_text())
    funcs = {n.name: n for n in tree.body if isinstance(n, ast.FunctionDef)}
    # ---- threshold
    fn = funcs.get("threshold")
    if fn is None:
        raise Unsupported("function threshold not found")
    a = fn.args
    if a.vararg or a.kwarg or a.kwonlyargs or a.defaults or getattr(a, "posonlyargs", []) or len(a.args) != 2:
        raise Unsupported("threshold signature")
    body = [s for s in fn.body if not (isinstance(s, ast.Expr) and isinstance(s.value, ast.Constant)
                                       and isinstance(s.value.value, str))]
    if len(body) != 1 or not isinstance(body[0], ast.Return) or body[0].value is None or fn.decorator_list:
        raise Unsupported("threshold body: a single return expected")
    expr = _expr(body[0].value, a.args[0].arg, a.args[1].arg)
    # ---- MAX_DIST
    vals = [s for s in tree.body if isinstance(s, ast.Assign) and any(_name(t, "MAX_DIST") for t in s.targets)]
    if len(vals) != 1 or len(vals[0].targets) != 1:
        raise Unsupported("exactly one module-level assignment MAX_DIST = <literal> expected")
    v = vals[0].value
    if not (isinstance(v, ast.Constant) and type(v.value) in (int, float)) or v.value != int(v.value) or v.value < 0:
        raise Unsupported("MAX_DIST: non-negative literal with integral value expected")
    max_dist = int(v.value)
    for n in ast.walk(tree):     # no re-binding elsewhere (augmented assignment, global, function-local shadow)
        if isinstance(n, (ast.AugAssign, ast.AnnAssign)) and _name(n.target, "MAX_DIST"):
            raise Unsupported("MAX_DIST modified")
        if isinstance(n, ast.Assign) and n is not vals[0] and any(_name(t, "MAX_DIST") or _name(t, "threshold") for t in n.targets):
            raise Unsupported("MAX_DIST / threshold re-bound")
    # ---- uses of threshold
    uses = [n for n in ast.walk(tree) if isinstance(n, ast.Call) and _name(n.func, "threshold")]
    m44 = funcs.get("to_matrix44")
    if m44 is None:
        raise Unsupported("to_matrix44 not found")
    inside = [n for n in ast.walk(m44) if isinstance(n, ast.Call) and _name(n.func, "threshold")]
    if len(uses) != 2 or len(inside) != 2:
        raise Unsupported("threshold must be called exactly twice, both in to_matrix44 (found %d / %d)" % (len(uses), len(inside)))
    tname = m44.args.args[0].arg
    trans = scale = None
    for c in inside:
        if len(c.args) != 2 or c.keywords:
            raise Unsupported("threshold call shape")
        if _name(c.args[1], "MAX_DIST"):
            trans = _slice(c.args[0], tname)
        elif _name(c.args[1], "LOG_MAX_DIST"):
            scale = _slice(c.args[0], tname)
        else:
            raise Unsupported("threshold bound: " + ast.dump(c.args[1]))
    if trans is None or scale is None:
        raise Unsupported("one MAX_DIST and one LOG_MAX_DIST clip expected")
    # the MAX_DIST clip is what is stored in the translation column T[0:3, 3]
    ok = False
    for s in ast.walk(m44):
        if isinstance(s, ast.Assign) and len(s.targets) == 1 and isinstance(s.value, ast.Call) and _name(s.value.func, "threshold") \
                and _name(s.value.args[1], "MAX_DIST"):
            t = s.targets[0]
            if isinstance(t, ast.Subscript) and _name(t.value, "T") and isinstance(t.slice, ast.Tuple) and len(t.slice.elts) == 2 \
                    and isinstance(t.slice.elts[0], ast.Slice) and isinstance(t.slice.elts[1], ast.Constant) and t.slice.elts[1].value == 3:
                ok = True
    if not ok:
        raise Unsupported("T[0:3, 3] = threshold(t[..], MAX_DIST) not found")
    o = ["(* GENERATED by harness/translate/affineclip.py from %s - do not edit *)" % SRC,
         "From Coq Require Import ZArith.",
         "",
         "(* threshold(x, th): %s *)" % ast.unparse(body[0].value),
         "Definition src_threshold (x th : Z) : Z := %s." % expr,
         "(* MAX_DIST = %s *)" % ast.unparse(v),
         "Definition src_max_dist : Z := %d%%Z." % max_dist,
         "(* to_matrix44: T[0:3, 3] = threshold(t[lo:lo+n], MAX_DIST); np.diag(np.exp(threshold(t[lo:lo+n], LOG_MAX_DIST))) *)",
         "Definition src_clip_trans_lo : nat := %d." % trans[0],
         "Definition src_clip_trans_n : nat := %d." % trans[1],
         "Definition src_clip_scale_lo : nat := %d." % scale[0],
         "Definition src_clip_scale_n : nat := %d." % scale[1]]
    meta = {"source": [SRC], "threshold": ast.unparse(body[0].value), "MAX_DIST": max_dist,
            "translation_slice": list(trans), "scale_slice": list(scale)}
    return "\n".join(o) + "\n", meta
