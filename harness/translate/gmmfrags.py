"""Translate three small fragments of the clustering code into Gallina
(coq/Generated/GmmFrags.v), fail-closed, with `ast`:

  gmm.py  GMM.bic      the two parameter-count expressions
                          if self.prec_type == 'full': eta = E_full  else: eta = E_diag
                       -> `src_bic_eta_full`, `src_bic_eta_diag : Q -> Q -> Q`  (arguments k, dim)
  gmm.py  GMM._Mstep   (diag branch) how `addcov` is formed:
                          addcov = (empmeans - self.prior_means) ** 2                        -> PerAxis
                          dx = np.reshape(empmeans - self.prior_means, (self.k, self.dim, 1))
                          addcov = np.array([np.sum(dx[k] ** 2, 0) for k in range(self.k)])  -> AllAxes
                       -> `src_addcov_kind`
  von_mises_fisher_mixture.py  VonMisesMixture.responsibilities
                          wl = np.exp(lwl.T - lwl.max(1)).T   -> ShiftMax   (lwl.mean(1) -> ShiftMean)
                       -> `src_vmf_shift`
Anything else raises.
"""
import ast

from . import register

GMM = "nipy/algorithms/clustering/gmm.py"
VMF = "nipy/algorithms/clustering/von_mises_fisher_mixture.py"


class Unsupported(Exception):
    pass


def method(tree, cls, name):
    for node in tree.body:
        if isinstance(node, ast.ClassDef) and node.name == cls:
            for f in node.body:
                if isinstance(f, ast.FunctionDef) and f.name == name:
                    return f
    raise Unsupported("%s.%s not found" % (cls, name))


def qexpr(n):
    """arithmetic over self.k, self.dim and integer literals -> Coq Q expression"""
    if isinstance(n, ast.Constant) and isinstance(n.value, int) and not isinstance(n.value, bool):
        return "(inject_Z %d)" % n.value
    if isinstance(n, ast.Attribute) and isinstance(n.value, ast.Name) and n.value.id == "self" and n.attr in ("k", "dim"):
        return n.attr
    if isinstance(n, ast.BinOp):
        op = {ast.Add: "+", ast.Sub: "-", ast.Mult: "*", ast.Div: "/"}.get(type(n.op))
        if op is None:
            raise Unsupported("operator " + ast.dump(n.op))
        return "(%s %s %s)" % (qexpr(n.left), op, qexpr(n.right))
    raise Unsupported("expression " + ast.dump(n))


def un(n):
    return ast.unparse(n)


@register("GmmFrags.v", ["C13"])
def translate(repo):
    tree = ast.parse((repo / GMM).read_text())
    # ---- bic
    bic = method(tree, "GMM", "bic")
    ifs = [s for s in bic.body if isinstance(s, ast.If)]
    if len(ifs) != 1:
        raise Unsupported("GMM.bic: expected exactly one if statement")
    i = ifs[0]
    if un(i.test) != "self.prec_type == 'full'":
        raise Unsupported("GMM.bic: test is %s" % un(i.test))

    def eta_of(body):
        if len(body) != 1 or not isinstance(body[0], ast.Assign) or un(body[0].targets[0]) != "eta":
            raise Unsupported("GMM.bic: branch is not a single `eta = ...`")
        return body[0].value
    e_full, e_diag = eta_of(i.body), eta_of(i.orelse)
    tail = [un(s) for s in bic.body[bic.body.index(i) + 1:]]
    if tail != ["bicc = bicc - np.log(n) * eta", "return bicc"]:
        raise Unsupported("GMM.bic: unexpected statements after the parameter count: %s" % tail)
    # ---- _Mstep diag addcov
    ms = method(tree, "GMM", "_Mstep")
    top = [s for s in ms.body if isinstance(s, ast.If) and un(s.test) == "self.prec_type == 'full'"]
    if len(top) != 1:
        raise Unsupported("_Mstep: prec_type dispatch not found")
    diag = top[0].orelse
    lines = [un(s) for s in diag if not isinstance(s, ast.For)]
    add = [l for l in lines if l.startswith("addcov =")]
    if add == ["addcov = (empmeans - self.prior_means) ** 2"] and not any(l.startswith("dx =") for l in lines):
        kind = "PerAxis"
    elif add == ["addcov = np.array([np.sum(dx[k] ** 2, 0) for k in range(self.k)])"] and \
            "dx = np.reshape(empmeans - self.prior_means, (self.k, self.dim, 1))" in lines:
        kind = "AllAxes"
    else:
        raise Unsupported("_Mstep diag branch: addcov formed in an unknown way: %s" % add)
    for need in ("covariance += addcov * apms", "apms = np.reshape(prior_shrinkage * pop / shrinkage, (self.k, 1))",
                 "dof = self.prior_dof + pop + self.dim + 2", "covariance /= np.reshape(dof, (self.k, 1))"):
        if need not in lines:
            raise Unsupported("_Mstep diag branch lacks `%s`" % need)
    # ---- vMF
    vt = ast.parse((repo / VMF).read_text())
    resp = method(vt, "VonMisesMixture", "responsibilities")
    body = [un(s) for s in resp.body if not (isinstance(s, ast.Expr) and isinstance(s.value, ast.Constant))]
    want = ["lwl = self.log_weighted_density(x)", None, "swl = np.sum(wl, 1)", "resp = (wl.T / swl).T", "return resp"]
    if len(body) != 5 or any(w is not None and w != b for w, b in zip(want, body)):
        raise Unsupported("responsibilities: unexpected body %s" % body)
    if body[1] == "wl = np.exp(lwl.T - lwl.max(1)).T":
        shift = "ShiftMax"
    elif body[1] == "wl = np.exp(lwl.T - lwl.mean(1)).T":
        shift = "ShiftMean"
    else:
        raise Unsupported("responsibilities: shift line is `%s`" % body[1])
    out = ["(* GENERATED from %s and %s by harness/translate/gmmfrags.py - do not edit *)" % (GMM, VMF),
           "From Coq Require Import ZArith QArith.", "Open Scope Q_scope.", "",
           "(* GMM.bic l.%d-%d *)" % (i.lineno, i.end_lineno),
           "Definition src_bic_eta_full (k dim : Q) : Q := %s." % qexpr(e_full),
           "Definition src_bic_eta_diag (k dim : Q) : Q := %s." % qexpr(e_diag), "",
           "Inductive addcov_kind := PerAxis | AllAxes.",
           "Definition src_addcov_kind : addcov_kind := %s." % kind, "",
           "Inductive shift_kind := ShiftMax | ShiftMean.",
           "Definition src_vmf_shift : shift_kind := %s." % shift, ""]
    meta = {"source": [GMM, VMF], "bic_full": un(e_full), "bic_diag": un(e_diag), "addcov": kind, "vmf_shift": shift}
    return "\n".join(out) + "\n", meta
