"""Translate three small fragments of the clustering code into Gallina
(coq/Generated/GmmFrags.v), fail-closed, with `ast`:

  gmm.py  GMM.bic      the two parameter-count expressions
                          if self.prec_type == 'full': eta = E_full  else: eta = E_diag
                       -> `src_bic_eta_full`, `src_bic_eta_diag : Q -> Q -> Q`  (arguments k, dim)
  gmm.py  GMM._Mstep   (diag branch) how `addcov` is formed:
                          addcov = (empmeans - self.prior_means) ** 2                        -> PerAxis
                          dx = np.reshape(empmeans - self.prior_means, (self.k, self.dim, 1))
                          addcov = np.array([np.sum(dx[k] ** 2, 0) for k in range(self.k)])  -> AllAxes
                       -> `src_addcov_kind`
  von_mises_fisher_mixture.py  VonMisesMixture.responsibilities
                          wl = np.exp(lwl.T - lwl.max(1)).T   -> ShiftMax   (lwl.mean(1) -> ShiftMean)
                       -> `src_vmf_shift`
  bgmm.py  dkl_wishart  the whole arithmetic after the determinants, evaluated symbolically statement by
                       statement, with the transcendental / LAPACK values as parameters:
                          math.log(d1) -> LD1, math.log(d2) -> LD2, math.log(2) -> L2, lgc (parameter),
                          the loop  lg_i += gammaln((a_i - i)/2); lw_i += psi((a_i - i)/2)  -> + G_i, + PS_i,
                          np.trace(np.dot(B2, inv(B1))) -> TR
                       -> `src_dkl_wishart (a1 a2 dim LD1 LD2 L2 lgc G1 G2 PS1 PS2 TR : Q) : Q`
Anything else raises.
"""
from fractions import Fraction
import ast

from . import register

GMM = "nipy/algorithms/clustering/gmm.py"
VMF = "nipy/algorithms/clustering/von_mises_fisher_mixture.py"


class Unsupported(Exception):
    pass


def method(tree, cls, name):
    for node in tree.body:
        if isinstance(node, ast.ClassDef) and node.name == cls:
            for f in node.body:
                if isinstance(f, ast.FunctionDef) and f.name == name:
                    return f
    raise Unsupported("%s.%s not found" % (cls, name))


def qexpr(n):
    """arithmetic over self.k, self.dim and integer literals -> Coq Q expression"""
    if isinstance(n, ast.Constant) and isinstance(n.value, int) and not isinstance(n.value, bool):
        return "(inject_Z %d)" % n.value
    if isinstance(n, ast.Attribute) and isinstance(n.value, ast.Name) and n.value.id == "self" and n.attr in ("k", "dim"):
        return n.attr
    if isinstance(n, ast.BinOp):
        op = {ast.Add: "+", ast.Sub: "-", ast.Mult: "*", ast.Div: "/"}.get(type(n.op))
        if op is None:
            raise Unsupported("operator " + ast.dump(n.op))
        return "(%s %s %s)" % (qexpr(n.left), op, qexpr(n.right))
    raise Unsupported("expression " + ast.dump(n))


def un(n):
    return ast.unparse(n)


BGMM = "nipy/algorithms/clustering/bgmm.py"


def func(tree, name):
    for node in tree.body:
        if isinstance(node, ast.FunctionDef) and node.name == name:
            return node
    raise Unsupported("function %s not found" % name)


def wexpr(n, env):
    if isinstance(n, ast.Constant) and isinstance(n.value, (int, float)) and not isinstance(n.value, bool):
        f = Fraction(n.value)
        return "(%d # %d)" % (f.numerator, f.denominator)
    if isinstance(n, ast.Name):
        if n.id in env:
            return env[n.id]
        raise Unsupported("dkl_wishart: unknown name %s" % n.id)
    if isinstance(n, ast.UnaryOp) and isinstance(n.op, ast.USub):
        return "(- %s)" % wexpr(n.operand, env)
    if isinstance(n, ast.BinOp):
        op = {ast.Add: "+", ast.Sub: "-", ast.Mult: "*", ast.Div: "/"}.get(type(n.op))
        if op is None:
            raise Unsupported("operator " + ast.dump(n.op))
        return "(%s %s %s)" % (wexpr(n.left, env), op, wexpr(n.right, env))
    if isinstance(n, ast.Call):
        u = un(n)
        table = {"math.log(d1)": "LD1", "math.log(d2)": "LD2", "math.log(2)": "L2",
                 "np.trace(np.dot(B2, inv(B1)))": "TR"}
        if u in table:
            return table[u]
    raise Unsupported("dkl_wishart: expression " + un(n))


def dkl_wishart_expr(repo):
    tree = ast.parse((repo / BGMM).read_text())
    f = func(tree, "dkl_wishart")
    body = [s for s in f.body if not (isinstance(s, ast.Expr) and isinstance(s.value, ast.Constant))
            and not isinstance(s, (ast.ImportFrom, ast.Import))]
    lines = [un(s) for s in body]
    head = ["tiny = 1e-15", "if B1.shape != B2.shape:\n    raise ValueError('incompatible dimensions for B1 and B2')",
            "dim = B1.shape[0]", "d1 = max(detsh(B1), tiny)", "d2 = max(detsh(B2), tiny)",
            "lgc = dim * (dim - 1) * math.log(np.pi) / 4"]
    if lines[:len(head)] != head:
        raise Unsupported("dkl_wishart: unexpected prologue %s" % lines[:len(head)])
    env = {"a1": "a1", "a2": "a2", "dim": "dim", "lgc": "lgc"}
    loop_want = ["lg1 += gammaln((a1 - i) / 2)", "lg2 += gammaln((a2 - i) / 2)", "lw1 += psi((a1 - i) / 2)", "lw2 += psi((a2 - i) / 2)"]
    seen_loop = False
    ret = None
    for st in body[len(head):]:
        if isinstance(st, ast.Assign) and len(st.targets) == 1 and isinstance(st.targets[0], ast.Name):
            env[st.targets[0].id] = wexpr(st.value, env)
        elif isinstance(st, ast.AugAssign) and isinstance(st.target, ast.Name) and st.target.id in env:
            op = {ast.Add: "+", ast.Sub: "-", ast.Mult: "*", ast.Div: "/"}.get(type(st.op))
            if op is None:
                raise Unsupported("dkl_wishart: augmented operator")
            env[st.target.id] = "(%s %s %s)" % (env[st.target.id], op, wexpr(st.value, env))
        elif isinstance(st, ast.For):
            if seen_loop or un(st.target) != "i" or un(st.iter) != "range(dim)" or [un(b) for b in st.body] != loop_want or st.orelse:
                raise Unsupported("dkl_wishart: unexpected loop")
            for v, o in (("lg1", "G1"), ("lg2", "G2"), ("lw1", "PS1"), ("lw2", "PS2")):
                if v not in env:
                    raise Unsupported("dkl_wishart: %s not initialised before the loop" % v)
                env[v] = "(%s + %s)" % (env[v], o)
            seen_loop = True
        elif isinstance(st, ast.Return):
            ret = wexpr(st.value, env)
        else:
            raise Unsupported("dkl_wishart: statement " + un(st))
    if ret is None or not seen_loop:
        raise Unsupported("dkl_wishart: no return / loop")
    return ret, [f.lineno, f.end_lineno]


@register("GmmFrags.v", ["C13"])
def translate(repo):
    tree = ast.parse((repo / GMM).read_text())
    # ---- bic
    bic = method(tree, "GMM", "bic")
    ifs = [s for s in bic.body if isinstance(s, ast.If)]
    if len(ifs) != 1:
        raise Unsupported("GMM.bic: expected exactly one if statement")
    i = ifs[0]
    if un(i.test) != "self.prec_type == 'full'":
        raise Unsupported("GMM.bic: test is %s" % un(i.test))

    def eta_of(body):
        if len(body) != 1 or not isinstance(body[0], ast.Assign) or un(body[0].targets[0]) != "eta":
            raise Unsupported("GMM.bic: branch is not a single `eta = ...`")
        return body[0].value
    e_full, e_diag = eta_of(i.body), eta_of(i.orelse)
    tail = [un(s) for s in bic.body[bic.body.index(i) + 1:]]
    if tail != ["bicc = bicc - np.log(n) * eta", "return bicc"]:
        raise Unsupported("GMM.bic: unexpected statements after the parameter count: %s" % tail)
    # ---- _Mstep diag addcov
    ms = method(tree, "GMM", "_Mstep")
    top = [s for s in ms.body if isinstance(s, ast.If) and un(s.test) == "self.prec_type == 'full'"]
    if len(top) != 1:
        raise Unsupported("_Mstep: prec_type dispatch not found")
    diag = top[0].orelse
    lines = [un(s) for s in diag if not isinstance(s, ast.For)]
    add = [l for l in lines if l.startswith("addcov =")]
    if add == ["addcov = (empmeans - self.prior_means) ** 2"] and not any(l.startswith("dx =") for l in lines):
        kind = "PerAxis"
    elif add == ["addcov = np.array([np.sum(dx[k] ** 2, 0) for k in range(self.k)])"] and \
            "dx = np.reshape(empmeans - self.prior_means, (self.k, self.dim, 1))" in lines:
        kind = "AllAxes"
    else:
        raise Unsupported("_Mstep diag branch: addcov formed in an unknown way: %s" % add)
    for need in ("covariance += addcov * apms", "apms = np.reshape(prior_shrinkage * pop / shrinkage, (self.k, 1))",
                 "dof = self.prior_dof + pop + self.dim + 2", "covariance /= np.reshape(dof, (self.k, 1))"):
        if need not in lines:
            raise Unsupported("_Mstep diag branch lacks `%s`" % need)
    # ---- vMF
    vt = ast.parse((repo / VMF).read_text())
    resp = method(vt, "VonMisesMixture", "responsibilities")
    body = [un(s) for s in resp.body if not (isinstance(s, ast.Expr) and isinstance(s.value, ast.Constant))]
    want = ["lwl = self.log_weighted_density(x)", None, "swl = np.sum(wl, 1)", "resp = (wl.T / swl).T", "return resp"]
    if len(body) != 5 or any(w is not None and w != b for w, b in zip(want, body)):
        raise Unsupported("responsibilities: unexpected body %s" % body)
    if body[1] == "wl = np.exp(lwl.T - lwl.max(1)).T":
        shift = "ShiftMax"
    elif body[1] == "wl = np.exp(lwl.T - lwl.mean(1)).T":
        shift = "ShiftMean"
    else:
        raise Unsupported("responsibilities: shift line is `%s`" % body[1])
    wret, wspan = dkl_wishart_expr(repo)
    out = ["(* GENERATED from %s and %s by harness/translate/gmmfrags.py - do not edit *)" % (GMM, VMF),
           "From Coq Require Import ZArith QArith.", "Open Scope Q_scope.", "",
           "(* GMM.bic l.%d-%d *)" % (i.lineno, i.end_lineno),
           "Definition src_bic_eta_full (k dim : Q) : Q := %s." % qexpr(e_full),
           "Definition src_bic_eta_diag (k dim : Q) : Q := %s." % qexpr(e_diag), "",
           "Inductive addcov_kind := PerAxis | AllAxes.",
           "Definition src_addcov_kind : addcov_kind := %s." % kind, "",
           "Inductive shift_kind := ShiftMax | ShiftMean.",
           "Definition src_vmf_shift : shift_kind := %s." % shift, "",
           "(* bgmm.dkl_wishart l.%d-%d *)" % tuple(wspan),
           "Definition src_dkl_wishart (a1 a2 dim LD1 LD2 L2 lgc G1 G2 PS1 PS2 TR : Q) : Q :=", "  %s." % wret, ""]
    meta = {"source": [GMM, VMF], "bic_full": un(e_full), "bic_diag": un(e_diag), "addcov": kind, "vmf_shift": shift}
    return "\n".join(out) + "\n", meta
