"""Registry of source->Coq translators.  Each entry:
   "<File>.v": ((owning property ids), fn(repo_path) -> (coq_text, meta_dict))
Translators are fail-closed: any construct they do not recognise raises, the
build of the dependent proofs then fails and the check reports it."""
TRANSLATORS = {}
LOAD_ERRORS = {}


def register(name, owners):
    def deco(fn):
        TRANSLATORS[name] = (tuple(owners), fn)
        return fn
    return deco


def _load():
    import importlib
    import pkgutil
    import os
    here = os.path.dirname(__file__)
    for m in pkgutil.iter_modules([here]):
        try:
            importlib.import_module(__name__ + "." + m.name)
        except Exception as e:   # a broken translator module must not take every check down
            LOAD_ERRORS[m.name] = "%s: %s" % (type(e).__name__, e)


_load()
