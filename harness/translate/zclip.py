"""Translate the literal constants and tail-function choices of the p-value /
z-score pipeline into Gallina (Generated/ZClip.v, owner C06).

  nipy/algorithms/statistics/utils.py
      TINY = <float literal>
      def z_score(pvalue):
          pvalue = np.minimum(np.maximum(pvalue, <lo literal>), <hi expr>)     hi expr: literal or `1. - TINY`
          z = norm.isf(pvalue)
          return z
  nipy/modalities/fmri/glm.py, nipy/labs/glm/glm.py
      DEF_TINY = <float literal>;  DEF_DOFMAX = <float literal>
      Contrast.p_value / contrast.pvalue: the calls `sps.<dist>.<fn>(...)` in source order
      Contrast.stat / contrast.stat: whether the body contains `self.p_value_ = None` / `self._pvalue = None`

The constants are emitted as the exact rational value of the binary64 number
Python computes (so `1. - 1e-16` becomes 1 - 2^-53, and `1. - 1e-17` would
become 1).  Anything unrecognised raises (fail-closed).
"""
import ast
from fractions import Fraction

from . import register

UTILS = "nipy/algorithms/statistics/utils.py"
FMRI = "nipy/modalities/fmri/glm.py"
LABS = "nipy/labs/glm/glm.py"


class Unsupported(Exception):
    pass


def _q(x):
    f = Fraction(*float(x).as_integer_ratio())
    return "(Qmake (%d) %d)" % (f.numerator, f.denominator)


def _const_float(node, env):
    if isinstance(node, ast.Constant) and isinstance(node.value, (int, float)) and not isinstance(node.value, bool):
        return float(node.value)
    if isinstance(node, ast.Name) and node.id in env:
        return env[node.id]
    if isinstance(node, ast.UnaryOp) and isinstance(node.op, ast.USub):
        return -_const_float(node.operand, env)
    if isinstance(node, ast.BinOp) and isinstance(node.op, (ast.Sub, ast.Add)):
        a, b = _const_float(node.left, env), _const_float(node.right, env)
        return a - b if isinstance(node.op, ast.Sub) else a + b
    raise Unsupported("constant expression: " + ast.dump(node))


def _module_consts(tree, names):
    env = {}
    for st in tree.body:
        if isinstance(st, ast.Assign) and len(st.targets) == 1 and isinstance(st.targets[0], ast.Name) \
                and st.targets[0].id in names:
            env[st.targets[0].id] = _const_float(st.value, env)
    missing = [n for n in names if n not in env]
    if missing:
        raise Unsupported("module constants not found: %s" % missing)
    return env


def _is_np_call(node, fn):
    return isinstance(node, ast.Call) and isinstance(node.func, ast.Attribute) and node.func.attr == fn \
        and isinstance(node.func.value, ast.Name) and node.func.value.id == "np" and len(node.args) == 2 and not node.keywords


def _zscore(tree):
    env = _module_consts(tree, ["TINY"])
    fn = [s for s in tree.body if isinstance(s, ast.FunctionDef) and s.name == "z_score"]
    if len(fn) != 1:
        raise Unsupported("z_score not found")
    body = [s for s in fn[0].body if not (isinstance(s, ast.Expr) and isinstance(s.value, ast.Constant))]
    if len(body) != 3:
        raise Unsupported("z_score body has %d statements" % len(body))
    a, b, c = body
    arg = fn[0].args.args[0].arg
    if not (isinstance(a, ast.Assign) and isinstance(a.targets[0], ast.Name) and a.targets[0].id == arg
            and _is_np_call(a.value, "minimum") and _is_np_call(a.value.args[0], "maximum")
            and isinstance(a.value.args[0].args[0], ast.Name) and a.value.args[0].args[0].id == arg):
        raise Unsupported("z_score clip statement: " + ast.dump(a))
    lo = _const_float(a.value.args[0].args[1], env)
    hi = _const_float(a.value.args[1], env)
    if not (isinstance(b, ast.Assign) and isinstance(b.value, ast.Call) and isinstance(b.value.func, ast.Attribute)
            and isinstance(b.value.func.value, ast.Name) and len(b.value.args) == 1
            and isinstance(b.value.args[0], ast.Name) and b.value.args[0].id == arg and not b.value.keywords):
        raise Unsupported("z_score quantile statement: " + ast.dump(b))
    qfn = (b.value.func.value.id, b.value.func.attr)
    if not (isinstance(c, ast.Return) and isinstance(c.value, ast.Name) and c.value.id == b.targets[0].id):
        raise Unsupported("z_score return: " + ast.dump(c))
    return lo, hi, qfn, env["TINY"]


def _tail_calls(tree, cls, meth):
    for st in tree.body:
        if isinstance(st, ast.ClassDef) and st.name == cls:
            for m in st.body:
                if isinstance(m, ast.FunctionDef) and m.name == meth:
                    out = []
                    for n in ast.walk(m):
                        if isinstance(n, ast.Call) and isinstance(n.func, ast.Attribute) \
                                and isinstance(n.func.value, ast.Attribute) and isinstance(n.func.value.value, ast.Name) \
                                and n.func.value.value.id == "sps":
                            out.append((n.lineno, n.col_offset, n.func.value.attr, n.func.attr, len(n.args)))
                    out.sort()
                    return [(d, f, k) for _, _, d, f, k in out]
    raise Unsupported("%s.%s not found" % (cls, meth))


def _stat_drops_cache(tree, cls, meth, attr):
    """does <cls>.<meth> contain the statement `self.<attr> = None` (cache invalidation)?"""
    for st in tree.body:
        if isinstance(st, ast.ClassDef) and st.name == cls:
            for m in st.body:
                if isinstance(m, ast.FunctionDef) and m.name == meth:
                    for n in ast.walk(m):
                        if isinstance(n, ast.Assign) and len(n.targets) == 1 and isinstance(n.targets[0], ast.Attribute) \
                                and isinstance(n.targets[0].value, ast.Name) and n.targets[0].value.id == "self" \
                                and n.targets[0].attr == attr:
                            if isinstance(n.value, ast.Constant) and n.value.value is None:
                                return True
                            raise Unsupported("%s.%s assigns self.%s something other than None" % (cls, meth, attr))
                    return False
    raise Unsupported("%s.%s not found" % (cls, meth))


def _pairs(calls):
    return "[" + "; ".join('("%s", "%s", %d%%nat)' % c for c in calls) + "]"


@register("ZClip.v", ["C06"])
def translate(repo):
    ut = ast.parse((repo / UTILS).read_text())
    lo, hi, qfn, tiny = _zscore(ut)
    fm = ast.parse((repo / FMRI).read_text())
    lb = ast.parse((repo / LABS).read_text())
    cf = _module_consts(fm, ["DEF_TINY", "DEF_DOFMAX"])
    cl = _module_consts(lb, ["DEF_TINY", "DEF_DOFMAX"])
    tf = _tail_calls(fm, "Contrast", "p_value")
    tl = _tail_calls(lb, "contrast", "pvalue")
    df = _stat_drops_cache(fm, "Contrast", "stat", "p_value_")
    dl = _stat_drops_cache(lb, "contrast", "stat", "_pvalue")
    txt = "\n".join([
        "(* GENERATED by harness/translate/zclip.py from %s, %s, %s - do not edit *)" % (UTILS, FMRI, LABS),
        "From Coq Require Import String List QArith.",
        "Import ListNotations.",
        "Open Scope string_scope.",
        "(* utils.z_score: np.minimum(np.maximum(pvalue, z_lo), z_hi); values are the exact binary64 numbers *)",
        "Definition z_lo : Q := %s.   (* %r *)" % (_q(lo), lo),
        "Definition z_hi : Q := %s.   (* %r *)" % (_q(hi), hi),
        "Definition z_quantile_fn : string * string := (\"%s\", \"%s\")." % qfn,
        "Definition fmri_def_tiny : Q := %s.   (* %r *)" % (_q(cf["DEF_TINY"]), cf["DEF_TINY"]),
        "Definition fmri_def_dofmax : Q := %s.   (* %r *)" % (_q(cf["DEF_DOFMAX"]), cf["DEF_DOFMAX"]),
        "Definition labs_def_tiny : Q := %s.   (* %r *)" % (_q(cl["DEF_TINY"]), cl["DEF_TINY"]),
        "Definition labs_def_dofmax : Q := %s.   (* %r *)" % (_q(cl["DEF_DOFMAX"]), cl["DEF_DOFMAX"]),
        "(* scipy.stats calls (distribution, function, number of positional arguments) in source order *)",
        "Definition fmri_pvalue_calls : list (string * string * nat) := %s." % _pairs(tf),
        "Definition labs_pvalue_calls : list (string * string * nat) := %s." % _pairs(tl),
        "(* does stat() contain `self.p_value_ = None` / `self._pvalue = None` (invalidates the cached p-value)? *)",
        "Definition fmri_stat_drops_pvalue : bool := %s." % ("true" if df else "false"),
        "Definition labs_stat_drops_pvalue : bool := %s." % ("true" if dl else "false"),
        ""])
    meta = {"source": [UTILS, FMRI, LABS], "z_lo": lo, "z_hi": hi, "z_quantile_fn": list(qfn),
            "fmri_pvalue_calls": tf, "labs_pvalue_calls": tl,
            "fmri_stat_drops_pvalue": df, "labs_stat_drops_pvalue": dl}
    return txt, meta
