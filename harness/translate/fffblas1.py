"""Translate the level-1 BLAS wrappers of lib/fff/fff_blas.c (ddot, dnrm2, dasum, idamax,
dswap, dcopy, daxpy, dscal, drotg, drot, drotmg) into a Coq table: for every wrapper, WHICH
Fortran kernel is called, with which arguments (locals inlined), what is added to the
result, and whether the `n != y->size` guard is present.

Accepted shape of a wrapper (anything else raises - fail-closed):

    <type> fff_blas_<w> (<params>)
    {
      int n = (int) x->size;            (locals: int <v> = (int) <vec>->size|stride;)
      int incx = (int) x->stride;
      if ( n != y->size ) return 1;     (optional guard, exactly this form)
      return( FNAME(<r>)(<args>) );     or  return( (CBLAS_INDEX_t)(FNAME(<r>)(<args>) - 1) );
    }

So a wrapper that post-processes the kernel's result (sqrt of a dot product instead of the
scaled dnrm2 kernel ...) or calls a different kernel changes the table or stops the build.
"""
import re

from . import register

SRC_C = "lib/fff/fff_blas.c"
WRAPPERS = ["ddot", "dnrm2", "dasum", "idamax", "dswap", "dcopy", "daxpy", "dscal", "drotg", "drot", "drotmg"]


class Unsupported(Exception):
    pass


def _strip_comments(t):
    return re.sub(r"/\*.*?\*/", lambda m: "\n" * m.group(0).count("\n"), t, flags=re.S)


def _norm(s):
    return re.sub(r"\s+", " ", s).strip()


def parse_wrapper(ctext, w):
    m = re.search(r"^[A-Za-z_][\w \*]*?\bfff_blas_%s\s*\(([^)]*)\)\s*\{(.*?)^\}" % w, ctext, re.M | re.S)
    if not m:
        raise Unsupported("wrapper fff_blas_%s not found" % w)
    line0 = ctext.count("\n", 0, m.start()) + 1
    params = [_norm(p) for p in m.group(1).split(",")]
    pnames = []
    for p in params:
        q = re.match(r"^(?:const )?(fff_vector \*|double) ?(\w+)(\[\])?$", p)
        if not q:
            raise Unsupported("parameter %r of fff_blas_%s" % (p, w))
        pnames.append(q.group(2))
    body = _norm(m.group(2))
    stmts = [s.strip() for s in re.split(r";(?![^()]*\))", body) if s.strip()]
    local = {}
    guard = False
    ret = None
    for s in stmts:
        q = re.match(r"^int (\w+) = \(int\) ?(\w+)->(size|stride)$", s)
        if q:
            if q.group(2) not in pnames:
                raise Unsupported("unknown vector %s in fff_blas_%s" % (q.group(2), w))
            local[q.group(1)] = "%s.%s" % (q.group(2), q.group(3))
            continue
        if re.match(r"^if \( ?n != y->size ?\) return 1$", s):
            if local.get("n") != "x.size":
                raise Unsupported("guard without n = x->size in fff_blas_%s" % w)
            guard = True
            continue
        q = re.match(r"^return ?\( ?FNAME\((\w+)\)\((.*)\) ?\)$", s)
        if q and ret is None:
            ret = (q.group(1), q.group(2), 0)
            continue
        q = re.match(r"^return ?\( ?\(CBLAS_INDEX_t\)\(FNAME\((\w+)\)\((.*)\) - 1\) ?\)$", s)
        if q and ret is None:
            ret = (q.group(1), q.group(2), -1)
            continue
        raise Unsupported("statement %r in fff_blas_%s" % (s, w))
    if ret is None:
        raise Unsupported("no kernel call in fff_blas_%s" % w)
    args = []
    used = set()
    for a in [_norm(x) for x in ret[1].split(",")]:
        q = re.match(r"^&(\w+)$", a)
        if q and q.group(1) in local:
            args.append(local[q.group(1)])
            used.add(q.group(1))
        elif q and q.group(1) in pnames:
            args.append("&" + q.group(1))
        elif re.match(r"^(\w+)->data$", a) and a.split("->")[0] in pnames:
            args.append(a.split("->")[0] + ".data")
        elif a in pnames:
            args.append(a)
        else:
            raise Unsupported("argument %r in fff_blas_%s" % (a, w))
    if used != set(local):
        raise Unsupported("unused local in fff_blas_%s" % w)
    return {"wrapper": w, "routine": ret[0], "args": args, "offset": ret[2], "guard": guard, "line": line0}


@register("FffBlas1.v", ["C16"])
def translate(repo):
    ctext = _strip_comments((repo / SRC_C).read_text())
    calls = [parse_wrapper(ctext, w) for w in WRAPPERS]
    for c in calls:
        if not re.search(r"extern\s+\w+\s+FNAME\(%s\)" % c["routine"], ctext):
            raise Unsupported("kernel %s has no extern prototype" % c["routine"])
    o = ["(* GENERATED from %s by harness/translate/fffblas1.py - do not edit *)" % SRC_C,
         "From Coq Require Import List String ZArith.", "Import ListNotations.", "Open Scope string_scope.", "",
         "(* wrapper, Fortran kernel, arguments (locals inlined), added to the result, `n != y->size` guard *)",
         "Record b1call := { b1_wrapper : string; b1_kernel : string; b1_args : list string; b1_offset : Z; b1_guard : bool }.", ""]
    for c in calls:
        o.append("(* %s:%d *)" % (SRC_C, c["line"]))
        o.append('Definition fff_blas_%s_b1 : b1call := {| b1_wrapper := "%s"; b1_kernel := "%s"; b1_args := [%s]; '
                 'b1_offset := (%d)%%Z; b1_guard := %s |}.' % (
                     c["wrapper"], c["wrapper"], c["routine"], "; ".join('"%s"' % a for a in c["args"]), c["offset"],
                     "true" if c["guard"] else "false"))
    o.append("")
    o.append("Definition fff_blas1_calls : list b1call := [%s]." % "; ".join("fff_blas_%s_b1" % c["wrapper"] for c in calls))
    meta = {"source": SRC_C, "wrappers": WRAPPERS, "calls": {c["wrapper"]: [c["routine"], c["args"], c["offset"], c["guard"]] for c in calls}}
    return "\n".join(o) + "\n", meta
