"""Space-unit handling of nipy/io/nifti_ref.py -> coq/Generated/NiftiUnits.v (fail-closed, ast).

  nifti2nipy   the block
                   if space_units in ('micron', 'meter'):
                       warnings.warn(...)
                       if space_units == 'micron':  affine[:3] /= 1000.
                       elif space_units == 'meter': affine[:3] *= 1000.
               -> xyz_unit_ops = [(unit, (divide?, constant))]; the tuple of the outer test must list exactly
               the units the inner chain handles, each arm must be one in-place `affine[:3] op= constant`
  nipy2nifti   every call `hdr.set_xyzt_units(...)` must pass xyz as one and the same string constant
               -> written_xyz_units (a units value computed from the old header is Unsupported)
"""
import ast
import os

from . import register
from .niftitables import NIFTI, Unsupported, need, cstr, strs, num, cq, func


def units_tables(repo):
    tree = ast.parse(open(os.path.join(repo, NIFTI)).read())
    ld = func(tree, "nifti2nipy")
    outer = [n for n in ast.walk(ld) if isinstance(n, ast.If) and isinstance(n.test, ast.Compare)
             and ast.unparse(n.test.left) == "space_units" and len(n.test.ops) == 1 and isinstance(n.test.ops[0], ast.In)]
    need(len(outer) == 1, "exactly one `if space_units in (...)` in nifti2nipy")
    outer = outer[0]
    listed = strs(outer.test.comparators[0], "space units tuple")
    need(not outer.orelse, "space units test has an else branch")
    body = [s for s in outer.body if not (isinstance(s, ast.Expr) and isinstance(s.value, ast.Call)
                                          and ast.unparse(s.value.func) == "warnings.warn")]
    need(len(body) == 1 and isinstance(body[0], ast.If), "space units block: one if/elif chain after the warning")
    ops = []
    node = body[0]
    while node is not None:
        t = node.test
        need(isinstance(t, ast.Compare) and ast.unparse(t.left) == "space_units" and len(t.ops) == 1
             and isinstance(t.ops[0], ast.Eq) and isinstance(t.comparators[0], ast.Constant)
             and isinstance(t.comparators[0].value, str), "space units arm test: " + ast.unparse(t))
        need(len(node.body) == 1 and isinstance(node.body[0], ast.AugAssign), "space units arm: one augmented assignment")
        st = node.body[0]
        need(ast.unparse(st.target) == "affine[:3]", "space units arm scales affine[:3], found " + ast.unparse(st.target))
        need(isinstance(st.op, (ast.Div, ast.Mult)), "space units arm: /= or *=")
        k = num(st.value, "space units constant")
        need(k > 0, "space units constant positive")
        ops.append((t.comparators[0].value, isinstance(st.op, ast.Div), k))
        if not node.orelse:
            node = None
        else:
            need(len(node.orelse) == 1 and isinstance(node.orelse[0], ast.If), "space units chain: elif only")
            node = node.orelse[0]
    need([u for u, _, _ in ops] == listed, "space units tuple %r and handled arms %r differ" % (listed, [u for u, _, _ in ops]))
    # the scaled affine must be the one handed to the coordinate map, and read before it from the image
    sv = func(tree, "nipy2nifti")
    calls = [n for n in ast.walk(sv) if isinstance(n, ast.Call) and ast.unparse(n.func).endswith("set_xyzt_units")]
    need(len(calls) >= 1, "nipy2nifti sets xyzt_units")
    written = set()
    for c in calls:
        need(ast.unparse(c.func) == "hdr.set_xyzt_units" and not c.args, "set_xyzt_units call shape: " + ast.unparse(c))
        kw = {k.arg: k.value for k in c.keywords}
        need("xyz" in kw and set(kw) <= {"xyz", "t"}, "set_xyzt_units keywords: " + ast.unparse(c))
        need(isinstance(kw["xyz"], ast.Constant) and isinstance(kw["xyz"].value, str),
             "set_xyzt_units: xyz is not a string constant (%s)" % ast.unparse(kw["xyz"]))
        written.add(kw["xyz"].value)
    need(len(written) == 1, "nipy2nifti writes several space units: %r" % sorted(written))
    # no other writer of the units field in nipy2nifti
    for n in ast.walk(sv):
        if isinstance(n, ast.Subscript) and isinstance(n.slice, ast.Constant) and n.slice.value == "xyzt_units":
            raise Unsupported("nipy2nifti touches hdr['xyzt_units'] directly")
    w = written.pop()
    out = ["Definition xyz_unit_ops : list (string * (bool * Q)) := [%s]."
           % "; ".join("(%s, (%s, %s))" % (cstr(u), "true" if d else "false", cq(k)) for u, d, k in ops),
           "Definition written_xyz_units : string := %s." % cstr(w)]
    return out, {"xyz_unit_ops": [(u, "/" if d else "*", str(k)) for u, d, k in ops], "written_xyz_units": w,
                 "set_xyzt_units_calls": len(calls)}


@register("NiftiUnits.v", ["C03"])
def translate(repo):
    a, meta = units_tables(repo)
    out = ["(* GENERATED from %s by harness/translate/niftiunits.py - do not edit *)" % NIFTI,
           "From Coq Require Import String.", "From Coq Require Import List QArith.", "Import ListNotations.",
           "Open Scope string_scope.", "Close Scope Q_scope.", ""] + a
    meta["source"] = [NIFTI]
    return "\n".join(out) + "\n", meta
