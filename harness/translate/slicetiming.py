"""Translate nipy/algorithms/slicetiming/timefuncs.py into Gallina.

Every `@_dec_stfunc def st_xxx(n_slices, TR)` body is parsed with `ast` and
translated into a *slot expression* (an integer vector: slice i is acquired in
slot e[i]) over the small list algebra of NV.Lib.SlotAlg:

    np.arange(n_slices)                      -> SArange
    list(range(a, n_slices, s))              -> SRange a s
    e1 + e2                                  -> SApp e1 e2
    np.argsort(e) / np.array(e)              -> SArgsort e / e
    e[::-1]                                  -> SRev e
    st_other(n_slices, TR)                   -> SCall "st_other"  (inlined)
    if n_slices % 2 == 0: return A; return B -> SIfEven A B

and the time scaling must be one of `e / n_slices * TR`, `e * one_slice` with
`one_slice = TR / n_slices` (both mean slot * TR / n).  Anything else raises
(fail-closed).  The `_derived_func('alias', st_x)` aliases and the registry
rule of `_dec_register_stf` are emitted as a name table.
"""
import ast

from . import register

SRC = "nipy/algorithms/slicetiming/timefuncs.py"


class Unsupported(Exception):
    pass


def _is_name(n, s):
    return isinstance(n, ast.Name) and n.id == s


def _is_np(n, attr):
    return isinstance(n, ast.Attribute) and _is_name(n.value, "np") and n.attr == attr


def slot_expr(n, env):
    """Translate an expression denoting an integer vector."""
    if isinstance(n, ast.Name) and n.id in env:
        return env[n.id]
    if isinstance(n, ast.Call):
        f = n.func
        if _is_np(f, "arange") and len(n.args) == 1 and _is_name(n.args[0], "n_slices") and not n.keywords:
            return "SArange"
        if _is_np(f, "argsort") and len(n.args) == 1 and not n.keywords:
            return "(SArgsort %s)" % slot_expr(n.args[0], env)
        if _is_np(f, "array") and len(n.args) == 1 and not n.keywords:
            return slot_expr(n.args[0], env)
        if _is_name(f, "list") and len(n.args) == 1 and isinstance(n.args[0], ast.Call) and _is_name(n.args[0].func, "range"):
            r = n.args[0]
            if len(r.args) == 3 and isinstance(r.args[0], ast.Constant) and _is_name(r.args[1], "n_slices") \
                    and isinstance(r.args[2], ast.Constant) and isinstance(r.args[0].value, int) \
                    and isinstance(r.args[2].value, int) and r.args[2].value > 0 and r.args[0].value >= 0:
                return "(SRange %d %d)" % (r.args[0].value, r.args[2].value)
            raise Unsupported("range form: " + ast.dump(r))
        if isinstance(f, ast.Name) and f.id.startswith("st_") and len(n.args) == 2 and _is_name(n.args[0], "n_slices") \
                and _is_name(n.args[1], "TR"):
            # a call to another schedule returns *times*; only allowed at top level (handled in time_expr)
            raise Unsupported("nested schedule call inside slot expression")
        raise Unsupported("call: " + ast.dump(n))
    if isinstance(n, ast.BinOp) and isinstance(n.op, ast.Add):
        return "(SApp %s %s)" % (slot_expr(n.left, env), slot_expr(n.right, env))
    if isinstance(n, ast.Subscript):
        s = n.slice
        if isinstance(s, ast.Slice) and s.lower is None and s.upper is None and isinstance(s.step, ast.UnaryOp) \
                and isinstance(s.step.op, ast.USub) and isinstance(s.step.operand, ast.Constant) and s.step.operand.value == 1:
            return "(SRev %s)" % slot_expr(n.value, env)
        raise Unsupported("subscript: " + ast.dump(n))
    raise Unsupported("expr: " + ast.dump(n))


def time_expr(n, env, scal):
    """Translate an expression denoting the returned *times*; returns slot expr.
    The scaling must denote slot * TR / n_slices."""
    # e / n_slices * TR
    if isinstance(n, ast.BinOp) and isinstance(n.op, ast.Mult):
        l, r = n.left, n.right
        if _is_name(r, "TR") and isinstance(l, ast.BinOp) and isinstance(l.op, ast.Div) and _is_name(l.right, "n_slices"):
            return slot_expr(l.left, env)
        if isinstance(r, ast.Name) and r.id in scal:
            return slot_expr(l, env)
        raise Unsupported("time scaling: " + ast.dump(n))
    if isinstance(n, ast.Subscript):
        s = n.slice
        if isinstance(s, ast.Slice) and s.lower is None and s.upper is None and isinstance(s.step, ast.UnaryOp) \
                and isinstance(s.step.op, ast.USub) and isinstance(s.step.operand, ast.Constant) and s.step.operand.value == 1:
            return "(SRev %s)" % time_expr(n.value, env, scal)
    if isinstance(n, ast.Call) and isinstance(n.func, ast.Name) and n.func.id.startswith("st_") and len(n.args) == 2 \
            and _is_name(n.args[0], "n_slices") and _is_name(n.args[1], "TR") and not n.keywords:
        return '(SCall "%s")' % n.func.id
    raise Unsupported("time expr: " + ast.dump(n))


def body_expr(stmts, env=None, scal=None):
    env = dict(env or {})
    scal = set(scal or ())
    stmts = [s for s in stmts if not (isinstance(s, ast.Expr) and isinstance(s.value, ast.Constant))]
    for i, s in enumerate(stmts):
        if isinstance(s, ast.Assign) and len(s.targets) == 1 and isinstance(s.targets[0], ast.Name):
            name = s.targets[0].id
            v = s.value
            if isinstance(v, ast.BinOp) and isinstance(v.op, ast.Div) and _is_name(v.left, "TR") and _is_name(v.right, "n_slices"):
                scal.add(name)
            else:
                env[name] = slot_expr(v, env)
            continue
        if isinstance(s, ast.Return):
            if i != len(stmts) - 1:
                raise Unsupported("code after return")
            return time_expr(s.value, env, scal)
        if isinstance(s, ast.If):
            t = s.test
            if not (isinstance(t, ast.Compare) and len(t.ops) == 1 and isinstance(t.ops[0], ast.Eq)
                    and isinstance(t.left, ast.BinOp) and isinstance(t.left.op, ast.Mod) and _is_name(t.left.left, "n_slices")
                    and isinstance(t.left.right, ast.Constant) and t.left.right.value == 2
                    and isinstance(t.comparators[0], ast.Constant) and t.comparators[0].value == 0):
                raise Unsupported("if test: " + ast.dump(t))
            if s.orelse:
                b = body_expr(s.orelse, env, scal)
                if i != len(stmts) - 1:
                    raise Unsupported("code after if/else")
            else:
                b = body_expr(stmts[i + 1:], env, scal)
            a = body_expr(s.body, env, scal)
            return "(SIfEven %s %s)" % (a, b)
        raise Unsupported("statement: " + ast.dump(s))
    raise Unsupported("no return")


@register("SliceTiming.v", ["C19"])
def translate(repo):
    path = repo / SRC
    tree = ast.parse(path.read_text())
    funcs = []
    aliases = []
    for node in tree.body:
        if isinstance(node, ast.FunctionDef) and any(_is_name(d, "_dec_stfunc") for d in node.decorator_list):
            args = [a.arg for a in node.args.args]
            if args != ["n_slices", "TR"]:
                raise Unsupported("signature of %s" % node.name)
            funcs.append((node.name, body_expr(node.body), node.lineno, node.end_lineno))
        elif isinstance(node, ast.Assign) and isinstance(node.value, ast.Call) and _is_name(node.value.func, "_derived_func"):
            a = node.value.args
            if not (len(a) == 2 and isinstance(a[0], ast.Constant) and isinstance(a[1], ast.Name)):
                raise Unsupported("alias form")
            aliases.append((a[0].value, a[1].id))
    if not funcs:
        raise Unsupported("no schedule functions found")
    out = ["(* GENERATED from %s by harness/translate/slicetiming.py - do not edit *)" % SRC,
           "From Coq Require Import List String.", "From NV.Lib Require Import SlotAlg.", "Import ListNotations.",
           "Open Scope string_scope.", ""]
    for name, e, l0, l1 in funcs:
        out.append("(* %s:%d-%d *)" % (SRC, l0, l1))
        out.append("Definition src_%s : sexpr := %s." % (name, e))
    out.append("")
    out.append("Definition src_table : list (string * sexpr) := [")
    out.append(";\n".join('  ("%s", src_%s)' % (n, n) for n, _, _, _ in funcs))
    out.append("].")
    out.append("")
    out.append("(* aliases created with _derived_func(name, func): (alias, target) *)")
    out.append("Definition src_aliases : list (string * string) := [")
    out.append(";\n".join('  ("%s", "%s")' % (a, t) for a, t in aliases))
    out.append("].")
    meta = {"source": SRC, "functions": [f[0] for f in funcs], "aliases": aliases,
            "spans": {f[0]: [f[2], f[3]] for f in funcs}}
    return "\n".join(out) + "\n", meta
