"""Translate the hashing constants of graph_3d_grid (nipy/algorithms/graph/graph.py)
into Gallina (coq/Generated/GridHash.v), for C11.

Parsed with `ast` from the CURRENT source, fail-closed:

    m = 3 * lxyz.max(0).sum() + 2          -> src_grid_m (S : Z) : Z := 3 * S + 2
                                              (any expression linear in S = lxyz.max(0).sum())
    n6 / n18 / n26 = [np.array([cx, cy, cz]), ...]
                                           -> each entry is a polynomial in m of degree <= 2 with integer
                                              coefficients (built from ints, m, +, -, *, **); a row is
                                              emitted by its base-m digits
                                              ((x0,y0,z0),(x1,y1,z1),(x2,y2,z2)), cx = x0 + x1*m + x2*m^2
    i, j, d = create_edges(lxyz, n6, 1.)   -> l1dist of each system (must be integers), the guards
    if k >= 18: ... create_edges(lxyz, n18, 2, i, j, d)      `k >= 18` / `k == 26` are recorded
    if k == 26: ... create_edges(lxyz, n26, 3, i, j, d)
    create_edges body                      -> must contain `sv1[:-1] - sv1[1:] == -l1dist`,
                                              `np.dot(lxyz, nn_row)`, `np.argsort(v1)` and
                                              `np.sqrt(l1dist) * np.ones(q)`
Anything else raises.
"""
import ast

from . import register

SRC = "nipy/algorithms/graph/graph.py"


class Unsupported(Exception):
    pass


def _padd(a, b, sign=1):
    out = dict(a)
    for k, v in b.items():
        out[k] = out.get(k, 0) + sign * v
    return {k: v for k, v in out.items() if v != 0}


def _pmul(a, b):
    out = {}
    for i, x in a.items():
        for j, y in b.items():
            out[i + j] = out.get(i + j, 0) + x * y
    return {k: v for k, v in out.items() if v != 0}


def poly(n, var):
    """integer polynomial in the name `var`: {degree: coefficient}"""
    if isinstance(n, ast.Constant) and isinstance(n.value, int) and not isinstance(n.value, bool):
        return {0: n.value} if n.value else {}
    if isinstance(n, ast.Name) and n.id == var:
        return {1: 1}
    if isinstance(n, ast.UnaryOp) and isinstance(n.op, ast.USub):
        return _padd({}, poly(n.operand, var), -1)
    if isinstance(n, ast.BinOp):
        if isinstance(n.op, ast.Add):
            return _padd(poly(n.left, var), poly(n.right, var))
        if isinstance(n.op, ast.Sub):
            return _padd(poly(n.left, var), poly(n.right, var), -1)
        if isinstance(n.op, ast.Mult):
            return _pmul(poly(n.left, var), poly(n.right, var))
        if isinstance(n.op, ast.Pow) and isinstance(n.right, ast.Constant) and isinstance(n.right.value, int) \
                and 0 <= n.right.value <= 2:
            r = {0: 1}
            for _ in range(n.right.value):
                r = _pmul(r, poly(n.left, var))
            return r
    raise Unsupported("not an integer polynomial in %s: %s" % (var, ast.dump(n)))


def _is_S(n):
    # lxyz.max(0).sum()
    return (isinstance(n, ast.Call) and isinstance(n.func, ast.Attribute) and n.func.attr == "sum" and not n.args
            and isinstance(n.func.value, ast.Call) and isinstance(n.func.value.func, ast.Attribute)
            and n.func.value.func.attr == "max" and isinstance(n.func.value.func.value, ast.Name)
            and n.func.value.func.value.id == "lxyz" and len(n.func.value.args) == 1
            and isinstance(n.func.value.args[0], ast.Constant) and n.func.value.args[0].value == 0)


class _SubstS(ast.NodeTransformer):
    def visit_Call(self, node):
        if _is_S(node):
            return ast.copy_location(ast.Name(id="S__", ctx=ast.Load()), node)
        return self.generic_visit(node)


def _rows(node):
    if not isinstance(node, ast.List) or not node.elts:
        raise Unsupported("row list expected")
    out = []
    for el in node.elts:
        if not (isinstance(el, ast.Call) and isinstance(el.func, ast.Attribute) and el.func.attr == "array"
                and isinstance(el.func.value, ast.Name) and el.func.value.id == "np" and len(el.args) == 1
                and isinstance(el.args[0], ast.List) and len(el.args[0].elts) == 3 and not el.keywords):
            raise Unsupported("np.array([cx, cy, cz]) expected: " + ast.dump(el))
        ps = [poly(c, "m") for c in el.args[0].elts]
        for p in ps:
            if any(k > 2 for k in p):
                raise Unsupported("degree > 2")
        out.append(tuple(tuple(p.get(deg, 0) for p in ps) for deg in (0, 1, 2)))
    return out


def _num(n):
    if isinstance(n, ast.Constant) and isinstance(n.value, (int, float)) and float(n.value) == int(n.value):
        return int(n.value)
    raise Unsupported("integer l1dist expected: " + ast.dump(n))


def z(n):
    return str(n) if n >= 0 else "(%d)" % n


def translate_source(text):
    tree = ast.parse(text)
    fn = [n for n in tree.body if isinstance(n, ast.FunctionDef) and n.name == "graph_3d_grid"]
    if len(fn) != 1:
        raise Unsupported("graph_3d_grid not found")
    fn = fn[0]
    m_poly, lists, systems, inner = None, {}, [], None

    def create_call(stmt, guard):
        if not (isinstance(stmt, ast.Assign) and isinstance(stmt.value, ast.Call) and isinstance(stmt.value.func, ast.Name)
                and stmt.value.func.id == "create_edges"):
            return False
        a = stmt.value.args
        if len(a) not in (3, 6) or not (isinstance(a[0], ast.Name) and a[0].id == "lxyz") or not isinstance(a[1], ast.Name):
            raise Unsupported("create_edges call form")
        systems.append((a[1].id, _num(a[2]), guard))
        return True
    for st in fn.body:
        if isinstance(st, ast.Assign) and len(st.targets) == 1 and isinstance(st.targets[0], ast.Name):
            name = st.targets[0].id
            if name == "m":
                m_poly = poly(_SubstS().visit(st.value), "S__")
                if any(k > 1 for k in m_poly):
                    raise Unsupported("m must be linear in lxyz.max(0).sum()")
                continue
            if name in ("n6", "n18", "n26"):
                lists[name] = _rows(st.value)
                continue
        if isinstance(st, ast.FunctionDef) and st.name == "create_edges":
            inner = st
            continue
        if create_call(st, "always"):
            continue
        if isinstance(st, ast.If) and isinstance(st.test, ast.Compare) and isinstance(st.test.left, ast.Name) \
                and st.test.left.id == "k" and len(st.test.ops) == 1 and isinstance(st.test.comparators[0], ast.Constant):
            op = {ast.GtE: ">=", ast.Eq: "=="}.get(type(st.test.ops[0]))
            if op is None or st.orelse or len(st.body) != 1 or not create_call(st.body[0], "k %s %d" % (op, st.test.comparators[0].value)):
                raise Unsupported("guard form: " + ast.dump(st.test))
            continue
    if m_poly is None or set(lists) != {"n6", "n18", "n26"} or inner is None:
        raise Unsupported("m / n6 / n18 / n26 / create_edges not all found")
    if [s[0] for s in systems] != ["n6", "n18", "n26"] or [s[2] for s in systems] != ["always", "k >= 18", "k == 26"]:
        raise Unsupported("create_edges calls: %s" % (systems,))
    body = ast.dump(ast.Module(body=inner.body, type_ignores=[]))
    needles = {
        "consecutive sorted hashes differ by l1dist":
            ast.dump(ast.parse("sv1[: - 1] - sv1[1:] == - l1dist", mode="eval").body),
        "hash = np.dot(lxyz, nn_row)": ast.dump(ast.parse("np.dot(lxyz, nn_row)", mode="eval").body),
        "np.argsort(v1)": ast.dump(ast.parse("np.argsort(v1)", mode="eval").body),
        "weight sqrt(l1dist)": ast.dump(ast.parse("np.sqrt(l1dist) * np.ones(q)", mode="eval").body),
    }
    for what, nd in needles.items():
        if nd not in body:
            raise Unsupported("create_edges no longer contains: " + what)
    L = ["(* GENERATED by harness/translate/gridhash.py from %s - do not edit *)" % SRC,
         "From Coq Require Import ZArith List.", "Import ListNotations.", "Open Scope Z_scope.", "",
         "(* m as a function of S = lxyz.max(0).sum() *)",
         "Definition src_grid_m (S : Z) : Z := %s * S + %s." % (z(m_poly.get(1, 0)), z(m_poly.get(0, 0))), ""]
    allrows = []
    for name, l1, guard in systems:
        rows = lists[name]
        L.append("(* %s, l1dist = %d, used when %s; rows by base-m digits *)" % (name, l1, guard))
        L.append("Definition src_grid_%s : list ((Z * Z * Z) * (Z * Z * Z) * (Z * Z * Z)) := [" % name)
        L.append(";\n".join("  ((%s,%s,%s),(%s,%s,%s),(%s,%s,%s))" % tuple(z(x) for d in r for x in d) for r in rows))
        L.append("].")
        L.append("Definition src_grid_%s_l1dist : Z := %d." % (name, l1))
        allrows.append("map (fun r => (r, src_grid_%s_l1dist)) src_grid_%s" % (name, name))
    L.append("")
    L.append("Definition src_grid_rows : list ((Z * Z * Z) * (Z * Z * Z) * (Z * Z * Z) * Z) :=\n  " + " ++\n  ".join(allrows) + ".")
    meta = {"source": SRC, "function": "graph_3d_grid", "lines": [fn.lineno, fn.end_lineno],
            "m": "%d*S + %d" % (m_poly.get(1, 0), m_poly.get(0, 0)),
            "rows": {k: len(v) for k, v in lists.items()}, "systems": systems}
    return "\n".join(L) + "\n", meta


@register("GridHash.v", ["C11"])
def translate(repo):
    text = (repo / SRC).read_text()
    return translate_source(text)
