"""Translate the literal parts of nipy/algorithms/segmentation/mrf.c into Gallina
(coq/Generated/MrfTables.v), fail-closed.

What is taken from the CURRENT source on every run:

  * `int ngb6 [] = {...};`, `int ngb26 [] = {...};`  -> `src_ngb6`, `src_ngb26 : list (Z*Z*Z)`
  * `_select_neighborhood_system`: the chain `if (ngb_size == N) return T; else if ...`
                                                      -> `src_select : Z -> option (list (Z*Z*Z))`
  * `#define TINY <literal>`                          -> `src_TINY : Q`  (the exact value of the C double)
  * in `_ngb_integrate`:  `u2 = dim_ppm[2]*K`, `u1 = dim_ppm[1]*u2`, `posmax = dim_ppm[0]*u1 - K`,
    `pos = xn*u1 + yn*u2 + zn*K`, and the rejection test `if ((pos < 0) || (pos > posmax)) continue;`
                                                      -> `src_u2 src_u1 src_posmax src_pos src_reject` over Z
  * in `ve_step`: the argument of `exp` in `tmp = exp(ARG) * ref_data[pos]`, the write position
    `pos = x*u1 + y*u2 + z*K`, the branch condition `if (psum > TINY)` and the two right-hand sides
    `ppm_data[pos] = RHS;`                             -> `src_exp_arg src_wpos src_norm_cond src_norm_main src_norm_tiny`
                                                         over Q (Z for the position)

Expressions go through a small recursive-descent parser for C arithmetic
(`+ - * /`, unary `-`, comparisons, `||`, `&&`, parentheses, `(double)` casts,
`*name` dereference, `name[const]`); any other token, an unknown identifier, or
a statement that is not found in exactly the expected shape raises.
"""
import re

from . import register

SRC = "nipy/algorithms/segmentation/mrf.c"


class Unsupported(Exception):
    pass


def strip_comments(s):
    s = re.sub(r"/\*.*?\*/", " ", s, flags=re.S)
    s = re.sub(r"//[^\n]*", " ", s)
    return s


def func_body(src, name):
    """Text between the braces of the definition of function `name`."""
    m = re.search(r"\b%s\s*\([^;{]*\)\s*\{" % re.escape(name), src)
    if not m:
        raise Unsupported("function %s not found" % name)
    i = m.end()
    depth = 1
    j = i
    while j < len(src) and depth:
        if src[j] == "{":
            depth += 1
        elif src[j] == "}":
            depth -= 1
        j += 1
    if depth:
        raise Unsupported("unbalanced braces in %s" % name)
    return " ".join(src[i:j - 1].split())


# ------------------------------------------------------------------ expressions
TOK = re.compile(r"\s*(?:(\d+\.\d*(?:[eE][-+]?\d+)?|\d+[eE][-+]?\d+|\d+)|([A-Za-z_][A-Za-z_0-9]*)|(\|\||&&|<=|>=|==|!=|[-+*/()<>\[\]]))")


def tokenize(s):
    out = []
    i = 0
    s = s.strip()
    while i < len(s):
        m = TOK.match(s, i)
        if not m:
            raise Unsupported("cannot tokenize %r at %r" % (s, s[i:i + 10]))
        if m.group(1):
            out.append(("num", m.group(1)))
        elif m.group(2):
            out.append(("id", m.group(2)))
        else:
            out.append(("op", m.group(3)))
        i = m.end()
    return out


class P:
    """expr := or ; or := and ('||' and)* ; and := cmp ('&&' cmp)* ; cmp := sum (relop sum)? ;
    sum := term (('+'|'-') term)* ; term := unary (('*'|'/') unary)* ;
    unary := '-' unary | '*' id | '(' 'double' ')' unary | atom ; atom := num | id ('[' num ']')? | '(' expr ')'"""

    def __init__(self, toks, env, sort):
        self.t = toks
        self.i = 0
        self.env = env      # identifier -> Coq variable
        self.sort = sort    # 'Z' or 'Q'

    def peek(self):
        return self.t[self.i] if self.i < len(self.t) else (None, None)

    def eat(self, kind=None, val=None):
        k, v = self.peek()
        if k is None or (kind and k != kind) or (val and v != val):
            raise Unsupported("expected %s %s, got %s %s" % (kind, val, k, v))
        self.i += 1
        return v

    def parse(self):
        e = self.p_or()
        if self.i != len(self.t):
            raise Unsupported("trailing tokens %r" % (self.t[self.i:],))
        return e

    def p_or(self):
        e = self.p_and()
        while self.peek() == ("op", "||"):
            self.eat()
            e = "(orb %s %s)" % (e, self.p_and())
        return e

    def p_and(self):
        e = self.p_cmp()
        while self.peek() == ("op", "&&"):
            self.eat()
            e = "(andb %s %s)" % (e, self.p_cmp())
        return e

    def p_cmp(self):
        a = self.p_sum()
        k, v = self.peek()
        if k == "op" and v in ("<", ">", "<=", ">="):
            self.eat()
            b = self.p_sum()
            if self.sort == "Z":
                f = {"<": "Z.ltb %s %s", ">": "Z.ltb %s %s", "<=": "Z.leb %s %s", ">=": "Z.leb %s %s"}[v]
            else:
                # strict: a < b  <->  negb (b <= a)
                f = {"<": "negb (Qle_bool %s %s)", ">": "negb (Qle_bool %s %s)",
                     "<=": "Qle_bool %s %s", ">=": "Qle_bool %s %s"}[v]
            if self.sort == "Z":
                x, y = (a, b) if v in ("<", "<=") else (b, a)
            else:
                if v == "<":
                    x, y = b, a
                elif v == ">":
                    x, y = a, b
                elif v == "<=":
                    x, y = a, b
                else:
                    x, y = b, a
            return "(" + f % (x, y) + ")"
        return a

    def p_sum(self):
        e = self.p_term()
        while self.peek() in (("op", "+"), ("op", "-")):
            op = self.eat()
            r = self.p_term()
            e = "(%s %s %s)" % (e, op, r)
        return e

    def p_term(self):
        e = self.p_unary()
        while self.peek() in (("op", "*"), ("op", "/")):
            op = self.eat()
            r = self.p_unary()
            if op == "/" and self.sort == "Z":
                raise Unsupported("integer division not supported")
            e = "(%s %s %s)" % (e, op, r)
        return e

    def p_unary(self):
        k, v = self.peek()
        if (k, v) == ("op", "-"):
            self.eat()
            return "(- %s)" % self.p_unary()
        if (k, v) == ("op", "*"):
            self.eat()
            name = self.eat("id")
            return self.var("*" + name)
        if (k, v) == ("op", "(") and self.i + 2 < len(self.t) and self.t[self.i + 1] == ("id", "double") \
                and self.t[self.i + 2] == ("op", ")"):
            self.i += 3
            return self.p_unary()
        return self.p_atom()

    def var(self, name):
        if name not in self.env:
            raise Unsupported("unknown identifier %r" % name)
        return self.env[name]

    def p_atom(self):
        k, v = self.peek()
        if k == "num":
            self.eat()
            if self.sort == "Z":
                if not re.fullmatch(r"\d+", v):
                    raise Unsupported("non-integer literal %r in integer expression" % v)
                return "%s" % v
            x = float(v)
            n, d = x.as_integer_ratio()
            return "(Qmake %d %d)" % (n, d)
        if k == "id":
            self.eat()
            if self.peek() == ("op", "["):
                self.eat()
                idx = self.eat("num")
                self.eat("op", "]")
                return self.var("%s[%s]" % (v, idx))
            return self.var(v)
        if (k, v) == ("op", "("):
            self.eat()
            e = self.p_or()
            self.eat("op", ")")
            return e
        raise Unsupported("unexpected token %r %r" % (k, v))


def tr(expr, env, sort):
    return P(tokenize(expr), env, sort).parse()


def one(pattern, text, what):
    ms = re.findall(pattern, text)
    if len(ms) != 1:
        raise Unsupported("%s: expected exactly one match, found %d" % (what, len(ms)))
    return ms[0]


def table(src, name):
    m = re.findall(r"\bint\s+%s\s*\[\s*\]\s*=\s*\{([^}]*)\}\s*;" % name, src)
    if len(m) != 1:
        raise Unsupported("table %s: expected one initialiser, found %d" % (name, len(m)))
    items = [x.strip() for x in m[0].split(",")]
    if any(not re.fullmatch(r"-?\d+", x) for x in items):
        raise Unsupported("table %s has a non-integer entry" % name)
    v = [int(x) for x in items]
    if len(v) % 3:
        raise Unsupported("table %s: length %d is not a multiple of 3" % (name, len(v)))
    return [tuple(v[i:i + 3]) for i in range(0, len(v), 3)]


def coq_table(t):
    return "[" + "; ".join("((%d)%%Z, (%d)%%Z, (%d)%%Z)" % o for o in t) + "]"


@register("MrfTables.v", ["C13"])
def translate(repo):
    raw = (repo / SRC).read_text()
    src = strip_comments(raw)
    names = sorted(set(re.findall(r"\bint\s+(ngb\d+)\s*\[", src)))
    if names != ["ngb26", "ngb6"]:
        raise Unsupported("neighbourhood tables found: %s" % names)
    tabs = {n: table(src, n) for n in names}
    # selection chain
    sel = func_body(src, "_select_neighborhood_system")
    pairs = re.findall(r"if \(ngb_size == (\d+)\) return (\w+) ;", sel.replace(";", " ;"))
    rest = re.sub(r"(else )?if \(ngb_size == \d+\) return \w+ ?;", "", sel).strip()
    if not pairs or not re.fullmatch(r"else \{ fprintf\(stderr, \"[^\"]*\"\); return NULL; \}", rest):
        raise Unsupported("_select_neighborhood_system has an unexpected shape: %r" % rest)
    for _, t in pairs:
        if t not in tabs:
            raise Unsupported("selection returns unknown table %s" % t)
    tiny = one(r"#define\s+TINY\s+(\S+)", src, "#define TINY")
    tn, td = float(tiny).as_integer_ratio()

    ngbi = func_body(src, "_ngb_integrate")
    envz = {"dim_ppm[0]": "d0", "dim_ppm[1]": "d1", "dim_ppm[2]": "d2", "K": "K", "u1": "u1", "u2": "u2",
            "xn": "xn", "yn": "yn", "zn": "zn", "pos": "pos", "posmax": "posmax"}
    if one(r"npy_intp K = ([^;]*);", ngbi, "K") != "dim_ppm[3]":
        raise Unsupported("K is not dim_ppm[3]")
    e_u2 = tr(one(r"npy_intp u2 = ([^;]*);", ngbi, "u2"), envz, "Z")
    e_u1 = tr(one(r"npy_intp u1 = ([^;]*);", ngbi, "u1"), envz, "Z")
    e_pm = tr(one(r"npy_intp posmax = ([^;]*);", ngbi, "posmax"), envz, "Z")
    e_pos = tr(one(r"[;{] pos = ([^;]*);", ngbi, "pos"), envz, "Z")
    e_rej = tr(one(r"if \((.*?)\) continue;", ngbi, "rejection test"), envz, "Z")
    # neighbour coordinates must be x + offset etc.
    for c in "xyz":
        one(r"%sn = %s \+ \*buf_ngb; buf_ngb\+\+;" % (c, c), ngbi, "%sn" % c)
    # accumulation statement
    one(r"\*buf \+= \*buf_U \* \*q;", ngbi, "U*q accumulation")
    one(r"for \(k=0, buf=res, buf_U=\(double\*\)U; k<K; k\+\+, buf\+\+\) for \(kk=0, q=buf_ppm; kk<K; kk\+\+, q\+\+, buf_U\+\+\)",
        ngbi, "U*q loops")
    one(r"buf_ppm = \(double\*\)ppm_data \+ pos;", ngbi, "buf_ppm")

    ve = func_body(src, "ve_step")
    envq = {"beta": "beta", "*buf": "t", "psum": "psum", "TINY": "tiny", "K": "K"}
    arg = one(r"tmp = exp\((.*?)\) \* ref_data\[pos\];", ve, "exp transform")
    e_arg = tr(arg, envq, "Q")
    one(r"psum \+= tmp; \*buf = tmp;", ve, "psum accumulation")
    one(r"for \(k=0, pos=\(iter->index\)\*K, buf=p; k<K; k\+\+, pos\+\+, buf\+\+\)", ve, "ref row loop")
    envw = {"x": "x", "y": "y", "z": "z", "u1": "u1", "u2": "u2", "K": "K"}
    e_wpos = tr(one(r"[;{}] pos = (x[^;]*);", ve, "write position"), envw, "Z")
    if one(r"npy_intp u2 = ([^;]*);", ve, "ve u2") != "PyArray_DIMS(ppm)[2]*K" or \
            one(r"npy_intp u1 = ([^;]*);", ve, "ve u1") != "PyArray_DIMS(ppm)[1]*u2":
        raise Unsupported("ve_step strides differ from _ngb_integrate's")
    m = re.search(r"if \((psum[^)]*)\) for \(k=0, buf=p; k<K; k\+\+, pos\+\+, buf\+\+\) ppm_data\[pos\] = ([^;]*); "
                  r"else for \(k=0, buf=p; k<K; k\+\+, pos\+\+, buf\+\+\) ppm_data\[pos\] = ([^;]*);", ve)
    if not m:
        raise Unsupported("normalisation branches not found in the expected shape")
    e_cond = tr(m.group(1), envq, "Q")
    e_main = tr(m.group(2), envq, "Q")
    e_tiny = tr(m.group(3), envq, "Q")

    out = ["(* GENERATED from %s by harness/translate/mrftables.py - do not edit *)" % SRC,
           "From Coq Require Import List Bool ZArith QArith.", "Import ListNotations.", "",
           "Definition src_ngb6 : list (Z*Z*Z) := %s." % coq_table(tabs["ngb6"]),
           "Definition src_ngb26 : list (Z*Z*Z) := %s." % coq_table(tabs["ngb26"]), "",
           "Definition src_select (ngb_size : Z) : option (list (Z*Z*Z)) :="]
    for n, t in pairs:
        out.append("  if Z.eqb ngb_size %s then Some src_%s else" % (n, t))
    out.append("  None.")
    out += ["", "(* #define TINY %s : exact value of the C double *)" % tiny,
            "Definition src_TINY : Q := Qmake %d %d." % (tn, td), "",
            "Open Scope Z_scope.",
            "Definition src_u2 (d2 K : Z) : Z := %s." % e_u2,
            "Definition src_u1 (d1 u2 : Z) : Z := %s." % e_u1,
            "Definition src_posmax (d0 u1 K : Z) : Z := %s." % e_pm,
            "Definition src_pos (u1 u2 K xn yn zn : Z) : Z := %s." % e_pos,
            "Definition src_reject (pos posmax : Z) : bool := %s." % e_rej,
            "Definition src_wpos (u1 u2 K x y z : Z) : Z := %s." % e_wpos,
            "Close Scope Z_scope.", "Open Scope Q_scope.",
            "Definition src_exp_arg (beta t : Q) : Q := %s." % e_arg,
            "Definition src_norm_cond (psum tiny : Q) : bool := %s." % e_cond,
            "Definition src_norm_main (t psum : Q) : Q := %s." % e_main,
            "Definition src_norm_tiny (t psum tiny K : Q) : Q := %s." % e_tiny,
            "Close Scope Q_scope.", ""]
    meta = {"source": SRC, "ngb6": len(tabs["ngb6"]), "ngb26": len(tabs["ngb26"]), "select": pairs,
            "TINY": tiny, "reject": e_rej, "posmax": e_pm, "norm_main": e_main, "norm_tiny": e_tiny,
            "exp_arg": e_arg}
    return "\n".join(out) + "\n", meta
