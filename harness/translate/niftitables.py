"""Translate the literal tables and table-like rules that the NIfTI converters
use into Gallina (coq/Generated/NiftiTables.v), fail-closed.

From nipy/io/nifti_ref.py:
    XFORM2SPACE            {'label': ncrs.<name>_space}      -> xform2space : list (label, space name) in dict order
    TIME_LIKE_AXES         {'t': {'aliases': (...), 'units': 'sec'}, ...}
    TIME_LIKE_MAP          the construction loop must be exactly the known one (alias and name -> name)
    TIME_LIKE_ORDERED      tuple of names
    TIME_LIKE_UNITS        {'sec': {'name': 't', 'scaling': 1}, 'msec': {... 1 / 1000.}, ...}  scaling -> exact Q
    TINY                   float constant -> exact Q
    nipy2nifti             ('freq', 'phase', 'slice'), the `n_ns > K` / `n_ns == K` refusal bounds, the
                           non-strict ('x','y','z') -> 'scanner' fallback, `for c in 'xyz'`
    nifti2nipy             list('ijk'), tuple('uvw'), `ndim < 3`, the squeeze condition
From nipy/core/reference/spaces.py:
    XYZSpace.{x,y,z}_suffix, the f"{self.name}-{self.x_suffix}" name rule, as_tuple, register_to,
    __contains__ (issubset), the tuple of standard space names and their registration loop
From nipy/io/files.py:
    _type_from_filename    compression suffixes stripped, extension -> type table
Anything not of the expected shape raises Unsupported.
"""
import ast
from fractions import Fraction

from . import register

NIFTI = "nipy/io/nifti_ref.py"
SPACES = "nipy/core/reference/spaces.py"
FILES = "nipy/io/files.py"


class Unsupported(Exception):
    pass


def need(cond, what):
    if not cond:
        raise Unsupported(what)


def cstr(s):
    need(isinstance(s, str) and all(32 <= ord(c) < 127 and c != '"' for c in s), "string literal %r" % (s,))
    return '"%s"' % s


def strs(node, what):
    need(isinstance(node, (ast.Tuple, ast.List)), what + ": not a tuple")
    out = []
    for e in node.elts:
        need(isinstance(e, ast.Constant) and isinstance(e.value, str), what + ": non-string element")
        out.append(e.value)
    return out


def num(node, what):
    """Constant arithmetic -> Fraction (ints, floats with exact decimal meaning, / and unary -)."""
    if isinstance(node, ast.Constant) and isinstance(node.value, bool):
        raise Unsupported(what)
    if isinstance(node, ast.Constant) and isinstance(node.value, int):
        return Fraction(node.value)
    if isinstance(node, ast.Constant) and isinstance(node.value, float):
        return Fraction(repr(node.value))  # decimal meaning of the literal (1000. -> 1000, 1e-5 -> 1/100000)
    if isinstance(node, ast.BinOp) and isinstance(node.op, ast.Div):
        d = num(node.right, what)
        need(d != 0, what + ": division by zero")
        return num(node.left, what) / d
    if isinstance(node, ast.UnaryOp) and isinstance(node.op, ast.USub):
        return -num(node.operand, what)
    raise Unsupported(what + ": " + ast.dump(node))


def cq(f):
    return "(Qmake (%d) %d)" % (f.numerator, f.denominator)


def top_assign(tree, name):
    hits = [n for n in tree.body if isinstance(n, ast.Assign) and len(n.targets) == 1
            and isinstance(n.targets[0], ast.Name) and n.targets[0].id == name]
    need(len(hits) == 1, "exactly one top-level assignment of %s" % name)
    return hits[0]


def func(tree, name):
    hits = [n for n in tree.body if isinstance(n, ast.FunctionDef) and n.name == name]
    need(len(hits) == 1, "exactly one function %s" % name)
    return hits[0]


def norm(node):
    return ast.unparse(node)


def has_stmt(fn, text, what=None):
    """some statement (at any depth) of `fn` unparses to exactly `text`"""
    want = ast.unparse(ast.parse(text).body[0])
    for n in ast.walk(fn):
        if isinstance(n, ast.stmt) and not isinstance(n, (ast.FunctionDef, ast.If, ast.For, ast.Try, ast.With, ast.While)):
            if ast.unparse(n) == want:
                return True
    raise Unsupported("%s: statement `%s` not found in %s" % (what or "shape", text, getattr(fn, "name", "?")))


def has_test(fn, text):
    want = ast.unparse(ast.parse(text, mode="eval").body)
    for n in ast.walk(fn):
        if isinstance(n, (ast.If, ast.While, ast.IfExp)) and ast.unparse(n.test) == want:
            return True
    raise Unsupported("test `%s` not found in %s" % (text, fn.name))


TLM_LOOP = """
for _name, _info in TIME_LIKE_AXES.items():
    for _alias in (_name,) + _info['aliases']:
        TIME_LIKE_MAP[_alias] = _name
"""

SPACE_LOOP_STMTS = ["_space = XYZSpace(_name)", "known_spaces.append(_space)", "_space.register_to(known_names)"]


def nifti_tables(repo):
    tree = ast.parse((repo / NIFTI).read_text())
    out = []
    meta = {}
    # XFORM2SPACE
    d = top_assign(tree, "XFORM2SPACE").value
    need(isinstance(d, ast.Dict), "XFORM2SPACE dict")
    x2s = []
    for k, v in zip(d.keys, d.values):
        need(isinstance(k, ast.Constant) and isinstance(k.value, str), "XFORM2SPACE key")
        need(isinstance(v, ast.Attribute) and isinstance(v.value, ast.Name) and v.value.id == "ncrs"
             and v.attr.endswith("_space"), "XFORM2SPACE value must be ncrs.<name>_space")
        x2s.append((k.value, v.attr[:-len("_space")]))
    out.append("Definition xform2space : list (string * string) := [%s]." %
               "; ".join("(%s, %s)" % (cstr(a), cstr(b)) for a, b in x2s))
    meta["XFORM2SPACE"] = x2s
    # TIME_LIKE_AXES
    d = top_assign(tree, "TIME_LIKE_AXES").value
    need(isinstance(d, ast.Dict), "TIME_LIKE_AXES dict")
    tla = []
    for k, v in zip(d.keys, d.values):
        need(isinstance(k, ast.Constant) and isinstance(k.value, str) and isinstance(v, ast.Dict), "TIME_LIKE_AXES entry")
        inner = {}
        for kk, vv in zip(v.keys, v.values):
            need(isinstance(kk, ast.Constant), "TIME_LIKE_AXES inner key")
            inner[kk.value] = vv
        need(set(inner) == {"aliases", "units"}, "TIME_LIKE_AXES inner keys")
        need(isinstance(inner["units"], ast.Constant) and isinstance(inner["units"].value, str), "units")
        tla.append((k.value, strs(inner["aliases"], "aliases"), inner["units"].value))
    out.append("Definition time_like_axes : list (string * (list string * string)) := [%s]." %
               "; ".join("(%s, ([%s], %s))" % (cstr(n), "; ".join(cstr(a) for a in al), cstr(u)) for n, al, u in tla))
    meta["TIME_LIKE_AXES"] = tla
    # TIME_LIKE_MAP: empty dict then the exact loop
    m = top_assign(tree, "TIME_LIKE_MAP").value
    need(isinstance(m, ast.Dict) and not m.keys, "TIME_LIKE_MAP starts empty")
    loops = [n for n in tree.body if isinstance(n, ast.For)]
    need(len(loops) == 1 and norm(loops[0]) == norm(ast.parse(TLM_LOOP).body[0]),
         "TIME_LIKE_MAP construction loop changed")
    out.append("(* TIME_LIKE_MAP[alias] = name for alias in (name,) + aliases, in dict order *)")
    out.append("Definition time_like_map : list (string * string) :=\n"
               "  flat_map (fun e => map (fun a => (a, fst e)) (fst e :: fst (snd e))) time_like_axes.")
    # TIME_LIKE_ORDERED
    tlo = strs(top_assign(tree, "TIME_LIKE_ORDERED").value, "TIME_LIKE_ORDERED")
    out.append("Definition time_like_ordered : list string := [%s]." % "; ".join(cstr(s) for s in tlo))
    meta["TIME_LIKE_ORDERED"] = tlo
    # TINY
    tiny = num(top_assign(tree, "TINY").value, "TINY")
    out.append("Definition tiny : Q := %s." % cq(tiny))
    meta["TINY"] = str(tiny)
    # TIME_LIKE_UNITS
    d = top_assign(tree, "TIME_LIKE_UNITS").value
    need(isinstance(d, ast.Dict), "TIME_LIKE_UNITS dict")
    tlu = []
    for k, v in zip(d.keys, d.values):
        need(isinstance(k, ast.Constant) and isinstance(k.value, str) and isinstance(v, ast.Dict), "TIME_LIKE_UNITS entry")
        inner = {}
        for kk, vv in zip(v.keys, v.values):
            need(isinstance(kk, ast.Constant), "TIME_LIKE_UNITS inner key")
            inner[kk.value] = vv
        need(set(inner) == {"name", "scaling"}, "TIME_LIKE_UNITS inner keys")
        need(isinstance(inner["name"], ast.Constant) and isinstance(inner["name"].value, str), "units name")
        tlu.append((k.value, inner["name"].value, num(inner["scaling"], "scaling")))
    out.append("Definition time_like_units : list (string * (string * Q)) := [%s]." %
               "; ".join("(%s, (%s, %s))" % (cstr(u), cstr(n), cq(s)) for u, n, s in tlu))
    meta["TIME_LIKE_UNITS"] = [(u, n, str(s)) for u, n, s in tlu]

    # ---- nipy2nifti literals
    f = func(tree, "nipy2nifti")
    comps = [n for n in ast.walk(f) if isinstance(n, ast.ListComp)]
    fps = None
    for c in comps:
        g = c.generators[0]
        if isinstance(g.target, ast.Name) and g.target.id == "fps":
            need(norm(c.elt) == "spatial_names.index(fps) if fps in spatial_names else None", "dim_info comprehension")
            fps = strs(g.iter, "dim_info names")
    need(fps is not None, "dim_info comprehension not found")
    has_stmt(f, "hdr.set_dim_info(*dim_infos)")
    has_stmt(f, "spatial_names = input_names[:3]")
    out.append("Definition dim_info_names : list string := [%s]." % "; ".join(cstr(s) for s in fps))
    meta["dim_info_names"] = fps
    # the two dimension bounds
    gt = [n for n in ast.walk(f) if isinstance(n, ast.Compare) and isinstance(n.left, ast.Name) and n.left.id == "n_ns"]
    bounds = {}
    for c in gt:
        need(len(c.ops) == 1 and isinstance(c.comparators[0], ast.Constant) and isinstance(c.comparators[0].value, int),
             "n_ns comparison")
        bounds[type(c.ops[0]).__name__] = c.comparators[0].value
    need(set(bounds) == {"Eq", "Gt"}, "expected `n_ns == 0`, `n_ns > K`, `n_ns == K'` comparisons, got %s" % bounds)
    eqs = sorted(c.comparators[0].value for c in gt if isinstance(c.ops[0], ast.Eq))
    need(len(eqs) == 2 and eqs[0] == 0, "n_ns == 0 and n_ns == K'")
    out.append("Definition max_ns : nat := %d.        (* `n_ns > %d` -> too many dimensions *)" % (bounds["Gt"], bounds["Gt"]))
    out.append("Definition full_ns : nat := %d.       (* no time-like axis and `n_ns == %d` -> too many dimensions *)" % (eqs[1], eqs[1]))
    meta["n_ns_bounds"] = {"gt": bounds["Gt"], "eq": eqs[1]}
    # non-strict fallback
    has_test(f, "not strict and spatial_output_names == ('x', 'y', 'z')")
    has_stmt(f, "hdr.set_sform(xyz_affine, 'scanner')")
    has_stmt(f, "hdr.set_qform(xyz_affine, 'scanner')")
    has_stmt(f, "known_names[c] = c")
    loops = [n for n in ast.walk(f) if isinstance(n, ast.For) and isinstance(n.target, ast.Name) and n.target.id == "c"]
    need(len(loops) == 1 and isinstance(loops[0].iter, ast.Constant) and loops[0].iter.value == "xyz", "for c in 'xyz'")
    out.append('Definition plain_xyz : list string := ["x"; "y"; "z"].')
    out.append('Definition plain_xyz_label : string := "scanner".')
    has_test(f, "out_space not in ncrs.unknown_space")
    has_test(f, "out_space in space")
    has_test(f, "tl_name == 't' and np.any(trans[3:])")
    has_stmt(f, "hdr['toffset'] = trans[out_ax]")
    # ---- nifti2nipy literals
    g = func(tree, "nifti2nipy")
    has_stmt(g, "input_names3 = list('ijk')")
    has_stmt(g, "ns_names = tuple('uvw')")
    has_test(g, "ndim < 3")
    has_test(g, "shape[3] == 1 and ndim > 4 and (units_info is None)")
    has_stmt(g, "units_info = TIME_LIKE_UNITS['sec']")
    has_stmt(g, "world_space = XFORM2SPACE.get(world_label, ncrs.unknown_space)")
    out.append('Definition default_in3 : list string := ["i"; "j"; "k"].')
    out.append('Definition extra_names : list string := ["u"; "v"; "w"].')
    out.append('Definition default_units : string := "sec".')
    return out, meta


def spaces_tables(repo):
    tree = ast.parse((repo / SPACES).read_text())
    cls = [n for n in tree.body if isinstance(n, ast.ClassDef) and n.name == "XYZSpace"]
    need(len(cls) == 1, "class XYZSpace")
    cls = cls[0]
    suff = {}
    for n in cls.body:
        if isinstance(n, ast.Assign) and isinstance(n.targets[0], ast.Name) and n.targets[0].id.endswith("_suffix"):
            need(isinstance(n.value, ast.Constant) and isinstance(n.value.value, str), "suffix literal")
            suff[n.targets[0].id[0]] = n.value.value
    need(set(suff) == {"x", "y", "z"}, "x/y/z suffixes")
    meths = {n.name: n for n in cls.body if isinstance(n, ast.FunctionDef)}
    for c in "xyz":
        need(c in meths, "property " + c)
        has_stmt(meths[c], "return f'{self.name}-{self.%s_suffix}'" % c)
    has_stmt(meths["as_tuple"], "return (self.x, self.y, self.z)")
    has_stmt(meths["register_to"], "mapping.update(dict(zip(self.as_tuple(), 'xyz')))")
    has_stmt(meths["__contains__"], "my_names = self.as_tuple()")
    has_stmt(meths["__contains__"], "return set(my_names).issubset(obj.coord_names)")
    has_stmt(meths["to_coordsys_maker"], "return CoordSysMaker(self.as_tuple() + tuple(extras), name=self.name)")
    loops = [n for n in tree.body if isinstance(n, ast.For) and isinstance(n.target, ast.Name) and n.target.id == "_name"]
    need(len(loops) == 1, "standard-space loop")
    names = strs(loops[0].iter, "standard space names")
    body = [norm(s) for s in loops[0].body]
    for s in SPACE_LOOP_STMTS:
        need(norm(ast.parse(s).body[0]) in body, "standard-space loop statement `%s`" % s)
    need("exec(f'{_name}_space = _space')" in body, "module attribute <name>_space")
    # xyz_order: the axis value rule
    xo = [n for n in tree.body if isinstance(n, ast.FunctionDef) and n.name == "xyz_order"]
    need(len(xo) == 1, "xyz_order")
    has_stmt(xo[0], "axvals[i] = N + i")
    has_stmt(xo[0], "axvals[i] = 'xyz'.index(xyz_char)")
    has_stmt(xo[0], "return list(np.argsort(axvals))")
    has_test(xo[0], "not set(axvals).issuperset(range(3))")
    xa = [n for n in tree.body if isinstance(n, ast.FunctionDef) and n.name == "xyz_affine"]
    need(len(xa) == 1, "xyz_affine")
    has_test(xa[0], "order[:3] != [0, 1, 2]")
    has_test(xa[0], "set(ornt[:3, 0]) != {0, 1, 2}")
    has_stmt(xa[0], "extra_cols = affine[:3, 3:-1]")
    has_test(xa[0], "not np.allclose(extra_cols, 0)")
    has_stmt(xa[0], "return from_matvec(affine[:3, :3], affine[:3, -1])")
    out = ["Definition space_suffixes : list string := [%s]." % "; ".join(cstr("-" + suff[c]) for c in "xyz"),
           "Definition standard_spaces : list string := [%s]." % "; ".join(cstr(s) for s in names)]
    return out, {"suffixes": suff, "standard_spaces": names}


def files_tables(repo):
    tree = ast.parse((repo / FILES).read_text())
    f = func(tree, "_type_from_filename")
    body = [s for s in f.body if not (isinstance(s, ast.Expr) and isinstance(s.value, ast.Constant))]
    need(norm(body[0]) == "filename = str(filename)", "str(filename)")
    # if filename.endswith('.gz'): filename = filename[:-3] elif ...
    strip = []
    node = body[1]
    while True:
        need(isinstance(node, ast.If), "compression-suffix chain")
        t = node.test
        need(isinstance(t, ast.Call) and norm(t.func) == "filename.endswith" and len(t.args) == 1
             and isinstance(t.args[0], ast.Constant), "endswith test")
        sfx = t.args[0].value
        need(len(node.body) == 1 and norm(node.body[0]) == "filename = filename[:-%d]" % len(sfx),
             "strip exactly the suffix %r" % sfx)
        strip.append(sfx)
        if not node.orelse:
            break
        need(len(node.orelse) == 1, "elif chain")
        node = node.orelse[0]
    need(norm(body[2]) == "_, ext = os.path.splitext(filename)", "splitext")
    table = []
    for s in body[3:-1]:
        need(isinstance(s, ast.If) and not s.orelse and len(s.body) == 1 and isinstance(s.body[0], ast.Return)
             and isinstance(s.body[0].value, ast.Constant), "ext -> type rule")
        t = s.test
        need(isinstance(t, ast.Compare) and isinstance(t.left, ast.Name) and t.left.id == "ext" and len(t.ops) == 1, "ext test")
        if isinstance(t.ops[0], ast.In):
            exts = strs(t.comparators[0], "ext tuple")
        else:
            need(isinstance(t.ops[0], ast.Eq) and isinstance(t.comparators[0], ast.Constant), "ext ==")
            exts = [t.comparators[0].value]
        for e in exts:
            table.append((e, s.body[0].value.value))
    need(isinstance(body[-1], ast.Raise), "final raise")
    out = ["Definition compress_suffixes : list string := [%s]." % "; ".join(cstr(s) for s in strip),
           "Definition ext_types : list (string * string) := [%s]." % "; ".join("(%s, %s)" % (cstr(a), cstr(b)) for a, b in table)]
    # save(): which types are written how
    sv = func(tree, "save")
    has_test(sv, "ftype.startswith('nifti1')")
    has_test(sv, "ftype == 'analyze'")
    has_stmt(sv, "ni_img = nipy2nifti(img, data_dtype=io_dtype)")
    return out, {"compress_suffixes": strip, "ext_types": table}


@register("NiftiTables.v", ["C03"])
def translate(repo):
    a, ma = nifti_tables(repo)
    b, mb = spaces_tables(repo)
    c, mc = files_tables(repo)
    out = ["(* GENERATED from %s, %s, %s by harness/translate/niftitables.py - do not edit *)" % (NIFTI, SPACES, FILES),
           "From Coq Require Import String.", "From Coq Require Import List QArith.", "Import ListNotations.",
           "Open Scope string_scope.", "Close Scope Q_scope.", ""]
    out += ["(* %s *)" % NIFTI] + a + ["", "(* %s *)" % SPACES] + b + ["", "(* %s *)" % FILES] + c
    meta = {"source": [NIFTI, SPACES, FILES]}
    meta.update(ma)
    meta.update(mb)
    meta.update(mc)
    return "\n".join(out) + "\n", meta
