import json,glob,sys
for f in sorted(glob.glob('/verif/seeded/*-r[2345]-*/result.json')):
    r=json.load(open(f)); n=f.split('/')[-2]
    ch=r.get('checks_with_patch',{})
    s=' '.join('%s:(%s,v%s,c%s,%s)'%(p,c['exit'],c['violations'],c['with_concrete_replay'],c['signatures'][:3]) for p,c in ch.items())
    print(n, 'demo',r.get('demo_without_patch'),r.get('demo_with_patch'), s, 'restore',r.get('checks_after_restore'))
