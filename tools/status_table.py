#!/usr/bin/env python3
"""Regenerate the per-property status table of DESIGN.md from MANIFEST.json, evidence/*.json and known_findings.json."""
import json, os
m = json.load(open("MANIFEST.json"))
kf = json.load(open("known_findings.json"))["findings"]
rows = ["| id | obligations (all discharged) | axioms reported by Print Assumptions | quick: evaluations / model comparisons / wall | findings fixed / known | report |", "|---|---|---|---|---|---|"]
for c in m["checks"]:
    pid = c["property_id"]
    ev = {}
    try:
        ev = json.load(open("evidence/%s.json" % pid))
    except Exception:
        pass
    cov = ev.get("coverage", {})
    ass = cov.get("assumptions_by_theorem", {})
    nonclosed = sorted({t for t, a in ass.items() if "Closed under the global context" not in a})
    axioms = set()
    for t in nonclosed:
        a = ass[t]
        for name in ("sig_forall_dec", "sig_not_dec", "functional_extensionality_dep", "classic", "proof_irrelevance", "JMeq_eq", "Eqdep", "constructive_indefinite_description", "propositional_extensionality"):
            if name in a:
                axioms.add(name)
    axtxt = "none (all closed)" if not nonclosed else "%d theorem(s) over R: %s" % (len(nonclosed), ", ".join(sorted(axioms)) or "see evidence")
    fx = sum(1 for f in kf if f["property"] == pid and f["status"] == "fixed")
    kn = sum(1 for f in kf if f["property"] == pid and f["status"] == "known")
    rows.append("| %s | %s | %s | %s / %s / %ss (%s) | %d / %d | reports/%s.md |" % (
        pid, cov.get("obligations", "-"), axtxt, cov.get("evaluations", "-"), cov.get("traces_validated_against_impl", "-"),
        ev.get("wall_s", "-"), ev.get("tier", "-"), fx, kn, pid))
s = open("DESIGN.md").read()
a, b = "<!-- STATUS-TABLE-BEGIN -->", "<!-- STATUS-TABLE-END -->"
if a in s:
    s = s[:s.index(a) + len(a)] + "\n" + "\n".join(rows) + "\n" + s[s.index(b):]
    open("DESIGN.md", "w").write(s)
print("\n".join(rows))
