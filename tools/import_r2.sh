#!/bin/bash
# import available round-2 seeds that are not yet imported; print list of new names
cd /verif
for d in /tmp/mut2-C*-out; do
  id=$(basename $d | sed 's/mut2-\(C[0-9]*\)-out/\1/')
  for n in 1 2 3; do
    if [ -f $d/$n/patch.diff ] && [ -f $d/$n/meta.json ] && [ ! -d seeded/$id-r2-$n ]; then
      mkdir -p seeded/$id-r2-$n; cp $d/$n/patch.diff $d/$n/demo.py $d/$n/meta.json seeded/$id-r2-$n/; echo $id-r2-$n
    fi
  done
done
