#!/usr/bin/env python3
"""Regenerate the 'Seeded changes' table of DESIGN.md (between the markers) from seeded/*/{meta,result}.json."""
import json, glob, os, re
rows = []
for d in sorted(glob.glob("seeded/*/")):
    name = os.path.basename(d.rstrip("/"))
    try:
        meta = json.load(open(d + "meta.json"))
    except Exception:
        continue
    res = {}
    if os.path.exists(d + "result.json"):
        res = json.load(open(d + "result.json"))
    title = meta.get("title") or meta.get("breaks", "")[:80]
    title = " ".join(str(title).split())[:110]
    needs = " ".join(str(meta.get("needs_to_manifest", "")).split())[:150]
    det = res.get("checks_with_patch", {})
    cells = []
    if res.get("patch_applies") is False:
        cells.append("patch no longer applies to /repo's HEAD (context rewritten by a later `fix:` commit); last successful evaluation in history.txt")
    for p, v in det.items():
        if v["violations"] == 0:
            cells.append("%s: **missed**" % p)
        else:
            sigs = ", ".join("`%s`" % s[:70] for s in v["signatures"][:3])
            cells.append("%s: caught (%d replay%s%s) %s" % (p, v["with_concrete_replay"], "" if v["with_concrete_replay"] == 1 else "s",
                                                            "" if v["with_concrete_replay"] else "; no concrete input", sigs))
    hist = ""
    if os.path.exists(d + "history.txt"):
        hist = " " + " ".join(open(d + "history.txt").read().split())
    rows.append("| %s | %s | %s | %s%s |" % (name, title.replace("|", "/"), needs.replace("|", "/"), "; ".join(cells) or "not evaluated", hist.replace("|", "/")))
table = ["| seed | change | needs to manifest | result of `./check` (quick tier, NIPY_REPO = patched worktree) |", "|---|---|---|---|"] + rows
s = open("DESIGN.md").read()
a, b = "<!-- SEEDED-TABLE-BEGIN -->", "<!-- SEEDED-TABLE-END -->"
if a in s:
    s = s[:s.index(a) + len(a)] + "\n" + "\n".join(table) + "\n" + s[s.index(b):]
    open("DESIGN.md", "w").write(s)
print("\n".join(table))
