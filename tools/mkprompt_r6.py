#!/usr/bin/env python3
"""Round-6 mutation prompts: round-5 prompt + titles of the round-5 seeds; two changes, 30 minutes."""
import glob, json, re, sys
for i in range(1, 21):
    pid = "C%02d" % i
    t = open("/tmp/mutprompt5_%s.txt" % pid).read().rstrip("\n")
    t = t.replace("mut5", "mut6")
    t = t.replace("produce THREE different", "produce TWO different").replace("The three changes should", "The two changes should")
    t = t.replace("For each change n = 1, 2, 3 create", "For each change n = 1, 2 create").replace("keep the three changes small", "keep the two changes small")
    t = t.replace("You have about 40 minutes", "You have about 30 minutes (hard limit: write what you have verified by then)")
    for d in sorted(glob.glob("seeded/%s-r5-*/meta.json" % pid)):
        m = json.load(open(d))
        files = ", ".join(m.get("files_touched", [])[:2])
        t += "\n- %s [%s]" % (m.get("title", "")[:140], files)
    open("/tmp/mutprompt6_%s.txt" % pid, "w").write(t + "\n")
print("ok")
