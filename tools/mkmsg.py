import sys, json
pid = sys.argv[1]; seeds = sys.argv[2].split(","); extra = sys.argv[3] if len(sys.argv) > 3 else ""
lines = []
for s in seeds:
    m = json.load(open('/verif/seeded/%s/meta.json' % s))
    t = m.get('title') or m.get('summary') or ''
    n = m.get('needs_to_manifest') or m.get('exposed_by') or ''
    lines.append("- %s: %s\n  exposed by: %s" % (s, t, str(n)[:500]))
msg = """Round-2 mutation results for {pid}: the seeded change(s) below (under /verif/seeded/) were NOT detected with a concrete replay by `./check {pid}` (quick tier). Each directory holds patch.diff (the change to nipy), meta.json (what it breaks and what input/sequence exposes it) and demo.py (fails with the patch, passes without).

{lines}

Task: strengthen your check in a GENERAL way so that this class of change is detected with a concrete replay - i.e. model / translate the affected code path, add the theorem or correspondence the property text calls for, or widen the generator's input classes (dtypes, memory layouts, object reuse and multi-step sequences on one object, value magnitudes, orderings, border cases) - never a special case for the one input in demo.py. Follow /verif/AGENT_GUIDE.md as before (do not edit /repo, do not run git; the coordinator commits).

Verify each with `python3 tools/seed_eval.py seeded/<dir>` (it applies the patch in a scratch worktree, runs your check with NIPY_REPO pointing at it, then re-runs on the real tree): it must report violations>0 with with_concrete_replay>0 under checks_with_patch and 0 under checks_after_restore. `./check {pid}` and `./check {pid} --tier thorough` must still exit 0 with no VIOLATION line on the unchanged tree; keep the quick tier within a few minutes.

If the stronger check exposes genuine defects in the unchanged nipy, handle them as before (small safe repair -> reports/{pid}-fix-<n>.diff for me to commit as a `fix:`; otherwise a `known` entry in known_findings.json with a precise signature). False alarms must be corrected, not listed.

Finally write seeded/<dir>/history.txt (why it was missed, what was strengthened, the signatures that now catch it), update reports/{pid}.md (including the MANIFEST proposal texts if the description of the check changed), and reply with a short summary.
{extra}""".format(pid=pid, lines="\n".join(lines), extra=extra)
open('/tmp/msg_%s.txt' % pid, 'w').write(msg)
print(len(msg))
