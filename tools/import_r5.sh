#!/bin/bash
# import available round-5 seeds that are not yet imported; print list of new names
cd /verif
for d in /tmp/mut5-C*-out; do
  id=$(basename $d | sed 's/mut5-\(C[0-9]*\)-out/\1/')
  for n in 1 2 3; do
    if [ -f $d/$n/patch.diff ] && [ -f $d/$n/meta.json ] && [ -f $d/$n/demo.py ] && [ ! -d seeded/$id-r5-$n ]; then
      mkdir -p seeded/$id-r5-$n; cp $d/$n/patch.diff $d/$n/demo.py $d/$n/meta.json seeded/$id-r5-$n/; echo $id-r5-$n
    fi
  done
done
