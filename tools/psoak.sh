#!/bin/bash
# tools/psoak.sh [seed] [parallel]: every claimed check (quick tier) on the unchanged tree, several at a time; one line per check
cd "$(dirname "$0")/.."
SEED=${1:-0}; PAR=${2:-5}
PROPS=${PROPS:-$(python3 -c "import json;print(' '.join(c['property_id'] for c in json.load(open('MANIFEST.json'))['checks']))")}
one() {
  p=$1; t0=$(date +%s)
  out=$(VERIF_SEED=$SEED timeout 3000 ./check $p --tier quick 2>&1); rc=$?
  t1=$(date +%s)
  echo "seed=$SEED $p rc=$rc violations=$(echo "$out" | grep -c '^VIOLATION') wall=$((t1-t0))s $(echo "$out" | tail -1)"
  if [ $rc -ne 0 ]; then echo "$out" | grep -E "failure\[|VIOLATION" | head -6; fi
}
export -f one; export SEED
echo $PROPS | tr ' ' '\n' | xargs -P $PAR -I{} bash -c 'one {}'
