#!/usr/bin/env python3
"""tools/manifest_add.py C15 [--text T --note N --technique K]: add/replace a check entry in MANIFEST.json,
taking level text / note / technique from the 'MANIFEST entry proposal' block of reports/<ID>.md when not given."""
import json, re, sys, argparse
ap = argparse.ArgumentParser(); ap.add_argument("pid"); ap.add_argument("--text"); ap.add_argument("--note"); ap.add_argument("--technique")
a = ap.parse_args()
pid = a.pid
def grab(key, s):
    """text in double quotes following `key` (possibly wrapped in backticks / bullets), up to the next key or the end"""
    m = re.search(key, s)
    if not m:
        return None
    rest = s[m.end():]
    nxt = re.search(r"\n[\s*`-]*(level_claimed\.text|level_note|technique|level_claimed\.category|property_id)\b", rest)
    seg = rest[:nxt.start()] if nxt else rest
    i, j = seg.find('"'), seg.rfind('"')
    if i < 0 or j <= i:
        seg2 = seg.split(":", 1)[-1].strip().strip("`").strip()
        return " ".join(seg2.split()) or None
    return " ".join(seg[i + 1:j].split())
rep = ""
try:
    rep = open("reports/%s.md" % pid).read()
    i = rep.lower().rfind("manifest entry")
    rep = rep[i:] if i >= 0 else rep
except Exception:
    pass
text = a.text or grab(r"level_claimed\.text", rep) or grab(r'"?text"?', rep)
note = a.note or grab(r"level_note", rep)
tech = a.technique or grab(r"technique", rep) or "machine-checked proof in Coq + vm_compute correspondence + property oracles"
assert text and note, (text, note)
m = json.load(open("MANIFEST.json"))
m["checks"] = [c for c in m["checks"] if c["property_id"] != pid]
m["checks"].append({"property_id": pid, "quick_cmd": "./check %s --tier quick" % pid, "thorough_cmd": "./check %s --tier thorough" % pid,
  "evidence_file": "/verif/evidence/%s.json" % pid, "replay_cmd_template": "./check %s --replay {path}" % pid, "engine": "coq-model",
  "level_claimed": {"category": "proof", "text": text, "design_ref": "DESIGN.md section 6 %s; reports/%s.md" % (pid, pid)},
  "level_note": note, "technique": tech})
m["checks"].sort(key=lambda c: c["property_id"])
m["not_applicable"] = [x for x in m.get("not_applicable", []) if x["property_id"] != pid]
for e in m["engines"]:
    e["serves_properties"] = sorted(set(e["serves_properties"]) | {pid})
json.dump(m, open("MANIFEST.json", "w"), indent=1)
print("added", pid, len(text), len(note))
