#!/usr/bin/env python3
"""Per-round statistics of the seeded changes (from seeded/*/{result.json,history.txt})."""
import glob, json, os, re
rounds = {}
for d in sorted(glob.glob("seeded/*/")):
    n = os.path.basename(d.rstrip("/"))
    m = re.match(r"(C\d\d)-(?:r(\d)-)?\d$", n)
    if not m:
        continue
    r = int(m.group(2) or 1)
    st = rounds.setdefault(r, {"total": 0, "missed_at_first": 0, "caught_now": 0, "caught_by_owner_only": 0, "broken_proof_only": 0, "missed_now": 0, "no_longer_applies": 0, "names_missed": []})
    st["total"] += 1
    if os.path.exists(d + "history.txt"):
        st["missed_at_first"] += 1
    if not os.path.exists(d + "result.json"):
        continue
    res = json.load(open(d + "result.json"))
    if res.get("patch_applies") is False:
        st["no_longer_applies"] += 1
        continue
    det = res.get("checks_with_patch", {})
    own = det.get(m.group(1), {})
    anyc = any(v.get("with_concrete_replay", 0) > 0 for v in det.values())
    if own.get("with_concrete_replay", 0) > 0:
        st["caught_now"] += 1
    elif anyc:
        st["caught_by_owner_only"] += 1
    elif any(v.get("violations", 0) > 0 for v in det.values()):
        st["broken_proof_only"] += 1; st["names_missed"].append(n)
    else:
        st["missed_now"] += 1; st["names_missed"].append(n)
for r in sorted(rounds):
    print(r, rounds[r])
