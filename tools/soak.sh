#!/bin/bash
# tools/soak.sh [tier] [seeds...]: run every claimed check on the unchanged tree for several seeds; print a table.
cd "$(dirname "$0")/.."
TIER=${1:-quick}; shift
SEEDS=${@:-0 1 2}
PROPS=$(python3 -c "import json;print(' '.join(c['property_id'] for c in json.load(open('MANIFEST.json'))['checks']))")
for s in $SEEDS; do
  for p in $PROPS; do
    t0=$(date +%s)
    out=$(VERIF_SEED=$s timeout 3000 ./check $p --tier $TIER 2>&1)
    rc=$?
    t1=$(date +%s)
    nv=$(echo "$out" | grep -c "^VIOLATION")
    echo "seed=$s $p rc=$rc violations=$nv wall=$((t1-t0))s $(echo "$out" | tail -1)"
    if [ $rc -ne 0 ]; then echo "$out" | grep -E "failure\[|VIOLATION" | head -5; fi
  done
done
