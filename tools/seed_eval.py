#!/usr/bin/env python3
"""Evaluate a seeded change against the checks, without touching /repo's working tree.

  tools/seed_eval.py <dir with patch.diff, demo.py, meta.json> [--baseline] [--tier quick] [--props C01,C20]

Creates a scratch worktree of /repo's HEAD under /tmp, verifies that demo.py passes
without the patch and fails with it, optionally runs the 288-test baseline with the patch,
runs `./check <prop>` with NIPY_REPO pointing at the patched worktree, restores coq/Generated
by re-running against /repo, removes the worktree, and records the outcome in <dir>/result.json.
"""
import argparse
import json
import os
import re
import subprocess
import sys
from pathlib import Path

VERIF = Path(__file__).resolve().parent.parent


def sh(cmd, env=None, timeout=3600, cwd=None):
    e = dict(os.environ)
    if env:
        e.update(env)
    r = subprocess.run(cmd, shell=True, capture_output=True, text=True, env=e, timeout=timeout, cwd=cwd)
    return r.returncode, r.stdout + r.stderr


def main():
    ap = argparse.ArgumentParser()
    ap.add_argument("dir")
    ap.add_argument("--baseline", action="store_true")
    ap.add_argument("--tier", default="quick")
    ap.add_argument("--props")
    a = ap.parse_args()
    d = Path(a.dir).resolve()
    meta = json.loads((d / "meta.json").read_text())
    props = (a.props.split(",") if a.props else [meta["property"]])
    wt = Path("/tmp/seed-wt-%s-%d" % (d.name, os.getpid()))
    res = {"props": props}
    sh("git -C /repo worktree remove --force %s" % wt)
    rc, out = sh("git -C /repo worktree add --detach %s HEAD" % wt)
    assert rc == 0, out
    try:
        env = {"NIPY_REPO": str(wt), "PYTHONDONTWRITEBYTECODE": "1", "PYTHONHASHSEED": "0"}
        rc0, out0 = sh("/venv/bin/python %s" % (d / "demo.py"), env, cwd="/tmp")
        res["demo_without_patch"] = rc0
        rc, out = sh("git -C %s apply %s" % (wt, d / "patch.diff"))
        res["patch_applies"] = rc == 0
        if rc != 0:
            res["apply_error"] = out[-500:]
            return res
        rc1, out1 = sh("/venv/bin/python %s" % (d / "demo.py"), env, cwd="/tmp")
        res["demo_with_patch"] = rc1
        res["demo_with_patch_tail"] = out1[-400:]
        if a.baseline:
            rc, out = sh("/venv/bin/python -m pytest -q -p no:cacheprovider --timeout=900 --continue-on-collection-errors 2>&1 | tail -1", cwd=str(wt))
            res["baseline_summary"] = out.strip()[-200:]
            sh("find %s -name __pycache__ -type d -prune -exec rm -rf {} +" % wt)
        det = {}
        for p in props:
            rc, out = sh("timeout 1800 ./check %s --tier %s" % (p, a.tier), env, cwd=str(VERIF))
            viol = re.findall(r"VIOLATION property=(\S+) replay=(\S+)( no-failing-input-found)?", out)
            sigs = re.findall(r"failure\[([^\]]+)\]", out)
            det[p] = {"exit": rc, "violations": len(viol), "signatures": sigs[:12],
                      "with_concrete_replay": sum(1 for v in viol if not v[2]),
                      "tail": out[-300:] if rc not in (0, 1) else ""}
        res["checks_with_patch"] = det
    finally:
        sh("git -C /repo worktree remove --force %s" % wt)
        # restore Generated/ and evidence from the real tree
        for p in props:
            rc, out = sh("timeout 1800 ./check %s --tier quick" % p, cwd=str(VERIF))
            res.setdefault("checks_after_restore", {})[p] = rc
    (d / "result.json").write_text(json.dumps(res, indent=1))
    return res


if __name__ == "__main__":
    print(json.dumps(main(), indent=1))
