#!/usr/bin/env python3
"""Regenerate the findings tables of DESIGN.md (between the FINDINGS-TABLE markers) from known_findings.json."""
import json
k = json.load(open("known_findings.json"))["findings"]


def clean(t):
    return " ".join(str(t).split()).replace("|", "/")


fixed = [f for f in k if f["status"] == "fixed"]
known = [f for f in k if f["status"] == "known"]
out = ["**Repaired in /repo (%d entries, one `fix:` commit each or shared; a `fixed` entry suppresses nothing).**" % len(fixed), "",
       "| property | commit | what failed on the pinned code |", "|---|---|---|"]
for f in sorted(fixed, key=lambda f: (f["property"], f.get("commit", ""))):
    w = clean(f["what"])
    w = w.split(f.get("commit", "\0"), 1)[-1].strip() if f.get("commit") and f["commit"] in w else w
    out.append("| %s | %s | %s |" % (f["property"], f.get("commit", ""), w[:400]))
out += ["", "**Recorded, not repaired (%d `known` entries; each check prints one KNOWN-FINDING line per entry it hits and still "
        "reports any other violation).**" % len(known), "", "| property | signature | what fails, and why it is not repaired here |", "|---|---|---|"]
for f in sorted(known, key=lambda f: (f["property"], f["signature"])):
    out.append("| %s | `%s` | %s |" % (f["property"], clean(f["signature"])[:90], clean(f["what"])[:500]))
s = open("DESIGN.md").read()
a, b = "<!-- FINDINGS-TABLE-BEGIN -->", "<!-- FINDINGS-TABLE-END -->"
assert a in s and b in s
s = s[:s.index(a) + len(a)] + "\n" + "\n".join(out) + "\n" + s[s.index(b):]
open("DESIGN.md", "w").write(s)
print(len(fixed), "fixed", len(known), "known")
