#!/usr/bin/env python3
"""Prompt for a fresh agent that strengthens / extends one property's check (round 6).
usage: tools/mkext.py <ID> [seed1,seed2,...]   -> /tmp/ext_<ID>.txt"""
import json, sys
pid = sys.argv[1]
seeds = [s for s in (sys.argv[2].split(",") if len(sys.argv) > 2 and sys.argv[2] else []) if s]
lines = []
for s in seeds:
    m = json.load(open('/verif/seeded/%s/meta.json' % s))
    lines.append("- seeded/%s: %s\n  exposed by: %s" % (s, m.get('title', ''), str(m.get('needs_to_manifest', ''))[:500]))
missed = ""
if seeds:
    missed = """
PART A (do this first).  The seeded change(s) below (under /verif/seeded/; each directory holds patch.diff = the change to nipy, meta.json = what it breaks and what input/sequence exposes it, demo.py = fails with the patch, passes without) were NOT detected with a concrete replay by `./check {pid}` (quick tier):

{lines}

Strengthen the check in a GENERAL way so that this class of change is detected with a concrete replay - model / translate the affected code path, add the theorem or correspondence the property text calls for, or widen the generator's input classes (dtypes, memory layouts, object reuse and multi-step sequences on one object, value magnitudes, orderings, border cases, optional arguments) - never a special case for the one input in demo.py.  Verify each with `timeout 3000 python3 tools/seed_eval.py seeded/<dir>` (it applies the patch in a scratch worktree, runs the check with NIPY_REPO pointing at it, then re-runs on the real tree): it must report violations>0 with with_concrete_replay>0 under checks_with_patch and exit 0 under checks_after_restore.  Then write seeded/<dir>/history.txt (why it was missed, what was strengthened, the signatures that now catch it).
""".format(pid=pid, lines="\n".join(lines))
msg = """You are continuing the build of the verification check for property {pid} in /verif (a Coq 8.16 machine-checked-proof framework for the nipy library in /repo).  A previous engineer built the check; you take over.  Read, in this order: /verif/AGENT_GUIDE.md (rules and conventions - follow them exactly: do not edit /repo, do not run git commands that change anything, write only your property's files), the record of {pid} in /verif/properties.jsonl, /verif/reports/{pid}.md (what exists, what is not covered), then coq/{pid}/*.v, harness/props/{low}.py and the translators it uses.  You have about 35 minutes in total: plan for it, keep changes incremental, and keep the check green at every step.
{missed}
PART {b}.  Extend what the framework covers for {pid}: bring one more piece of the anchored nipy code inside the Gallina model (preferably something listed as not covered / only sampled in reports/{pid}.md, or a clause of the property statement that has no theorem yet), state and prove at least two new theorems about it at full strength (unbounded: induction / invariants, not vm_compute over samples) in coq/{pid}/ with the statement exported in coq/{pid}/Properties.v (`Theorem ... Proof. exact lemma. Qed.` followed by `Print Assumptions`), add a non-vacuity `Example`, and tie the new model to the current code: either a fail-closed translator from the source text (harness/translate/<new>.py, registered for {pid}) or a correspondence section in harness/props/{low}.py that runs the real nipy code and the model (vm_compute via ck.coq_bools) on the same generated inputs.  No Axiom/Parameter/Admitted/admit anywhere (a grep gate enforces it).

Requirements at the end: `timeout 1500 ./check {pid}` must exit 0 with no VIOLATION line on the unchanged tree (KNOWN-FINDING lines for already listed findings are fine) and the quick tier should stay within ~2-3 minutes.  If your stronger check exposes a genuine defect of the unchanged nipy (you can show the failing input against the real code), do not hide it: add a `known` entry to /verif/known_findings.json with a precise signature (structural cause in the signature), and if the repair is small and safe also write the patch to reports/{pid}-fix-r6.diff for the coordinator to commit; a false alarm must be corrected in the check, never listed.  Update reports/{pid}.md (new theorems, correspondence, what remains uncovered; keep the MANIFEST proposal texts current if the description of the check changed).  Other agents work on other properties concurrently, the machine is loaded: run every coqc/make/./check under `timeout`.  Your final message: a short summary (new theorem names, what they state, how tied to the code, any findings, files changed).
""".format(pid=pid, low=pid.lower(), missed=missed, b="B" if seeds else "A")
open('/tmp/ext_%s.txt' % pid, 'w').write(msg)
print(len(msg))
