#!/bin/bash
# import round-6 seeds of the given property ids (agents finished) and evaluate them, one background runner per id
cd /verif
for id in "$@"; do
  d=/tmp/mut6-$id-out
  names=""
  for n in 1 2 3; do
    if [ -f $d/$n/patch.diff ] && [ -f $d/$n/meta.json ] && [ -f $d/$n/demo.py ] && [ ! -d seeded/$id-r6-$n ]; then
      mkdir -p seeded/$id-r6-$n; cp $d/$n/patch.diff $d/$n/demo.py $d/$n/meta.json seeded/$id-r6-$n/; names="$names $id-r6-$n"
    fi
  done
  echo "$id:$names"
  if [ -n "$names" ]; then nohup tools/run_seeds.sh $names > /dev/null 2>&1 & fi
done
