#!/bin/bash
# Re-evaluate every seeded change against the current checks.
# Phase 1: four parallel streams, each owning whole properties (seeds of one property never run concurrently);
# phase 2: the C20 seeds alone (C20 regenerates other properties' translators from the patched tree).
cd /verif
log=/var/tmp/nipy-verif/reeval.log; : > $log
stream() { for p in "$@"; do for d in seeded/$p-*/; do n=$(basename $d); timeout 5400 python3 tools/seed_eval.py seeded/$n > /var/tmp/nipy-verif/reeval_$n.log 2>&1; echo "$n done" >> $log; done; done; }
stream C01 C05 C09 C13 C17 &
stream C02 C06 C10 C14 C18 &
stream C03 C07 C11 C15 C19 &
stream C04 C12 C16 C08 &
wait
declare -A owner=( [C20-r2-1]=C16 [C20-r2-2]=C09 [C20-r2-3]=C06 [C20-r3-1]=C08 [C20-r3-2]=C09 [C20-r3-3]=C19 )
for d in seeded/C20-*/; do n=$(basename $d); o=${owner[$n]}; props=C20; [ -n "$o" ] && props=C20,$o
  timeout 7200 python3 tools/seed_eval.py seeded/$n --props $props > /var/tmp/nipy-verif/reeval_$n.log 2>&1; echo "$n done" >> $log; done
echo ALL-DONE >> $log
