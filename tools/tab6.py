#!/usr/bin/env python3
import glob, json, os
for d in sorted(glob.glob("/verif/seeded/*-r6-*/")):
    n = os.path.basename(d.rstrip("/"))
    rp = d + "result.json"
    if not os.path.exists(rp):
        print(n, "pending"); continue
    r = json.load(open(rp))
    det = r.get("checks_with_patch", {})
    s = " ".join("%s:v%d/c%d/exit%s" % (k, v["violations"], v["with_concrete_replay"], v["exit"]) for k, v in det.items())
    print(n, "demo %s->%s" % (r.get("demo_without_patch"), r.get("demo_with_patch")), "applies" if r.get("patch_applies") else "NOAPPLY", s, "restore", r.get("checks_after_restore"))
