#!/bin/bash
cd /verif
for d in "$@"; do
  timeout 3600 python3 tools/seed_eval.py seeded/$d > /tmp/seed_$d.log 2>&1
  echo "$d done" >> /tmp/seed_progress.log
done
