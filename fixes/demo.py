"""Demonstrations of the defects repaired by the `fix:` commits in /repo.
Run: NIPY_REPO=<tree> /venv/bin/python /verif/fixes/demo.py   (prints OK/DEFECT per item)"""
import sys, os, copy
sys.path.insert(0, "/verif")
os.environ.setdefault("PYTHONDONTWRITEBYTECODE", "1")
from harness import overlay
ov = overlay.build(); overlay.install(ov)
import numpy as np
res = {}
def item(name):
    def deco(f):
        try:
            ok = f()
            res[name] = "OK" if ok else "DEFECT"
        except Exception as e:
            res[name] = "DEFECT (%s: %s)" % (type(e).__name__, str(e)[:80])
    return deco

@item("C08 Affine.compose(Rigid) does not raise")
def _():
    from nipy.algorithms.registration.affine import Affine, Rigid
    a = Affine(); a.param = np.array([1, 2, 3, .1, .2, .3, 1.1, 1.2, 1.3, .01, .02, .03]); r = Rigid(); r.param = np.array([3, 2, 1, .3, .2, .1])
    c = a.compose(r); x = np.array([[1., 2, 3]])
    return np.allclose(c.apply(x), a.apply(r.apply(x)))

@item("C07 coincident events superpose")
def _():
    from nipy.modalities.fmri.hemodynamic_models import _sample_condition
    ft = np.arange(0, 33, 2.)
    r2, _ = _sample_condition(([4., 4.], [1., 1.], [1., 1.]), ft)
    r1, _ = _sample_condition(([4.], [1.], [1.]), ft)
    return np.allclose(r2, 2 * r1)

@item("C11 knn with k = n-1 gives the complete graph")
def _():
    from nipy.algorithms.graph.graph import knn
    X = np.array([[0.], [1.], [3.], [7.]])
    g = knn(X, 3)
    return g.E == 12

@item("C11 subgraph_right takes a mask over the right vertices")
def _():
    from nipy.algorithms.graph.bipartite_graph import BipartiteGraph
    g = BipartiteGraph(2, 3, np.array([[0, 0], [1, 2], [0, 1]]), np.array([1., 2., 3.]))
    s = g.subgraph_right(np.array([True, False, True]))
    return s.W == 2 and s.E == 2

@item("C18 LinearFilter scale option works")
def _():
    from nipy.algorithms.kernel_smooth import LinearFilter
    from nipy.core.api import Image, AffineTransform
    cm = AffineTransform.from_params('ijk', 'xyz', np.eye(4))
    d = np.zeros((9, 9, 9)); d[4, 4, 4] = 1
    img = Image(d, cm)
    a = LinearFilter(cm, d.shape, fwhm=2.).smooth(img).get_fdata()
    b = LinearFilter(cm, d.shape, fwhm=2., scale=2.).smooth(img).get_fdata()
    return np.allclose(b, 2 * a)

@item("C20 yule_walker leaves its input unchanged")
def _():
    from nipy.algorithms.statistics.models.regression import yule_walker
    x = np.array([1., 3, 2, 5, 4, 6, 8, 7]); x0 = x.copy()
    yule_walker(x, 1)
    return np.array_equal(x, x0)

@item("C20 renamed_domain/range leave the caller's dict unchanged")
def _():
    from nipy.core.api import AffineTransform
    cm = AffineTransform.from_params('ijk', 'xyz', np.eye(4))
    d = {0: 'a'}; e = {1: 'b'}
    cm.renamed_domain(d); cm.renamed_range(e)
    return d == {0: 'a'} and e == {1: 'b'}

@item("C20 estimate_varatio leaves df's shape unchanged")
def _():
    from nipy.algorithms.statistics.onesample import estimate_varatio
    rng = np.random.RandomState(0)
    Y = rng.standard_normal((5, 3)); sd = np.ones((5, 3)); df = np.arange(1., 6.)
    estimate_varatio(Y, sd, df=df)
    return df.shape == (5,)

@item("C02 input_axis_index(-1) on a 2-in/3-out map is the last INPUT axis")
def _():
    from nipy.core.api import AffineTransform
    from nipy.core.reference.coordinate_map import input_axis_index
    aff = np.array([[1., 0, 0], [0, 1, 0], [0, 0, 0], [0, 0, 1]])
    cm = AffineTransform.from_params('ij', 'xyz', aff)
    return input_axis_index(cm, -1) == 1

for k, v in res.items():
    print("%-70s %s" % (k, v))
