(* C16 / cubic spline - executable model of
   /repo/nipy/algorithms/registration/cubic_spline.c  (definitions only).

   Exact arithmetic over Q; grid indices over Z.  The model follows the
   branch structure of the C:

     cubic_spline_basis            lines 58-78
     _mirrored_position            lines 644-652
     _apply_boundary_conditions    lines 657-693
     _mirror_grid_neighbors        lines 699-710
     cubic_spline_sample1d         lines 225-271   (2d..4d are the tensor product
                                                    of the same per-axis logic)

   The C writes the constant 2/3 as the decimal literal 0.66666666666667.
   The basis is therefore modelled with that constant as a parameter `c`
   (`cubic_spline_basis_gen c`), instantiated at
     c23_literal  the decimal literal as written in the source, and
     c23_double   the IEEE double nearest to the literal (what the compiled
                  code computes with; used by the correspondence check, where
                  every other floating-point operation is exact). *)
Require Import QArith Qround Qabs Lqa.
From Coq Require Import ZArith List Bool.
Import ListNotations.
Open Scope Q_scope.

(* ------------------------------------------------------------ constants *)
Definition c23_literal : Q := 66666666666667 # 100000000000000.
Definition c23_double  : Q := 6004799503160691 # 9007199254740992.   (* n / 2^53 *)

(* ------------------------------------------------------------ helpers *)
Definition Qlt_bool (a b : Q) : bool := negb (Qle_bool b a).

(* #define ABS(a) ( (a) > 0.0 ? (a) : (-(a)) ) *)
Definition abs_c (x : Q) : Q := if Qlt_bool 0 x then x else - x.

(* (int)(a) : truncation toward zero *)
Definition Qtrunc (q : Q) : Z := if Qle_bool 0 q then Qfloor q else Qceiling q.

(* ------------------------------------------------------------ basis *)
(* the part of cubic_spline_basis after `absx = ABS(x)` *)
Definition basis_core (c absx : Q) : Q :=
  if Qle_bool 2 absx then 0                       (* if (absx >= 2) return 0.0; *)
  else if Qlt_bool absx 1 then                    (* if (absx < 1) {            *)
    let aux := absx * absx in                     (*   aux = absx*absx;         *)
    c - aux + (1#2) * absx * aux                  (*   y = c - aux + 0.5*absx*aux; } *)
  else
    let aux := 2 - absx in                        (* else { aux = 2 - absx;     *)
    aux * aux * aux / 6.                          (*   y = aux*aux*aux / 6.0; } *)

Definition cubic_spline_basis_gen (c x : Q) : Q := basis_core c (abs_c x).

(* the function as written in the source / as executed *)
Definition cubic_spline_basis    (x : Q) : Q := cubic_spline_basis_gen c23_literal x.
Definition cubic_spline_basis_fp (x : Q) : Q := cubic_spline_basis_gen c23_double x.

(* ------------------------------------------------------------ index maps *)
(* static inline int _mirrored_position(int x, unsigned int ddim)   [after C16-fix-3:
   `if (ddim == 0) return 0;` first - a single sample mirrors to a constant signal] *)
Definition mirrored_position (x ddim : Z) : Z :=
  if (ddim =? 0)%Z then 0%Z
  else if (x <? 0)%Z then (- x)%Z
  else if (x >? ddim)%Z then (2 * ddim - x)%Z
  else x.

(* _apply_boundary_conditions(mode, ddim, &x, &w): None = `ok == 0` (the
   sampling function then returns 0.0); Some (x', w) = new coordinate and weight.
   mode 0 'zero', 1 'nearest', anything else 'reflect' (the C's final else). *)
Definition apply_boundary_conditions (mode ddim : Z) (x : Q) : option (Q * Q) :=
  let dim := (ddim + 1)%Z in
  if (mode =? 0)%Z then
    if Qlt_bool x (-1) then None
    else if Qlt_bool x 0 then Some (0, 1 + x)
    else if Qlt_bool (inject_Z dim) x then None
    else if Qlt_bool (inject_Z ddim) x then Some (inject_Z ddim, inject_Z dim - x)
    else Some (x, 1)
  else if (mode =? 1)%Z then
    if Qlt_bool x 0 then Some (0, 1)
    else if Qlt_bool (inject_Z ddim) x then Some (inject_Z ddim, 1)
    else Some (x, 1)
  else
    if Qlt_bool x (inject_Z (- ddim)) || Qlt_bool (inject_Z (2 * ddim)) x then None
    else Some (x, 1).

(* _mirror_grid_neighbors(x, ddim, &nx, &px) after C16-fix-3, writing px for the C's `*px`:
     px = (int)(x+ddim+2);
     if (ddim == 0)                       { ok = 1; nx = -1; px = 1; }
     else if (px >= 3 && px <= 3*ddim)    { ok = 1; px = px-ddim; nx = px-3; }
     else if (px == 3*ddim+1 && x+ddim+2 == (double)px)
                                          { ok = 1; px = px-ddim-1; nx = px-2; }   *)
Definition mirror_grid_neighbors (x : Q) (ddim : Z) : option (Z * Z) :=
  let s := x + inject_Z ddim + 2 in
  let px0 := Qtrunc s in
  if (ddim =? 0)%Z then Some ((-1)%Z, 1%Z)
  else if (3 <=? px0)%Z && (px0 <=? 3 * ddim)%Z
  then Some ((px0 - ddim - 3)%Z, (px0 - ddim)%Z)
  else if (px0 =? 3 * ddim + 1)%Z && Qeq_bool s (inject_Z px0)
  then Some ((px0 - ddim - 3)%Z, (px0 - ddim - 1)%Z)
  else None.

(* ------------------------------------------------------------ sampling *)
Definition coef_at (coef : list Q) (i : Z) : Q := nth (Z.to_nat i) coef 0.

(* the neighbours nx .. px (four, or three after C16-fix-3): position after mirroring, and weight *)
Definition zrange (nx px : Z) : list Z :=
  map (fun d => (nx + Z.of_nat d)%Z) (seq 0 (Z.to_nat (px - nx + 1))).
Definition neighbor_positions (nx px ddim : Z) : list Z :=
  map (fun xx => mirrored_position xx ddim) (zrange nx px).
Definition neighbor_weights (c x : Q) (nx px : Z) : list Q :=
  map (fun xx => cubic_spline_basis_gen c (x - inject_Z xx)) (zrange nx px).

Fixpoint dotq (a b : list Q) : Q :=
  match a, b with
  | x :: a', y :: b' => x * y + dotq a' b'
  | _, _ => 0
  end.

(* double cubic_spline_sample1d(double x, const PyArrayObject* Coef, int mode) *)
Definition sample1d_gen (c : Q) (mode : Z) (x : Q) (coef : list Q) : Q :=
  let ddim := (Z.of_nat (length coef) - 1)%Z in
  match apply_boundary_conditions mode ddim x with
  | None => 0
  | Some (x', w) =>
    match mirror_grid_neighbors x' ddim with
    | None => 0
    | Some (nx, px) =>
      w * dotq (map (coef_at coef) (neighbor_positions nx px ddim)) (neighbor_weights c x' nx px)
    end
  end.

Definition sample1d    := sample1d_gen c23_literal.
Definition sample1d_fp := sample1d_gen c23_double.

(* what the sampling function looks at, for the correspondence check:
   Some (positions, weights, w) or None when it returns 0.0 early *)
Definition sample1d_plan (c : Q) (mode ddim : Z) (x : Q) : option (list Z * list Q * Q) :=
  match apply_boundary_conditions mode ddim x with
  | None => None
  | Some (x', w) =>
    match mirror_grid_neighbors x' ddim with
    | None => None
    | Some (nx, px) => Some (neighbor_positions nx px ddim, neighbor_weights c x' nx px, w)
    end
  end.

(* unit impulse coefficient array of length n with the 1 at position k *)
Definition impulse (n k : nat) : list Q :=
  map (fun i => if Nat.eqb i k then 1 else 0) (seq 0 n).

(* mirror-boundary interpolation identity for a coefficient list c and samples s
   (both of length ddim+1): (c[k-1] + 4 c[k] + c[k+1]) / 6 == s[k], indices mirrored *)
Definition interp_at (coef : list Q) (ddim k : Z) : Q :=
  (coef_at coef (mirrored_position (k - 1) ddim) + 4 * coef_at coef k
   + coef_at coef (mirrored_position (k + 1) ddim)) / 6.
