(* C16 / cubic spline - property theorems whose STATEMENT changes when C16-fix-3 is
   committed (replace the same-named theorems of the index-map / sampling part of
   coq/C16/Properties.v; the basis theorems are unchanged).  The two `_refuted`
   theorems and `reflect_outer_step_has_no_neighbors` (old form) are dropped. *)
Local Open Scope Q_scope.

Theorem mirror_index_in_bounds : forall (x : Q) (ddim nx px : Z),
  (0 <= ddim)%Z ->
  mirror_grid_neighbors x ddim = Some (nx, px) ->
  (px = nx + 3 \/ px = nx + 2)%Z /\
  forall xx : Z, (nx <= xx <= px)%Z -> (0 <= mirrored_position xx ddim <= ddim)%Z.
Proof.
  intros x ddim nx px Hd H. split.
  - apply (neighbors_guard _ _ _ _ H).
  - exact (mirror_index_in_bounds_lemma x ddim nx px Hd H).
Qed.
Print Assumptions mirror_index_in_bounds.

Theorem sample_positions_in_bounds_all_modes :
  forall (c : Q) (mode ddim : Z) (x : Q) (pos : list Z) (ws : list Q) (w : Q),
  (0 <= ddim)%Z ->
  sample1d_plan c mode ddim x = Some (pos, ws, w) ->
  Forall (fun p => (0 <= p <= ddim)%Z) pos.
Proof. exact sample_positions_in_bounds. Qed.
Print Assumptions sample_positions_in_bounds_all_modes.

Theorem sample_weights_partition :
  forall (c : Q) (mode ddim : Z) (x : Q) (pos : list Z) (ws : list Q) (w : Q),
  c == 2#3 -> (1 <= ddim)%Z ->
  sample1d_plan c mode ddim x = Some (pos, ws, w) ->
  fold_right Qplus 0 ws == 1.
Proof. exact sample_weights_sum. Qed.
Print Assumptions sample_weights_partition.

(* EVERY extent >= 1, every mode, every grid point *)
Theorem sample_at_grid_point_formula : forall (c : Q) (mode : Z) (coef : list Q) (k : Z),
  let ddim := (Z.of_nat (length coef) - 1)%Z in
  (0 <= k <= ddim)%Z ->
  sample1d_gen c mode (inject_Z k) coef ==
    (1#6) * coef_at coef (mirrored_position (k - 1) ddim) + c * coef_at coef (mirrored_position k ddim)
    + (1#6) * coef_at coef (mirrored_position (k + 1) ddim).
Proof. exact sample_at_grid_point. Qed.
Print Assumptions sample_at_grid_point_formula.

Theorem sample_at_grid_points_exact : forall (c : Q) (mode : Z) (coef : list Q) (k : Z) (s : Q),
  let ddim := (Z.of_nat (length coef) - 1)%Z in
  c == 2#3 -> (0 <= k <= ddim)%Z ->
  interp_at coef ddim k == s ->
  sample1d_gen c mode (inject_Z k) coef == s.
Proof. exact sample_reproduces_grid. Qed.
Print Assumptions sample_at_grid_points_exact.

Theorem sample_at_grid_points_deviation : forall (c : Q) (mode : Z) (coef : list Q) (k : Z) (s : Q),
  let ddim := (Z.of_nat (length coef) - 1)%Z in
  (0 <= k <= ddim)%Z ->
  interp_at coef ddim k == s ->
  sample1d_gen c mode (inject_Z k) coef - s == (c - (2#3)) * coef_at coef k.
Proof. exact sample_grid_deviation. Qed.
Print Assumptions sample_at_grid_points_deviation.

(* reflect mode is defined exactly on the closed interval [1-ddim, 2 ddim-1] (extent >= 2) *)
Theorem reflect_outside_closed_interval_has_no_neighbors : forall (x : Q) (ddim : Z), (1 <= ddim)%Z ->
  (inject_Z (- ddim) <= x -> x < inject_Z (1 - ddim) -> mirror_grid_neighbors x ddim = None) /\
  (inject_Z (2 * ddim - 1) < x -> mirror_grid_neighbors x ddim = None).
Proof.
  intros x ddim Hd. split.
  - exact (reflect_gap_low x ddim Hd).
  - exact (reflect_gap_high x ddim Hd).
Qed.
Print Assumptions reflect_outside_closed_interval_has_no_neighbors.

(* the former refuted clauses, now positive: extents 1 and 2 *)
Example sample_extent1_example : forall mode : Z, sample1d_gen (2#3) mode 0 [5] == 5.
Proof. intros mode. apply (sample_reproduces_grid (2#3) mode [5] 0 5); [reflexivity|cbn; lia|reflexivity]. Qed.

Example sample_extent2_example :
  sample1d_gen (2#3) 1 0 [-2; 7] == 1 /\ sample1d_gen (2#3) 1 1 [-2; 7] == 4 /\
  sample1d_gen (2#3) 0 1 [-2; 7] == 4 /\ sample1d_gen (2#3) 2 1 [-2; 7] == 4.
Proof. repeat split; reflexivity. Qed.

(* reflect mode at the last point 2 ddim - 1 of the mirrored grid: three neighbours *)
Example sample_plan_last_mirrored_point :
  match sample1d_plan (2#3) 2 2 3 with
  | Some (pos, _, w) => pos = [2; 1; 0]%Z /\ w == 1
  | None => False
  end.
Proof. vm_compute. split; reflexivity. Qed.
