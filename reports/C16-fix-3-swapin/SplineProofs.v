(* C16 / cubic spline - lemmas about SplineModel.v *)
Require Import QArith Qround Qabs Lqa.
From Coq Require Import ZArith List Bool Lia.
From NVFIX3 Require Import SplineModel.   (* in /verif/coq: From NV.C16 Require Import SplineModel. *)
Import ListNotations.
Open Scope Q_scope.

(* push inject_Z through +/- of numerals *)
Ltac injz :=
  unfold Z.sub in *; repeat rewrite inject_Z_plus in *; repeat rewrite inject_Z_opp in *;
  change (inject_Z 1) with 1 in *; change (inject_Z 2) with 2 in *; change (inject_Z 3) with 3 in *;
  change (inject_Z (-1)) with (-1 # 1) in *; change (inject_Z (-2)) with (-2 # 1) in *;
  change (inject_Z (-3)) with (-3 # 1) in *.

(* ------------------------------------------------------------ booleans *)
Lemma Qlt_bool_true a b : Qlt_bool a b = true -> a < b.
Proof.
  unfold Qlt_bool. intros H. apply negb_true_iff in H.
  apply Qnot_le_lt. intros Hle. apply Qle_bool_iff in Hle. congruence.
Qed.

Lemma Qlt_bool_false a b : Qlt_bool a b = false -> b <= a.
Proof.
  unfold Qlt_bool. intros H. apply negb_false_iff in H. now apply Qle_bool_iff.
Qed.

Lemma Qle_bool_false a b : Qle_bool a b = false -> b < a.
Proof.
  intros H. apply Qnot_le_lt. intros Hle. apply Qle_bool_iff in Hle. congruence.
Qed.

Global Instance Qlt_bool_comp : Proper (Qeq ==> Qeq ==> eq) Qlt_bool.
Proof. intros a b Hab c d Hcd. unfold Qlt_bool. now rewrite Hab, Hcd. Qed.

(* ------------------------------------------------------------ ABS *)
Lemma abs_c_nonneg x : 0 <= abs_c x.
Proof.
  unfold abs_c. destruct (Qlt_bool 0 x) eqn:E.
  - apply Qlt_bool_true in E. lra.
  - apply Qlt_bool_false in E. lra.
Qed.

Lemma abs_c_pos x : 0 <= x -> abs_c x == x.
Proof.
  intros Hx. unfold abs_c. destruct (Qlt_bool 0 x) eqn:E.
  - reflexivity.
  - apply Qlt_bool_false in E. lra.
Qed.

Lemma abs_c_neg x : x <= 0 -> abs_c x == - x.
Proof.
  intros Hx. unfold abs_c. destruct (Qlt_bool 0 x) eqn:E.
  - apply Qlt_bool_true in E. lra.
  - reflexivity.
Qed.

Lemma abs_c_opp x : abs_c (- x) == abs_c x.
Proof.
  destruct (Qlt_le_dec x 0) as [H|H].
  - rewrite (abs_c_pos (- x)) by lra. rewrite (abs_c_neg x) by lra. reflexivity.
  - rewrite (abs_c_neg (- x)) by lra. rewrite (abs_c_pos x) by lra. ring.
Qed.

Lemma abs_c_Qabs x : abs_c x == Qabs x.
Proof.
  destruct (Qlt_le_dec x 0) as [H|H].
  - rewrite abs_c_neg by lra. symmetry. apply Qabs_neg. lra.
  - rewrite abs_c_pos by lra. symmetry. now apply Qabs_pos.
Qed.

(* ------------------------------------------------------------ basis core *)
Global Instance basis_core_comp : Proper (Qeq ==> Qeq ==> Qeq) basis_core.
Proof.
  intros c c' Hc a a' Ha. unfold basis_core.
  assert (E2 : Qle_bool 2 a = Qle_bool 2 a') by (now rewrite Ha).
  assert (E1 : Qlt_bool a 1 = Qlt_bool a' 1) by (now rewrite Ha).
  rewrite E2, E1. destruct (Qle_bool 2 a'); [reflexivity|].
  destruct (Qlt_bool a' 1); cbv zeta; rewrite Ha, ?Hc; reflexivity.
Qed.

Global Instance basis_gen_comp : Proper (Qeq ==> Qeq ==> Qeq) cubic_spline_basis_gen.
Proof.
  intros c c' Hc x x' Hx. unfold cubic_spline_basis_gen.
  apply basis_core_comp; [exact Hc|].
  rewrite !abs_c_Qabs. now rewrite Hx.
Qed.

Lemma core_inner c a : 0 <= a -> a < 1 ->
  basis_core c a == c - a * a + (1#2) * a * (a * a).
Proof.
  intros H0 H1. unfold basis_core.
  destruct (Qle_bool 2 a) eqn:E2.
  - apply Qle_bool_iff in E2. lra.
  - destruct (Qlt_bool a 1) eqn:E1.
    + reflexivity.
    + apply Qlt_bool_false in E1. lra.
Qed.

Lemma core_outer c a : 1 <= a -> a < 2 ->
  basis_core c a == (2 - a) * (2 - a) * (2 - a) / 6.
Proof.
  intros H1 H2. unfold basis_core.
  destruct (Qle_bool 2 a) eqn:E2.
  - apply Qle_bool_iff in E2. lra.
  - destruct (Qlt_bool a 1) eqn:E1.
    + apply Qlt_bool_true in E1. lra.
    + reflexivity.
Qed.

Lemma core_zero c a : 2 <= a -> basis_core c a == 0.
Proof.
  intros H2. unfold basis_core.
  destruct (Qle_bool 2 a) eqn:E2; [reflexivity|].
  apply Qle_bool_false in E2. lra.
Qed.

(* characterisation of the basis on each piece *)
Lemma basis_inner_pos c x : 0 <= x -> x < 1 ->
  cubic_spline_basis_gen c x == c - x * x + (1#2) * x * (x * x).
Proof.
  intros H0 H1. unfold cubic_spline_basis_gen.
  rewrite (abs_c_pos x H0). now apply core_inner.
Qed.

Lemma basis_inner_neg c x : -1 < x -> x <= 0 ->
  cubic_spline_basis_gen c x == c - x * x - (1#2) * x * (x * x).
Proof.
  intros H0 H1. unfold cubic_spline_basis_gen.
  rewrite (abs_c_neg x H1). rewrite core_inner by lra. ring.
Qed.

Lemma basis_outer_pos c x : 1 <= x -> x < 2 ->
  cubic_spline_basis_gen c x == (2 - x) * (2 - x) * (2 - x) / 6.
Proof.
  intros H1 H2. unfold cubic_spline_basis_gen.
  rewrite (abs_c_pos x) by lra. now apply core_outer.
Qed.

Lemma basis_outer_neg c x : -2 < x -> x <= -1 ->
  cubic_spline_basis_gen c x == (2 + x) * (2 + x) * (2 + x) / 6.
Proof.
  intros H1 H2. unfold cubic_spline_basis_gen.
  rewrite (abs_c_neg x) by lra. rewrite core_outer by lra. field.
Qed.

Lemma basis_zero_pos c x : 2 <= x -> cubic_spline_basis_gen c x == 0.
Proof.
  intros H. unfold cubic_spline_basis_gen. rewrite (abs_c_pos x) by lra. now apply core_zero.
Qed.

Lemma basis_zero_neg c x : x <= -2 -> cubic_spline_basis_gen c x == 0.
Proof.
  intros H. unfold cubic_spline_basis_gen. rewrite (abs_c_neg x) by lra. apply core_zero. lra.
Qed.

(* ------------------------------------------------------------ basis theorems *)
Lemma basis_even c x : cubic_spline_basis_gen c (- x) == cubic_spline_basis_gen c x.
Proof.
  unfold cubic_spline_basis_gen. now rewrite abs_c_opp.
Qed.

Lemma basis_support c x : 2 <= Qabs x -> cubic_spline_basis_gen c x == 0.
Proof.
  intros H. unfold cubic_spline_basis_gen. apply core_zero. now rewrite abs_c_Qabs.
Qed.

Lemma basis_values c :
  cubic_spline_basis_gen c 0 == c /\
  cubic_spline_basis_gen c 1 == 1#6 /\
  cubic_spline_basis_gen c (-1) == 1#6 /\
  (forall x, 2 <= Qabs x -> cubic_spline_basis_gen c x == 0).
Proof.
  split; [|split; [|split]].
  - rewrite basis_inner_pos by lra. ring.
  - rewrite basis_outer_pos by lra. reflexivity.
  - rewrite basis_outer_neg by lra. reflexivity.
  - intros x Hx. now apply basis_support.
Qed.

(* a^2 (1 - a/2) <= 1/2 on [0,1] *)
Lemma inner_poly_bound a : 0 <= a -> a < 1 -> a * a - (1#2) * a * (a * a) <= 1#2.
Proof.
  intros H0 H1.
  assert (Ha2 : a * a <= 1) by nra.
  assert (Hp : 0 <= a * a * a) by (apply Qmult_le_0_compat; [apply Qmult_le_0_compat|]; assumption).
  nra.
Qed.

Lemma basis_nonneg c x : 1#2 <= c -> 0 <= cubic_spline_basis_gen c x.
Proof.
  intros Hc. unfold cubic_spline_basis_gen.
  pose proof (abs_c_nonneg x) as Ha. set (a := abs_c x) in *. clearbody a.
  destruct (Qlt_le_dec a 1) as [H1|H1].
  - rewrite core_inner by assumption.
    pose proof (inner_poly_bound a Ha H1). lra.
  - destruct (Qlt_le_dec a 2) as [H2|H2].
    + rewrite core_outer by assumption.
      assert (Hb : 0 <= 2 - a) by lra.
      assert (0 <= (2 - a) * (2 - a) * (2 - a))
        by (apply Qmult_le_0_compat; [apply Qmult_le_0_compat|]; assumption).
      apply Qle_shift_div_l; lra.
    + rewrite core_zero by assumption. lra.
Qed.

(* partition: the four weights used at offset t in [0,1) *)
Lemma basis_partition_open c t : 0 < t -> t < 1 ->
  cubic_spline_basis_gen c (t + 1) + cubic_spline_basis_gen c t +
  cubic_spline_basis_gen c (t - 1) + cubic_spline_basis_gen c (t - 2)
  == 1 + 2 * (c - (2#3)).
Proof.
  intros H0 H1.
  rewrite (basis_outer_pos c (t + 1)) by lra.
  rewrite (basis_inner_pos c t) by lra.
  rewrite (basis_inner_neg c (t - 1)) by lra.
  rewrite (basis_outer_neg c (t - 2)) by lra.
  field.
Qed.

Lemma basis_partition_zero c :
  cubic_spline_basis_gen c (0 + 1) + cubic_spline_basis_gen c 0 +
  cubic_spline_basis_gen c (0 - 1) + cubic_spline_basis_gen c (0 - 2)
  == 1 + (c - (2#3)).
Proof.
  rewrite (basis_outer_pos c (0 + 1)) by lra.
  rewrite (basis_inner_pos c 0) by lra.
  rewrite (basis_outer_neg c (0 - 1)) by lra.
  rewrite (basis_zero_neg c (0 - 2)) by lra.
  field.
Qed.

Lemma basis_partition_exact c t : c == 2#3 -> 0 <= t -> t < 1 ->
  cubic_spline_basis_gen c (t + 1) + cubic_spline_basis_gen c t +
  cubic_spline_basis_gen c (t - 1) + cubic_spline_basis_gen c (t - 2) == 1.
Proof.
  intros Hc H0 H1.
  destruct (Qlt_le_dec 0 t) as [Hp|Hz].
  - rewrite basis_partition_open by assumption. rewrite Hc. ring.
  - assert (Ht : t == 0) by lra. rewrite Ht.
    rewrite basis_partition_zero. rewrite Hc. ring.
Qed.

(* with an inexact constant the sum is off by at most 2 |c - 2/3| *)
Lemma basis_partition_bound c t : 0 <= t -> t < 1 ->
  Qabs (cubic_spline_basis_gen c (t + 1) + cubic_spline_basis_gen c t +
        cubic_spline_basis_gen c (t - 1) + cubic_spline_basis_gen c (t - 2) - 1)
  <= 2 * Qabs (c - (2#3)).
Proof.
  intros H0 H1.
  assert (Hn : 0 <= Qabs (c - (2#3))) by apply Qabs_nonneg.
  destruct (Qlt_le_dec 0 t) as [Hp|Hz].
  - rewrite basis_partition_open by assumption.
    setoid_replace (1 + 2 * (c - (2 # 3)) - 1) with (2 * (c - (2#3))) by ring.
    rewrite Qabs_Qmult. setoid_replace (Qabs 2) with 2 by reflexivity. lra.
  - assert (Ht : t == 0) by lra. rewrite Ht.
    rewrite basis_partition_zero.
    setoid_replace (1 + (c - (2 # 3)) - 1) with (c - (2#3)) by ring. lra.
Qed.

(* general x: the four integer shifts k-1..k+2 around k = floor x *)
Lemma basis_partition_floor c x : c == 2#3 ->
  cubic_spline_basis_gen c (x - inject_Z (Qfloor x - 1)) + cubic_spline_basis_gen c (x - inject_Z (Qfloor x)) +
  cubic_spline_basis_gen c (x - inject_Z (Qfloor x + 1)) + cubic_spline_basis_gen c (x - inject_Z (Qfloor x + 2)) == 1.
Proof.
  intros Hc.
  pose proof (Qfloor_le x) as Hl. pose proof (Qlt_floor x) as Hu.
  set (k := Qfloor x) in *. clearbody k.
  set (t := x - inject_Z k).
  assert (Ht0 : 0 <= t) by (unfold t; lra).
  assert (Ht1 : t < 1).
  { unfold t. injz. lra. }
  rewrite <- (basis_partition_exact c t Hc Ht0 Ht1).
  assert (E1 : x - inject_Z (k - 1) == t + 1).
  { unfold t. injz. ring. }
  assert (E2 : x - inject_Z (k + 1) == t - 1).
  { unfold t. injz. ring. }
  assert (E3 : x - inject_Z (k + 2) == t - 2).
  { unfold t. injz. ring. }
  rewrite E1, E2, E3. reflexivity.
Qed.

(* every other integer shift has weight 0 *)
Lemma basis_other_shifts_zero c x j :
  (j <= Qfloor x - 2 \/ Qfloor x + 3 <= j)%Z -> cubic_spline_basis_gen c (x - inject_Z j) == 0.
Proof.
  intros Hj.
  pose proof (Qfloor_le x) as Hl. pose proof (Qlt_floor x) as Hu.
  injz.
  destruct Hj as [Hj|Hj].
  - apply basis_zero_pos.
    assert (inject_Z j <= inject_Z (Qfloor x - 2)) by (rewrite <- Zle_Qle; exact Hj).
    injz. lra.
  - apply basis_zero_neg.
    assert (inject_Z (Qfloor x + 3) <= inject_Z j) by (rewrite <- Zle_Qle; exact Hj).
    injz. lra.
Qed.

(* the constants *)
Lemma c23_literal_error : c23_literal - (2#3) == 1 # 300000000000000.
Proof. reflexivity. Qed.

Lemma c23_double_close : Qabs (c23_double - c23_literal) <= 1 # 18014398509481984.   (* 2^-54 *)
Proof. vm_compute. discriminate. Qed.

Lemma c23_double_error : Qabs (c23_double - (2#3)) <= 1 # 290000000000000.
Proof. vm_compute. discriminate. Qed.

Lemma c23_literal_ge_half : 1#2 <= c23_literal.
Proof. vm_compute. discriminate. Qed.

Lemma c23_double_ge_half : 1#2 <= c23_double.
Proof. vm_compute. discriminate. Qed.

(* ============================================================ index maps (after C16-fix-3) *)
Lemma mirrored_in_bounds xx ddim :
  (ddim = 0 \/ - ddim <= xx <= 2 * ddim)%Z -> (0 <= ddim)%Z ->
  (0 <= mirrored_position xx ddim <= ddim)%Z.
Proof.
  intros H Hd. unfold mirrored_position.
  destruct (Z.eqb_spec ddim 0) as [E0|E0]; [lia|].
  destruct (Z.ltb_spec xx 0) as [E1|E1]; [lia|].
  destruct (Z.gtb_spec xx ddim) as [E2|E2]; lia.
Qed.

Lemma mirrored_id xx ddim : (0 <= xx <= ddim)%Z -> mirrored_position xx ddim = xx.
Proof.
  intros H. unfold mirrored_position.
  destruct (Z.eqb_spec ddim 0) as [E0|E0]; [lia|].
  destruct (Z.ltb_spec xx 0) as [E1|E1]; [lia|].
  destruct (Z.gtb_spec xx ddim) as [E2|E2]; lia.
Qed.

Lemma mirrored_ddim0 xx : mirrored_position xx 0 = 0%Z.
Proof. reflexivity. Qed.

(* whatever the coordinate, when _mirror_grid_neighbors succeeds the neighbours
   nx..px are three or four consecutive positions, inside the once-mirrored grid
   [-ddim, 2 ddim] unless the grid is a single point *)
Lemma neighbors_guard x ddim nx px :
  mirror_grid_neighbors x ddim = Some (nx, px) ->
  ((px = nx + 3 \/ px = nx + 2) /\
   (ddim = 0 \/ (- ddim <= nx /\ px <= 2 * ddim /\ 1 <= ddim) \/ ddim < 0))%Z.
Proof.
  unfold mirror_grid_neighbors. cbv zeta. intros H.
  destruct (Z.eqb_spec ddim 0) as [E0|E0].
  - injection H as Hn Hp. lia.
  - destruct (andb _ _) eqn:G in H.
    + apply andb_true_iff in G. destruct G as [G1 G2].
      apply Z.leb_le in G1. apply Z.leb_le in G2.
      injection H as Hn Hp. lia.
    + destruct (andb _ _) eqn:G' in H; [|discriminate].
      apply andb_true_iff in G'. destruct G' as [G1 _]. apply Z.eqb_eq in G1.
      injection H as Hn Hp. lia.
Qed.

Lemma mirror_index_in_bounds_lemma x ddim nx px :
  (0 <= ddim)%Z ->
  mirror_grid_neighbors x ddim = Some (nx, px) ->
  forall xx, (nx <= xx <= px)%Z -> (0 <= mirrored_position xx ddim <= ddim)%Z.
Proof.
  intros Hd H xx Hxx. apply neighbors_guard in H. apply mirrored_in_bounds; lia.
Qed.

Lemma zrange_in nx px xx : In xx (zrange nx px) -> (nx <= xx <= px)%Z.
Proof.
  unfold zrange. intros H. apply in_map_iff in H. destruct H as (d & Hd & Hin).
  apply in_seq in Hin. lia.
Qed.

Lemma neighbor_positions_in_bounds x ddim nx px :
  (0 <= ddim)%Z ->
  mirror_grid_neighbors x ddim = Some (nx, px) ->
  Forall (fun p => (0 <= p <= ddim)%Z) (neighbor_positions nx px ddim).
Proof.
  intros Hd H. unfold neighbor_positions. apply Forall_forall. intros p Hp.
  apply in_map_iff in Hp. destruct Hp as (xx & Hxx & Hin). subst p.
  apply (mirror_index_in_bounds_lemma x ddim nx px Hd H). now apply zrange_in.
Qed.

Lemma zrange4 nx : zrange nx (nx + 3) = [nx; nx + 1; nx + 2; nx + 3]%Z.
Proof.
  unfold zrange. replace (nx + 3 - nx + 1)%Z with 4%Z by lia.
  change (Z.to_nat 4) with 4%nat. cbn [seq map].
  change (Z.of_nat 0) with 0%Z. change (Z.of_nat 1) with 1%Z.
  change (Z.of_nat 2) with 2%Z. change (Z.of_nat 3) with 3%Z.
  rewrite Z.add_0_r. reflexivity.
Qed.

Lemma zrange3 nx : zrange nx (nx + 2) = [nx; nx + 1; nx + 2]%Z.
Proof.
  unfold zrange. replace (nx + 2 - nx + 1)%Z with 3%Z by lia.
  change (Z.to_nat 3) with 3%nat. cbn [seq map].
  change (Z.of_nat 0) with 0%Z. change (Z.of_nat 1) with 1%Z. change (Z.of_nat 2) with 2%Z.
  rewrite Z.add_0_r. reflexivity.
Qed.

(* ------------------------------------------------------------ floor facts *)
Lemma Qfloor_unique (y : Q) (m : Z) : inject_Z m <= y -> y < inject_Z (m + 1) -> Qfloor y = m.
Proof.
  intros Hl Hu.
  pose proof (Qfloor_le y) as Fl. pose proof (Qlt_floor y) as Fu.
  assert (A : (m < Qfloor y + 1)%Z) by (rewrite Zlt_Qlt; lra).
  assert (B : (Qfloor y < m + 1)%Z) by (rewrite Zlt_Qlt; lra).
  lia.
Qed.

Lemma Qfloor_add_Z (x : Q) (n : Z) : Qfloor (x + inject_Z n) = (Qfloor x + n)%Z.
Proof.
  pose proof (Qfloor_le x) as Fl. pose proof (Qlt_floor x) as Fu.
  apply Qfloor_unique.
  - rewrite inject_Z_plus. lra.
  - replace (Qfloor x + n + 1)%Z with ((Qfloor x + 1) + n)%Z by lia.
    rewrite (inject_Z_plus (Qfloor x + 1) n). lra.
Qed.

Lemma Qtrunc_nonneg q : 0 <= q -> Qtrunc q = Qfloor q.
Proof.
  intros H. unfold Qtrunc. destruct (Qle_bool 0 q) eqn:E; [reflexivity|].
  apply Qle_bool_false in E. lra.
Qed.

Lemma Qtrunc_inject k : Qtrunc (inject_Z k) = k.
Proof.
  unfold Qtrunc. destruct (Qle_bool 0 (inject_Z k)); [apply Qfloor_Z|apply Qceiling_Z].
Qed.

Global Instance Qtrunc_comp : Proper (Qeq ==> eq) Qtrunc.
Proof.
  intros a b Hab. unfold Qtrunc.
  assert (E : Qle_bool 0 a = Qle_bool 0 b) by (now rewrite Hab).
  rewrite E. destruct (Qle_bool 0 b); now rewrite Hab.
Qed.

(* for a coordinate inside the once-mirrored grid of an axis with >= 2 points the
   neighbours start at floor(x)-1; there are four of them, or three when x is the
   integer 2 ddim - 1 (then the fourth, floor(x)+2, has weight B(-2) = 0) *)
Lemma neighbors_floor x ddim nx px :
  (1 <= ddim)%Z -> inject_Z (- ddim) <= x ->
  mirror_grid_neighbors x ddim = Some (nx, px) ->
  nx = (Qfloor x - 1)%Z /\
  (px = (Qfloor x + 2)%Z \/ (px = (Qfloor x + 1)%Z /\ x == inject_Z (Qfloor x))).
Proof.
  intros Hd Hx H. unfold mirror_grid_neighbors in H. cbv zeta in H.
  assert (Hq : 0 <= x + inject_Z ddim + 2).
  { rewrite inject_Z_opp in Hx.
    assert (0 <= inject_Z ddim) by (change 0 with (inject_Z 0); rewrite <- Zle_Qle; lia). lra. }
  rewrite (Qtrunc_nonneg _ Hq) in H.
  assert (E : x + inject_Z ddim + 2 == x + inject_Z (ddim + 2)).
  { rewrite inject_Z_plus. change (inject_Z 2) with 2. ring. }
  assert (F : Qfloor (x + inject_Z ddim + 2) = (Qfloor x + (ddim + 2))%Z)
    by (rewrite E; apply Qfloor_add_Z).
  rewrite F in H.
  destruct (Z.eqb_spec ddim 0) as [E0|E0]; [lia|].
  destruct (andb _ _) in H.
  - injection H as Hn Hp. lia.
  - destruct (andb _ _) eqn:G in H; [|discriminate].
    apply andb_true_iff in G. destruct G as [_ G2]. apply Qeq_bool_iff in G2.
    injection H as Hn Hp. split; [lia|]. right. split; [lia|].
    rewrite E in G2. rewrite !inject_Z_plus in G2. lra.
Qed.

(* ------------------------------------------------------------ boundary conditions *)
Lemma boundary_range mode ddim x x' w :
  (0 <= ddim)%Z -> apply_boundary_conditions mode ddim x = Some (x', w) ->
  inject_Z (- ddim) <= x' /\ x' <= inject_Z (2 * ddim) /\ 0 <= w /\ w <= 1 /\
  ((mode = 0 \/ mode = 1)%Z -> 0 <= x' /\ x' <= inject_Z ddim).
Proof.
  intros Hd H.
  assert (D0 : 0 <= inject_Z ddim) by (change 0 with (inject_Z 0); now rewrite <- Zle_Qle).
  assert (Dn : inject_Z (- ddim) == - inject_Z ddim) by (rewrite inject_Z_opp; reflexivity).
  assert (D2 : inject_Z (2 * ddim) == 2 * inject_Z ddim)
    by (rewrite inject_Z_mult; reflexivity).
  assert (D1 : inject_Z (ddim + 1) == inject_Z ddim + 1)
    by (rewrite inject_Z_plus; reflexivity).
  unfold apply_boundary_conditions in H.
  destruct (Z.eqb_spec mode 0) as [M0|M0].
  - destruct (Qlt_bool x (-1)) eqn:E1; [discriminate|]. apply Qlt_bool_false in E1.
    destruct (Qlt_bool x 0) eqn:E2.
    + apply Qlt_bool_true in E2. inversion H; subst; clear H. repeat split; try lra.
    + apply Qlt_bool_false in E2.
      destruct (Qlt_bool (inject_Z (ddim + 1)) x) eqn:E3; [discriminate|]. apply Qlt_bool_false in E3.
      destruct (Qlt_bool (inject_Z ddim) x) eqn:E4.
      * apply Qlt_bool_true in E4. inversion H; subst; clear H. repeat split; try lra.
      * apply Qlt_bool_false in E4. inversion H; subst; clear H. repeat split; try lra.
  - destruct (Z.eqb_spec mode 1) as [M1|M1].
    + destruct (Qlt_bool x 0) eqn:E2.
      * inversion H; subst x' w; clear H. repeat split; try lra.
      * apply Qlt_bool_false in E2.
        destruct (Qlt_bool (inject_Z ddim) x) eqn:E4.
        -- inversion H; subst x' w; clear H. repeat split; try lra.
        -- apply Qlt_bool_false in E4. inversion H; subst x' w; clear H. repeat split; try lra.
    + destruct (orb _ _) eqn:E in H; [discriminate|].
      apply orb_false_iff in E. destruct E as [E1 E2].
      apply Qlt_bool_false in E1. apply Qlt_bool_false in E2.
      inversion H; subst; clear H.
      split; [lra|]. split; [lra|]. split; [lra|]. split; [lra|]. intros [M|M]; contradiction.
Qed.

(* for every mode and every coordinate the sampling function accepts,
   every coefficient index it reads is inside the array *)
Lemma sample_positions_in_bounds c mode ddim x pos ws w :
  (0 <= ddim)%Z ->
  sample1d_plan c mode ddim x = Some (pos, ws, w) ->
  Forall (fun p => (0 <= p <= ddim)%Z) pos.
Proof.
  unfold sample1d_plan. intros Hd H.
  destruct (apply_boundary_conditions mode ddim x) as [[x' w']|]; [|discriminate].
  destruct (mirror_grid_neighbors x' ddim) as [[nx px]|] eqn:E; [|discriminate].
  inversion H; subst; clear H. eapply neighbor_positions_in_bounds; eassumption.
Qed.

(* ------------------------------------------------------------ grid points *)
Lemma boundary_at_grid mode ddim k :
  (0 <= k <= ddim)%Z ->
  apply_boundary_conditions mode ddim (inject_Z k) = Some (inject_Z k, 1).
Proof.
  intros Hk.
  assert (K0 : 0 <= inject_Z k) by (change 0 with (inject_Z 0); rewrite <- Zle_Qle; lia).
  assert (K1 : inject_Z k <= inject_Z ddim) by (rewrite <- Zle_Qle; lia).
  assert (K2 : inject_Z k <= inject_Z (ddim + 1)) by (rewrite <- Zle_Qle; lia).
  assert (K3 : inject_Z (- ddim) <= inject_Z k) by (rewrite <- Zle_Qle; lia).
  assert (K4 : inject_Z k <= inject_Z (2 * ddim)) by (rewrite <- Zle_Qle; lia).
  unfold apply_boundary_conditions.
  destruct (mode =? 0)%Z.
  - destruct (Qlt_bool (inject_Z k) (-1)) eqn:E1; [apply Qlt_bool_true in E1; lra|].
    destruct (Qlt_bool (inject_Z k) 0) eqn:E2; [apply Qlt_bool_true in E2; lra|].
    destruct (Qlt_bool (inject_Z (ddim + 1)) (inject_Z k)) eqn:E3; [apply Qlt_bool_true in E3; lra|].
    destruct (Qlt_bool (inject_Z ddim) (inject_Z k)) eqn:E4; [apply Qlt_bool_true in E4; lra|].
    reflexivity.
  - destruct (mode =? 1)%Z.
    + destruct (Qlt_bool (inject_Z k) 0) eqn:E2; [apply Qlt_bool_true in E2; lra|].
      destruct (Qlt_bool (inject_Z ddim) (inject_Z k)) eqn:E4; [apply Qlt_bool_true in E4; lra|].
      reflexivity.
    + destruct (Qlt_bool (inject_Z k) (inject_Z (- ddim))) eqn:E1; [apply Qlt_bool_true in E1; lra|].
      destruct (Qlt_bool (inject_Z (2 * ddim)) (inject_Z k)) eqn:E2; [apply Qlt_bool_true in E2; lra|].
      reflexivity.
Qed.

(* at a grid point of ANY axis (extent >= 1): neighbours k-1 .. k+2, or k-1 .. k+1 *)
Lemma neighbors_at_grid ddim k :
  (0 <= k <= ddim)%Z ->
  mirror_grid_neighbors (inject_Z k) ddim = Some ((k - 1)%Z, (k + 2)%Z) \/
  mirror_grid_neighbors (inject_Z k) ddim = Some ((k - 1)%Z, (k + 1)%Z).
Proof.
  intros Hk. unfold mirror_grid_neighbors. cbv zeta.
  assert (E : inject_Z k + inject_Z ddim + 2 == inject_Z (k + ddim + 2)).
  { rewrite !inject_Z_plus. reflexivity. }
  assert (F : Qtrunc (inject_Z k + inject_Z ddim + 2) = (k + ddim + 2)%Z)
    by (rewrite E; apply Qtrunc_inject).
  rewrite F.
  destruct (Z.eqb_spec ddim 0) as [E0|E0].
  - right. f_equal. f_equal; lia.
  - destruct (Z.leb_spec 3 (k + ddim + 2)) as [G1|G1]; [|lia].
    destruct (Z.leb_spec (k + ddim + 2) (3 * ddim)) as [G2|G2].
    + left. cbn [andb]. f_equal. f_equal; lia.
    + right. cbn [andb].
      destruct (Z.eqb_spec (k + ddim + 2) (3 * ddim + 1)) as [G3|G3]; [|lia].
      assert (Q : Qeq_bool (inject_Z k + inject_Z ddim + 2) (inject_Z (k + ddim + 2)) = true)
        by (apply Qeq_bool_iff; exact E).
      rewrite Q. cbn [andb]. f_equal. f_equal; lia.
Qed.

(* For EVERY extent >= 1, every mode and every grid point k the sampled value is
   coef[m(k-1)]/6 + c coef[k] + coef[m(k+1)]/6 with m the mirror map. *)
Lemma sample_at_grid_point c mode coef k :
  let ddim := (Z.of_nat (length coef) - 1)%Z in
  (0 <= k <= ddim)%Z ->
  sample1d_gen c mode (inject_Z k) coef ==
    (1#6) * coef_at coef (mirrored_position (k - 1) ddim) + c * coef_at coef (mirrored_position k ddim)
    + (1#6) * coef_at coef (mirrored_position (k + 1) ddim).
Proof.
  intros ddim Hk. unfold sample1d_gen. fold ddim.
  rewrite (boundary_at_grid mode ddim k Hk).
  assert (W0 : cubic_spline_basis_gen c (inject_Z k - inject_Z (k - 1)) == 1#6).
  { assert (E : inject_Z k - inject_Z (k - 1) == 1) by (injz; ring).
    rewrite E. apply (basis_values c). }
  assert (W1 : cubic_spline_basis_gen c (inject_Z k - inject_Z (k - 1 + 1)) == c).
  { assert (E : inject_Z k - inject_Z (k - 1 + 1) == 0) by (injz; ring).
    rewrite E. apply (basis_values c). }
  assert (W2 : cubic_spline_basis_gen c (inject_Z k - inject_Z (k - 1 + 2)) == 1#6).
  { assert (E : inject_Z k - inject_Z (k - 1 + 2) == -1) by (injz; ring).
    rewrite E. apply (basis_values c). }
  assert (W3 : cubic_spline_basis_gen c (inject_Z k - inject_Z (k - 1 + 3)) == 0).
  { assert (E : inject_Z k - inject_Z (k - 1 + 3) == -2) by (injz; ring).
    rewrite E. apply basis_zero_neg. lra. }
  replace (k + 1)%Z with (k - 1 + 2)%Z by lia.
  replace (mirrored_position k ddim) with (mirrored_position (k - 1 + 1) ddim) by (f_equal; lia).
  destruct (neighbors_at_grid ddim k Hk) as [N|N]; rewrite N.
  - replace (k + 2)%Z with (k - 1 + 3)%Z by lia.
    unfold neighbor_positions, neighbor_weights. rewrite zrange4. cbn [map dotq].
    rewrite W0, W1, W2, W3. ring.
  - replace (k + 1)%Z with (k - 1 + 2)%Z by lia.
    unfold neighbor_positions, neighbor_weights. rewrite zrange3. cbn [map dotq].
    rewrite W0, W1, W2. ring.
Qed.

(* ... so coefficients solving the mirror-boundary interpolation equations are
   sampled back exactly (ideal constant 2/3), in every mode, for every extent *)
Lemma sample_reproduces_grid c mode coef k s :
  let ddim := (Z.of_nat (length coef) - 1)%Z in
  c == 2#3 -> (0 <= k <= ddim)%Z ->
  interp_at coef ddim k == s ->
  sample1d_gen c mode (inject_Z k) coef == s.
Proof.
  intros ddim Hc Hk Hs.
  rewrite (sample_at_grid_point c mode coef k Hk). fold ddim.
  rewrite <- Hs. unfold interp_at.
  destruct (Z.eq_dec ddim 0) as [E0|E0].
  - rewrite E0, !mirrored_ddim0. assert (k = 0%Z) by lia. subst k. rewrite Hc. field.
  - rewrite (mirrored_id k ddim Hk). rewrite Hc. field.
Qed.

Lemma sample_grid_deviation c mode coef k s :
  let ddim := (Z.of_nat (length coef) - 1)%Z in
  (0 <= k <= ddim)%Z ->
  interp_at coef ddim k == s ->
  sample1d_gen c mode (inject_Z k) coef - s == (c - (2#3)) * coef_at coef k.
Proof.
  intros ddim Hk Hs.
  rewrite (sample_at_grid_point c mode coef k Hk). fold ddim.
  rewrite <- Hs. unfold interp_at.
  destruct (Z.eq_dec ddim 0) as [E0|E0].
  - rewrite E0, !mirrored_ddim0. assert (k = 0%Z) by lia. subst k. field.
  - rewrite (mirrored_id k ddim Hk). field.
Qed.

(* the weights used form a partition of unity (ideal constant), every mode, extent >= 2 *)
Lemma sample_weights_sum c mode ddim x pos ws w :
  c == 2#3 -> (1 <= ddim)%Z ->
  sample1d_plan c mode ddim x = Some (pos, ws, w) ->
  fold_right Qplus 0 ws == 1.
Proof.
  intros Hc Hd H. unfold sample1d_plan in H.
  destruct (apply_boundary_conditions mode ddim x) as [[x' w']|] eqn:B; [|discriminate].
  destruct (mirror_grid_neighbors x' ddim) as [[nx px]|] eqn:E; [|discriminate].
  inversion H; subst; clear H.
  assert (Hd0 : (0 <= ddim)%Z) by lia.
  destruct (boundary_range _ _ _ _ _ Hd0 B) as (Hl & _).
  destruct (neighbors_floor _ _ _ _ Hd Hl E) as [Hn Hp]. subst nx.
  pose proof (basis_partition_floor c x' Hc) as P.
  unfold neighbor_weights.
  destruct Hp as [Hp|[Hp Hint]]; subst px.
  - replace (Qfloor x' + 2)%Z with (Qfloor x' - 1 + 3)%Z by lia.
    rewrite zrange4. cbn [map fold_right]. rewrite <- P.
    replace (Qfloor x' - 1 + 1)%Z with (Qfloor x')%Z by lia.
    replace (Qfloor x' - 1 + 2)%Z with (Qfloor x' + 1)%Z by lia.
    replace (Qfloor x' - 1 + 3)%Z with (Qfloor x' + 2)%Z by lia.
    ring.
  - replace (Qfloor x' + 1)%Z with (Qfloor x' - 1 + 2)%Z by lia.
    rewrite zrange3. cbn [map fold_right]. rewrite <- P.
    replace (Qfloor x' - 1 + 1)%Z with (Qfloor x')%Z by lia.
    replace (Qfloor x' - 1 + 2)%Z with (Qfloor x' + 1)%Z by lia.
    assert (Z0 : cubic_spline_basis_gen c (x' - inject_Z (Qfloor x' + 2)) == 0).
    { apply basis_zero_neg. rewrite inject_Z_plus. change (inject_Z 2) with 2. lra. }
    rewrite Z0. ring.
Qed.

(* ------------------------------------------------------------ reflect mode domain *)
Lemma reflect_gap_low x ddim :
  (1 <= ddim)%Z -> inject_Z (- ddim) <= x -> x < inject_Z (1 - ddim) ->
  mirror_grid_neighbors x ddim = None.
Proof.
  intros Hd Hl Hu.
  destruct (mirror_grid_neighbors x ddim) as [[nx px]|] eqn:E; [|reflexivity].
  destruct (neighbors_floor _ _ _ _ Hd Hl E) as [Hn Hp].
  apply neighbors_guard in E.
  assert (F : Qfloor x = (- ddim)%Z).
  { apply Qfloor_unique; [assumption|]. replace (- ddim + 1)%Z with (1 - ddim)%Z by lia. assumption. }
  lia.
Qed.

Lemma reflect_gap_high x ddim :
  (1 <= ddim)%Z -> inject_Z (2 * ddim - 1) < x ->
  mirror_grid_neighbors x ddim = None.
Proof.
  intros Hd Hl.
  destruct (mirror_grid_neighbors x ddim) as [[nx px]|] eqn:E; [|reflexivity].
  assert (Hl' : inject_Z (- ddim) <= x).
  { assert (inject_Z (- ddim) <= inject_Z (2 * ddim - 1)) by (rewrite <- Zle_Qle; lia). lra. }
  destruct (neighbors_floor _ _ _ _ Hd Hl' E) as [Hn Hp].
  apply neighbors_guard in E.
  assert (F : (2 * ddim - 1 <= Qfloor x)%Z).
  { pose proof (Qlt_floor x) as Fu.
    assert (A : (2 * ddim - 1 < Qfloor x + 1)%Z) by (rewrite Zlt_Qlt; lra). lia. }
  destruct Hp as [Hp|[Hp Hint]]; [lia|].
  assert (G : (Qfloor x <= 2 * ddim - 1)%Z) by lia.
  assert (Qfloor x = 2 * ddim - 1)%Z by lia.
  rewrite H in Hint. lra.
Qed.
